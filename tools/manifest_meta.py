NA = {}
META = {
 "C15": {
  "text": "Generated-history search against an interval-union reference model on all three public set flavours, exact canonical-form comparison after every step, exhaustive enumeration of all histories of <=2 (quick) / <=3 (thorough) insertions over a 9-value boundary pool, parser differential against an independent regexp parser, and an out-of-process enumeration probe at 2^32-1. Sampling, not proof.",
  "design_ref": "DESIGN.md 3/C15",
  "note": "Trusts the reference model (60 lines, 64-bit arithmetic) and rapid's generators; sets built from the SearchRes marker are outside the domain.",
  "technique": "property-based testing (rapid) with reference model + exhaustive small-scope enumeration",
 },
}
