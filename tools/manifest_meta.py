NA = {}
META = {
 "C15": {
  "text": "Generated-history search against an interval-union reference model on all three public set flavours, exact canonical-form comparison after every step, exhaustive enumeration of all histories of <=2 (quick) / <=3 (thorough) insertions over a 9-value boundary pool, parser differential against an independent regexp parser, and an out-of-process enumeration probe at 2^32-1. Sampling, not proof.",
  "design_ref": "DESIGN.md 3/C15",
  "note": "Trusts the reference model (60 lines, 64-bit arithmetic) and rapid's generators; sets built from the SearchRes marker are outside the domain.",
  "technique": "property-based testing (rapid) with reference model + exhaustive small-scope enumeration",
 },
 "C16": {
  "text": "Differential and round-trip search against an independent RFC 3501 5.1.3 reference codec: random valid UTF-8 to length 300, exhaustive small scope for both encoder and decoder alphabets, structured hostile decoder inputs (surrogates, ASCII in base64, odd halves, back-to-back and unterminated shifts), and every case re-run through the raw streaming Transformer under drawn source/destination buffer sizes. Sampling plus bounded exhaustive enumeration, not proof.",
  "design_ref": "DESIGN.md 3/C16",
  "note": "Trusts the 90-line reference codec and the Go standard library's base64/utf16; non-canonical base64 tail bits are not judged.",
  "technique": "property-based testing (rapid) + exhaustive enumeration, differential against reference codec, chunking metamorphic relation",
 },
 "C20": {
  "text": "Bounded-exhaustive enumeration of names x patterns x delimiters x references over an 8-symbol alphabet (ordinary, both delimiters, both wildcards, two non-ASCII characters) plus random search to length 12, compared with two independent reference matchers. Complete inside the stated bound, sampling beyond it.",
  "design_ref": "DESIGN.md 3/C20",
  "note": "Reference resolution rule (leading delimiter = absolute, reference + delimiter is a literal prefix) is taken from the repository's own TestMatchList table; valid UTF-8 only.",
  "technique": "exhaustive small-scope enumeration + property-based testing (rapid), differential against regexp/DP reference matcher",
 },
 "C19": {
  "text": "Algebraic-law search (And == intersection) over generated criteria pairs on a 240-message universe with an independent matcher, plus exhaustive permutation of the top-level keys of generated SEARCH commands against a real server whose stub session records the parsed criteria. Sampling of the criteria space; complete over permutations of each sampled command.",
  "design_ref": "DESIGN.md 3/C19",
  "note": "Trusts kit/smodel (RFC 9051 6.4.4 matcher, 150 lines) and per-key predicates written in the test; universe is finite; mixed-zone date operands and ModSeq are not generated.",
  "technique": "property-based testing (rapid): algebraic law vs reference matcher; metamorphic permutation invariance through the real server parser",
 },
 "C01": {
  "text": "Generated value trees round-tripped between imapwire.Encoder and the peer side's Decoder under every encoder mode, with exact-consumption and canonicalisation oracles, an independent tokenizer judging the emitted bytes against the mode, refusal checks for unrepresentable values, depth probes around the list cap, and a coverage-guided fuzz run of the same property in the thorough tier. Sampling, not proof.",
  "design_ref": "DESIGN.md 3/C01",
  "note": "Trusts kit/tok (independent framer), the canonical flag/attribute table in kit/gen and the reference UTF-7 length computation; a single-goroutine harness grants or cancels continuation requests before the encoder waits on them.",
  "technique": "property-based testing (rapid) round-trip + independent tokenizer oracle; native go fuzzing via rapid.MakeFuzz (thorough)",
 },
 "C07": {
  "text": "Model-based stateful search: generated histories of tracker mutations, session creation/closure and polls, with the emitted updates captured from a real server connection and every sequence-number translation compared with a reference model of per-client views after every step. Sampling of histories (<=~100 steps), not proof.",
  "design_ref": "DESIGN.md 3/C07",
  "note": "Trusts the id-list view model (kit-free, in the test) and kit/tok for reading updates off the wire; UpdateWriter can only be obtained through a server connection, so Poll is driven by NOOP / FETCH commands.",
  "technique": "stateful property-based testing (rapid t.Repeat) against a reference model of client views",
 },
 "C05": {
  "text": "Model-based search: generated command histories with generated backend outcomes against a real imapserver (plaintext, STARTTLS and implicit TLS over in-memory pipes) whose session is a recording stub, compared step by step with a reference connection state machine; the evidence reports the (state x command) cells reached. Sampling of histories, not proof.",
  "design_ref": "DESIGN.md 3/C05",
  "note": "Trusts the reference state table in harness/c05 (derived from RFC 9051 section 3/6 and RFC 8437), kit/tok for reading responses, and crypto/tls for the transport.",
  "technique": "stateful property-based testing (rapid) against a reference state machine with recording stub backend",
 },
 "C04": {
  "text": "Generated command streams with hostile literal sizes and payloads driven through a real imapserver by a synchronisation-conforming raw client; the server's output is framed by an independent tokenizer and checked against the sent framing, and a recording stub session proves that no payload text was executed. Sampling, not proof.",
  "design_ref": "DESIGN.md 3/C04",
  "note": "Trusts kit/tok and the harness's knowledge of what it sent; a 5 s silence on an in-memory pipe is interpreted as the server waiting for input.",
  "technique": "property-based testing (rapid) with reference framing, canary payloads and recording stub backend",
 },
 "C06": {
  "text": "Fault enumeration plus input search: every byte offset of each generated valid transcript is used as a disconnect point (clean close and reset), generated / mutated / raw inputs are fed under three ways of ending the connection, and a deterministic family of deep-nesting inputs runs in a child process with a capped stack; each connection is judged by clean-up invariants (no panic, goroutines gone, session closed once, literal limits). Exhaustive per transcript, sampling over transcripts and inputs.",
  "design_ref": "DESIGN.md 3/C06",
  "note": "Observes goroutines through runtime.Stack filtered to imapserver frames and the server's end of the in-memory pipe; the 10 s liveness bound is ~10^5 times the normal latency.",
  "technique": "fault enumeration over disconnect offsets + property-based input generation/mutation (rapid) with clean-up invariants; child-process recursion probe",
 },
 "C17": {
  "text": "Generated plaintext injections around the STARTTLS boundary on both sides, with real crypto/tls handshakes over in-memory pipes, controlled write segmentation (exhaustive split points for short suffixes), a recording stub backend on the server side and a scripted peer on the client side. Sampling of suffixes/configurations; complete over split points of three suffixes.",
  "design_ref": "DESIGN.md 3/C17",
  "note": "Trusts crypto/tls, kit/pipe segmentation (the next segment is written only after the server consumed the previous one) and the stub session's call record.",
  "technique": "property-based testing (rapid) + exhaustive split enumeration with recording stub / scripted peer and real TLS",
 },
 "C02": {
  "text": "Differential search between the client API call and the backend call recorded by a stub session behind a real server, over generated argument values for every implemented command and every capability configuration. Sampling, not proof.",
  "design_ref": "DESIGN.md 3/C02",
  "note": "Trusts the recording stub (deep copies of arguments), the semantic normal forms in harness/c02 and the documented canonicalisations; both endpoints are the real library, so a defect symmetric in encoder and decoder is only caught by C01/C04/C18.",
  "technique": "property-based testing (rapid): differential between API call and recorded backend call through real client+server",
 },
 "C03": {
  "text": "Round-trip search through two real endpoints: generated response data written by a stub session through the server's writer API must come back equal (under the documented canonicalisations) from the client's Wait/Collect, for every response kind and with IMAP4rev2 / UTF8=ACCEPT on or off. Sampling, not proof.",
  "design_ref": "DESIGN.md 3/C03",
  "note": "Trusts the canonical renderers in harness/c03; both endpoints are the library itself, so wire-format legality is judged elsewhere (C01/C18).",
  "technique": "property-based testing (rapid): round-trip of generated response plans through real server writers and real client",
 },
 "C18": {
  "text": "Generated client calls with hostile strings against a scripted server that owns the capability set and the timing/decision of every continuation request; the client's byte stream is judged by an independent framer/tokenizer against the advertised capabilities. Sampling, not proof; the schedule dimension is limited to 'answer immediately' vs 'answer after observed silence'.",
  "design_ref": "DESIGN.md 3/C18",
  "note": "Trusts kit/script framing and kit/tok; timing of '+' relative to client writes is sampled at two points only.",
  "technique": "property-based testing (rapid) with scripted peer and independent tokenizer oracle",
 },
 "C12": {
  "text": "Model-based search: generated conformant server transcripts (pipelining, permuted answers, all outcome assignments, interleaved unilateral data, literal refusal) interpreted by a reference model and compared with what each command's Wait returns and with Client.State()/Mailbox(). Sampling, not proof.",
  "design_ref": "DESIGN.md 3/C12",
  "note": "Trusts the reference interpreter in harness/c12 and kit/script framing; state is observed right after Wait returns and after a NOOP barrier.",
  "technique": "stateful property-based testing (rapid) against a reference interpreter of generated server transcripts",
 },
 "C11": {
  "text": "Generated, mutated and raw server byte streams against a client with a full battery of pending commands, with every accessor invoked on every delivered value; protocol-invariant checks on delivered data; child-process recursion probes and allocation-scaling probes; coverage-guided fuzzing of the same target in the thorough tier. Sampling, not proof.",
  "design_ref": "DESIGN.md 3/C11",
  "note": "A process-killing panic in a library goroutine is attributed through the in-flight case file written before each case; resource bounds are coarse envelopes.",
  "technique": "property-based testing (rapid) + mutation + native go fuzzing, with invariant oracle over delivered values; child-process probes",
 },
 "C10": {
  "text": "Fault enumeration: for each recorded transcript of a corpus of client programs, every byte offset of the server stream is used as the fault point for four fault kinds, and termination / error reporting / goroutine clean-up are checked. Exhaustive per transcript; the corpus itself is fixed (9 programs, larger literals in the thorough tier).",
  "design_ref": "DESIGN.md 3/C10",
  "note": "Liveness is judged with a 6 s bound on operations that take microseconds (in-memory I/O, virtual deadlines), with the goroutine dump in the report; replay assumes the client's writes up to the fault are deterministic for a sequential program.",
  "technique": "fault injection enumeration over every byte offset of recorded transcripts (EOF / read error / write error / stall)",
 },
}
