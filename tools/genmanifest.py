#!/usr/bin/env python3
"""Regenerates MANIFEST.json from driver/plan.py + tools/manifest_meta.py."""
import json, os, sys
V = os.path.dirname(os.path.dirname(os.path.abspath(__file__)))
sys.path.insert(0, os.path.join(V, "driver")); sys.path.insert(0, os.path.join(V, "tools"))
import plan, manifest_meta as mm
props = [json.loads(l)["id"] for l in open(os.path.join(V, "properties.jsonl"))]
checks, na = [], []
for pid in props:
    if pid in plan.PROPS and pid in mm.META:
        m = mm.META[pid]
        checks.append({
            "property_id": pid,
            "quick_cmd": "./check %s --tier quick" % pid,
            "thorough_cmd": "./check %s --tier thorough" % pid,
            "evidence_file": "evidence/%s.json" % pid,
            "replay_cmd_template": "./check %s --replay {path}" % pid,
            "engine": "rapid-harness",
            "level_claimed": {"category": plan.PROPS[pid].get("level", "exploration"), "text": m["text"], "design_ref": m["design_ref"]},
            "level_note": m["note"],
            "technique": m["technique"],
        })
    else:
        na.append({"property_id": pid, "reason": mm.NA.get(pid, "check not built yet in this round; planned in DESIGN.md section 3")})
man = {
    "version": 1,
    "setup_cmd": "./setup.sh",
    "hooks": {
        "guard": "verif",
        "enable": "no source hooks: the harness module github.com/emersion/go-imap/v2/verifh replaces go-imap with /repo and imports its internal packages through the shared module-path prefix; C14 lock instrumentation is generated from the working tree at check time and injected with go test -overlay",
        "baseline_off_cmd": "cd /repo && go test -vet=off -count=1 ./...",
        "source_commits": [],
        "add_only": True,
    },
    "engines": [{"name": "rapid-harness", "path": "harness/", "serves_properties": [c["property_id"] for c in checks],
                 "kind_free_text": "pgregory.net/rapid v1.3.0 properties and state machines, exhaustive small-scope enumerations, fault enumeration, native go fuzz targets (thorough), driven by driver/run.py"}],
    "checks": checks,
    "notes": "Exit codes: 0 held, 1 VIOLATION (with replay path), 2 inconclusive (harness build failure / timeout / worker death). Known findings: KNOWN_FINDINGS.jsonl.",
    "not_applicable": na,
}
json.dump(man, open(os.path.join(V, "MANIFEST.json"), "w"), indent=1)
print("claimed:", [c["property_id"] for c in checks])
