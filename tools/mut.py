#!/usr/bin/env python3
"""Sensitivity aid: apply one textual mutation to /repo, confirm it still builds and
passes the pinned suite, run ./check <id> (quick or thorough), then ALWAYS revert.
usage: mut.py <Cxx> <file> <old> <new> [--tier thorough] [--notests] [--only regex]"""
import subprocess, sys, os
pid, path, old, new = sys.argv[1:5]
rest = sys.argv[5:]
tier = "thorough" if "--thorough" in rest else "quick"
only = rest[rest.index("--only") + 1] if "--only" in rest else None
full = os.path.join("/repo", path)
src = open(full).read()
if src.count(old) < 1:
    print("MUT: pattern not found"); sys.exit(3)
open(full, "w").write(src.replace(old, new, 1))
env = dict(os.environ, GOFLAGS="-mod=mod", GOPROXY="off", GOSUMDB="off", GOTOOLCHAIN="local")
try:
    b = subprocess.run("go build ./... ", shell=True, cwd="/repo", env=env, capture_output=True, text=True)
    if b.returncode != 0:
        print("MUT: does not build\n", b.stderr[-2000:]); sys.exit(3)
    if "--notests" not in rest:
        t = subprocess.run("go test -count=1 ./...", shell=True, cwd="/repo", env=env, capture_output=True, text=True)
        print("MUT: suite", "passes" if t.returncode == 0 else "FAILS (mutant would be caught by existing tests)")
    cmd = ["/verif/check", pid, "--tier", tier] + (["--only", only] if only else [])
    c = subprocess.run(cmd, capture_output=True, text=True, env=env)
    lines = [l for l in c.stdout.splitlines() if l.startswith(("VIOLATION", "OK ", "INCONCLUSIVE", "KNOWN"))]
    print("MUT: check exit", c.returncode, "|", " ; ".join(l[:110] for l in lines if not l.startswith("KNOWN"))[:260])
    if "--show" in rest:
        print(c.stdout[-3000:])
finally:
    open(full, "w").write(src)
    subprocess.run("git -C /repo status --short", shell=True)
