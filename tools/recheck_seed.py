#!/usr/bin/env python3
"""Re-run our checks against already filed seeded changes (apply to /repo, check, ALWAYS revert)
and refresh check_results in seeded/<id>/meta.json.
usage: recheck_seed.py [--all | <seed-id>...] [--thorough-if-missed]"""
import glob, json, os, subprocess, sys
env = dict(os.environ, GOFLAGS="-mod=mod", GOPROXY="off", GOSUMDB="off", GOTOOLCHAIN="local")
args = [a for a in sys.argv[1:] if not a.startswith("--")]
if "--all" in sys.argv:
    args = sorted(os.path.basename(os.path.dirname(p)) for p in glob.glob("/verif/seeded/*/meta.json"))
def sh(cmd, cwd, timeout=7200):
    p = subprocess.run(cmd, shell=True, cwd=cwd, env=env, capture_output=True, text=True, timeout=timeout)
    return p.returncode, p.stdout + p.stderr
summary = {}
for sid in args:
    d = f"/verif/seeded/{sid}"
    meta = json.load(open(f"{d}/meta.json"))
    props = list(meta.get("check_results", {}).keys()) or [meta["property"]]
    primary = meta["property"]
    assert subprocess.run("git -C /repo status --porcelain", shell=True, capture_output=True, text=True).stdout.strip() == "", "/repo not clean"
    checks = {}
    try:
        rc, out = sh(f"git apply {d}/patch.diff || git apply -3 {d}/patch.diff", "/repo")
        if rc != 0:
            # the seed was written against an earlier commit and a later fix: commit touched the same lines
            subprocess.run("git -C /repo reset -q --hard HEAD && git -C /repo clean -fdq", shell=True)
            meta["stale"] = "patch no longer applies to /repo HEAD (conflicts with a later fix: commit); check_results are those taken at its base commit"
            json.dump(meta, open(f"{d}/meta.json", "w"), indent=1)
            print(sid, "STALE (does not apply)", flush=True)
            continue
        for p in props:
            if p != primary and "--all-props" not in sys.argv:
                checks[p] = meta["check_results"][p]; continue
            rc, out = sh(f"/verif/check {p} --tier quick", "/verif")
            first = [l for l in out.splitlines() if l.startswith(("VIOLATION", "OK ", "INCONCLUSIVE"))][:1]
            checks[p] = {"quick_exit": rc, "quick": first[0] if first else ""}
            if rc != 1 and p == primary and meta.get("demo_dir") is not None and meta.get("demo_cmd"):
                # does the change still break the property on this HEAD? (a later fix: commit
                # may have neutralised it): the seed's own demonstration decides
                sh(f"cp {d}/*_test.go /repo/{meta['demo_dir']}/", "/repo")
                drc, dout = sh(meta["demo_cmd"], "/repo", timeout=900)
                if drc == 0:
                    meta["neutralised"] = "on /repo HEAD the seed's own demonstration passes with the change applied: a later fix: commit made the change harmless; check_results before that are in git history"
                    checks[p]["demo_with_change"] = "passes (change neutralised on HEAD)"
                else:
                    meta.pop("neutralised", None)
                    checks[p]["demo_with_change"] = "fails (change still breaks the property)"
            if rc != 1 and "--thorough-if-missed" in sys.argv:
                rc, out = sh(f"/verif/check {p} --tier thorough", "/verif")
                first = [l for l in out.splitlines() if l.startswith(("VIOLATION", "OK ", "INCONCLUSIVE"))][:1]
                checks[p]["thorough_exit"] = rc; checks[p]["thorough"] = first[0] if first else ""
    finally:
        subprocess.run("git -C /repo reset -q --hard HEAD && git -C /repo clean -fdq", shell=True)
    meta["check_results"] = checks
    json.dump(meta, open(f"{d}/meta.json", "w"), indent=1)
    subprocess.run(f"rm -rf /verif/replays/{primary}", shell=True)
    summary[sid] = {p: (c.get("quick_exit"), c.get("thorough_exit")) for p, c in checks.items()}
    print(sid, summary[sid], flush=True)
