#!/usr/bin/env python3
"""Confirm a sub-agent's seeded change (compiles, suite passes, demo fails with / passes without),
run our checks against it in /repo (apply, check, ALWAYS revert), and file it under /verif/seeded/.
usage: seedeval.py <Cxx> <n> [--props C01,C02] [--nothorough] [--as m]"""
import json, os, shutil, subprocess, sys, glob
pid, n = sys.argv[1], sys.argv[2]
props = [pid]
if "--props" in sys.argv:
    props = sys.argv[sys.argv.index("--props") + 1].split(",")
src = f"/tmp/seed/{pid}/out/{n}"
wt = f"/tmp/seed/{pid}/wt"
env = dict(os.environ, GOFLAGS="-mod=mod", GOPROXY="off", GOSUMDB="off", GOTOOLCHAIN="local")
def sh(cmd, cwd, timeout=1800):
    p = subprocess.run(cmd, shell=True, cwd=cwd, env=env, capture_output=True, text=True, timeout=timeout)
    return p.returncode, (p.stdout + p.stderr)
meta = json.load(open(f"{src}/meta.json"))
patch = f"{src}/patch.diff"
demos = [f for f in glob.glob(f"{src}/*") if f.endswith(".go")]
res = {}
sh("git checkout -- . && git clean -fdq", wt)
rc, out = sh(f"git apply {patch}", wt); assert rc == 0, out
rc, out = sh("go build ./...", wt); res["builds"] = rc == 0
rc, out = sh("go test -count=1 ./...", wt); res["suite_passes_with_change"] = rc == 0
demo_dir = os.path.join(wt, meta["demo_dir"].strip("./") if meta["demo_dir"] not in (".", "", "/") else "")
for d in demos: shutil.copy(d, demo_dir)
rc, out = sh(meta["demo_cmd"], wt); res["demo_fails_with_change"] = rc != 0
sh("git checkout -- .", wt)
rc, out2 = sh(meta["demo_cmd"], wt); res["demo_passes_without_change"] = rc == 0
sh("git checkout -- . && git clean -fdq", wt)
print("confirm:", res)
confirmed = all(res.values())
checks = {}
if confirmed:
    inwt = "--wt" in sys.argv  # development: run the checks against the scratch worktree (VERIF_REPO) so several evaluations can run in parallel
    target = wt if inwt else "/repo"
    cenv = "VERIF_REPO=%s " % wt if inwt else ""
    if not inwt:
        assert subprocess.run("git -C /repo status --porcelain", shell=True, capture_output=True, text=True).stdout.strip() == "", "/repo not clean"
    try:
        rc, out = sh(f"git apply {patch}", target); assert rc == 0, out
        for p in props:
            rc, out = sh(f"{cenv}/verif/check {p} --tier quick", "/verif")
            first = [l for l in out.splitlines() if l.startswith(("VIOLATION", "OK ", "INCONCLUSIVE"))][:1]
            checks[p] = {"quick_exit": rc, "quick": first[0] if first else ""}
            if rc == 0 and "--nothorough" not in sys.argv:
                rc, out = sh(f"{cenv}/verif/check {p} --tier thorough", "/verif", timeout=7200)
                first = [l for l in out.splitlines() if l.startswith(("VIOLATION", "OK ", "INCONCLUSIVE"))][:1]
                checks[p]["thorough_exit"] = rc; checks[p]["thorough"] = first[0] if first else ""
    finally:
        subprocess.run(f"git -C {target} checkout -- . && git -C {target} clean -fdq", shell=True)
    print("checks:", json.dumps(checks, indent=1))
dst = f"/verif/seeded/{pid}-{sys.argv[sys.argv.index('--as') + 1] if '--as' in sys.argv else n}"
os.makedirs(dst, exist_ok=True)
shutil.copy(patch, dst)
for d in demos: shutil.copy(d, dst)
meta["confirmation"] = res
meta["confirmed"] = confirmed
meta["ran"] = "tools/seedeval.py: git apply in a scratch worktree; go build ./...; go test -count=1 ./...; demo with and without the change; then git -C /repo apply, ./check <id> --tier quick (thorough if quick missed), git -C /repo checkout -- ."
meta["check_results"] = checks
json.dump(meta, open(f"{dst}/meta.json", "w"), indent=1)
if "--keepreplays" not in sys.argv:
    subprocess.run(f"rm -rf /verif/replays/{pid}", shell=True)
print("filed", dst, "caught=", {p: (c.get("quick_exit") == 1 or c.get("thorough_exit") == 1) for p, c in checks.items()})
