#!/usr/bin/env python3
import json, sys
pid = sys.argv[1]
# optional: first number and count of the changes to produce (round 2: 3 3 -> changes 3,4,5)
first = int(sys.argv[2]) if len(sys.argv) > 2 else 1
count = int(sys.argv[3]) if len(sys.argv) > 3 else 2
nums = ','.join(str(first + i) for i in range(count))
word = {2: 'TWO', 3: 'THREE', 4: 'FOUR'}[count]
for l in open('/verif/properties.jsonl'):
    p = json.loads(l)
    if p['id'] == pid:
        break
extra = "" if first == 1 else "3b. Variety: make at least one of the changes depend on TWO cooperating sites (each edit looks harmless alone), and at least one depend on a deep multi-step sequence, a rare boundary value, a particular fault point or a particular interleaving. Avoid the most obvious single-line inversions (flipping one comparison in the most central function): pick less-travelled code paths that still matter to the property.\n  "
print(f"""You are helping evaluate a verification framework for the Go library emersion/go-imap (v2). Your job: write realistic BUGGY CHANGES to the library that break ONE stated property, so that we can later see whether independent checks catch them.

Work ONLY inside your private scratch git worktree of the library: /tmp/seed/{pid}/wt  (a `git worktree` of the library at its current HEAD). Put deliverables under /tmp/seed/{pid}/out/. Do NOT read or write anything under /verif or /repo (other than through your worktree), and do not look for existing verification harnesses: your changes must be independent of them.

Shell environment for every go command (no network is available):
  export GOFLAGS=-mod=mod GOPROXY=off GOSUMDB=off GOTOOLCHAIN=local
After running go commands run `git -C /tmp/seed/{pid}/wt status --short` and make sure go.mod/go.sum were not modified (restore them with git checkout if they were). NEVER use `git stash` (the stash is shared with other worktrees of the same repository that other people are using right now): keep alternative edits with `git diff > file` and `git apply [-R] file` instead.

THE PROPERTY ({pid}: {p['title']})
Statement: {p['statement']}
Quantified over: {p['quantifier']['text']}
Code it is anchored in: {', '.join(p['anchors']['files'])}

TASK
Produce {word} different, independent changes (different root causes, ideally in different functions/files) to non-test source files of the library, each of which:
  1. breaks the property above (a real semantic violation of the statement, not just a style change);
  2. still compiles (`go build ./...`) and still passes the whole existing test suite (`go test -count=1 ./...`) -- verify this;
  3. needs something SPECIFIC to manifest -- e.g. an unusual input or boundary value, a particular multi-step sequence of operations, a particular interleaving, a fault at a particular point, or two cooperating sites that each look fine alone. Do NOT make changes that ordinary use would expose immediately (e.g. breaking every call). Think of the kind of subtle regression a real refactoring or "optimisation" could introduce. Keep each change small (a few lines) and plausible-looking.
  {extra}4. comes with a demonstration: a Go test file (package-external `_test` package or internal, your choice) that FAILS with the change applied and PASSES on the unchanged worktree. State in which directory of the library the test file must be placed and the exact `go test -run ...` command. Verify both directions yourself.

DELIVERABLES for change n in {{{nums}}}, in /tmp/seed/{pid}/out/<n>/ :
  - patch.diff : output of `git diff` in the worktree with only that change applied (must apply with `git apply` on a clean checkout of HEAD)
  - the demonstration test file (e.g. demo_test.go) 
  - meta.json : {{"property": "{pid}", "summary": "...what was changed...", "breaks": "...which part of the statement and how...", "needs_to_manifest": "...the specific input/sequence/schedule needed...", "demo_dir": "<library subdir where the demo file goes>", "demo_cmd": "<go test command>", "verified": "what you ran and observed (with and without the change)"}}

When finished, restore the worktree to a clean state (`git -C /tmp/seed/{pid}/wt checkout -- . && git -C /tmp/seed/{pid}/wt clean -fd`) so that only the out/ directory holds your results. Your final message: a short summary of the changes (or why you could produce fewer).""")
