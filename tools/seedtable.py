#!/usr/bin/env python3
"""Markdown table of all seeded changes and which check tier catches them (from seeded/*/meta.json)."""
import glob, json, re
rows = []
for f in sorted(glob.glob('/verif/seeded/*/meta.json'), key=lambda p: (p.split('/')[-2].split('-')[0], int(p.split('/')[-2].split('-')[1]))):
    sid = f.split('/')[-2]
    m = json.load(open(f))
    summ = re.sub(r'\s+', ' ', m.get('summary', ''))[:150].replace('|', '/')
    res = []
    for p, c in m.get('check_results', {}).items():
        if c.get('quick_exit') == 1:
            res.append(f"{p} quick")
        elif c.get('thorough_exit') == 1:
            res.append(f"{p} thorough")
        else:
            res.append(f"{p} –")
    if m.get('neutralised'):
        res.append("(harmless on HEAD since a later fix: commit — its own demonstration passes)")
    if m.get('stale'):
        res.append("(patch conflicts with a later fix: commit; result taken at its base)")
    rows.append(f"| {sid} | {summ} | {', '.join(res)} |")
print("| seed | change (abridged) | caught by |\n|---|---|---|")
print("\n".join(rows))
