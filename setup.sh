#!/bin/bash
# Offline setup: verify toolchain + module cache, warm the build cache. Fetches nothing.
set -e
cd "$(dirname "$0")"
export GOFLAGS=-mod=mod GOPROXY=off GOSUMDB=off GOTOOLCHAIN=local
go version
cat /repo/go.sum harness/go.sum 2>/dev/null | sort -u > harness/go.sum.tmp && mv harness/go.sum.tmp harness/go.sum
(cd harness && go vet ./kit/... >/dev/null 2>&1 || true; go build ./... && go test -vet=off -count=1 -run '^$' ./... >/dev/null)
(cd harness && go test -vet=off -race -count=1 -run '^$' ./kit/... >/dev/null 2>&1 || true)
echo setup ok
