"""Per-property run plans. A unit is one test function of harness/<pkg>:

 kind "plain"  : TestReplay*/TestKnown*/TestEnum* - run once per shard (VERIF_SHARD/VERIF_NSHARD)
 kind "rapid"  : TestProp*  - (cases, shards) per tier; seeds derived from VERIF_SEED
 kind "fuzz"   : Fuzz*      - native coverage-guided fuzzing, thorough tier only
"""

PREBUILD = {}


def plain(pkg, run, shards_q=1, shards_t=1, **kw):
    d = {"pkg": pkg, "run": run, "kind": "plain", "quick": (0, shards_q), "thorough": (0, shards_t)}
    d.update(kw)
    return d


def rapid(pkg, run, quick, thorough, **kw):
    d = {"pkg": pkg, "run": run, "kind": "rapid", "quick": quick, "thorough": thorough}
    d.update(kw)
    return d


def fuzz(pkg, run, secs, **kw):
    d = {"pkg": pkg, "run": run, "kind": "fuzz", "secs": secs}
    d.update(kw)
    return d


PROPS = {
    "C15": {
        "level": "exploration",
        "rule": "rapid histories of AddNum/AddRange/AddSet (endpoints: small pool, neighbours of used values, 2^32-2, 2^32-1, 0='*', "
                "any uint32) run on imapnum.Set, imap.SeqSet and imap.UIDSet and compared after every step with an interval-union "
                "reference model (exact canonical slice, Contains on every pool/neighbour probe, Dynamic, String, ParseSet(String), "
                "Nums); generated valid / mutated / random sequence-set text compared with an independent regexp parser; exhaustive "
                "small scope; child-process enumeration probe at 2^32-1. Non-trivial: history of >=3 insertions with a merge of "
                "existing ranges, or any value >= 2^32-2, or '*'; for text: any invalid text or valid text with ',' or ':'; "
                "distinct by hash of the rendered history/text.",
        "assumptions": ["sets derived by mutating the SearchRes() marker are outside the domain",
                        "Nums() on static ranges ending at 2^32-1 is only executed in the child-process probe (3 GiB / 30 s limits)"],
        "units": [
            plain("c15", "TestReplayRegressions"),
            plain("c15", "TestReplayNumsBoundary"),
            plain("c15", "TestEnumSmallScope", shards_q=2, shards_t=12),
            rapid("c15", "TestPropSetOps", quick=(25000, 4), thorough=(300000, 10)),
            rapid("c15", "TestPropParse", quick=(60000, 2), thorough=(600000, 4)),
        ],
    },
}
