"""Per-property run plans. A unit is one test function of harness/<pkg>:

 kind "plain"  : TestReplay*/TestKnown*/TestEnum* - run once per shard (VERIF_SHARD/VERIF_NSHARD)
 kind "rapid"  : TestProp*  - (cases, shards) per tier; seeds derived from VERIF_SEED
 kind "fuzz"   : Fuzz*      - native coverage-guided fuzzing, thorough tier only
"""

import json as _json
import os as _os
import re as _re

PREBUILD = {}

_HARNESS = _os.path.join(_os.path.dirname(_os.path.dirname(_os.path.abspath(__file__))), "harness")


def prebuild_lockmon(tmp, env):
    """C14 lock monitor: build an overlay view of the CURRENT /repo tree in which every sync.Mutex /
    sync.RWMutex of imapserver/** is a monitored one (harness/_lockmon injected as internal/lockmon).
    Line numbers are preserved (the import is added on the package-clause line). Nothing is written to /repo."""
    repo = _os.environ.get("VERIF_REPO") or "/repo"
    ov = _os.path.join(tmp, "lockmon-overlay")
    _os.makedirs(ov, exist_ok=True)
    repl = {repo + "/internal/lockmon/lockmon.go": _os.path.join(_HARNESS, "_lockmon", "lockmon.go")}
    n = 0
    for root, _dirs, files in _os.walk(repo + "/imapserver"):
        for f in sorted(files):
            if not f.endswith(".go") or f.endswith("_test.go"):
                continue
            path = _os.path.join(root, f)
            src = open(path, encoding="utf-8").read()
            if "sync.Mutex" not in src and "sync.RWMutex" not in src:
                continue
            new = src.replace("sync.RWMutex", "lockmon.RWMutex").replace("sync.Mutex", "lockmon.Mutex")
            new, k = _re.subn(r"(?m)^package[ \t]+(\w+)", lambda m: m.group(0) + '; import lockmon "github.com/emersion/go-imap/v2/internal/lockmon"', new, count=1)
            if k != 1:
                continue
            if _re.search(r'(?m)^\s*(import\s+)?"sync"\s*$', new):
                new += "\nvar _ sync.Locker\n"
            n += 1
            out = _os.path.join(ov, "%d_%s" % (n, f))
            with open(out, "w", encoding="utf-8") as fh:
                fh.write(new)
            repl[path] = out
    ovj = _os.path.join(tmp, "lockmon-overlay.json")
    with open(ovj, "w") as fh:
        _json.dump({"Replace": repl}, fh)
    return ["-overlay", ovj, "-tags", "lockmon"]


PREBUILD["lockmon"] = prebuild_lockmon


def plain(pkg, run, shards_q=1, shards_t=1, **kw):
    d = {"pkg": pkg, "run": run, "kind": "plain", "quick": (0, shards_q), "thorough": (0, shards_t)}
    d.update(kw)
    return d


def rapid(pkg, run, quick, thorough, **kw):
    d = {"pkg": pkg, "run": run, "kind": "rapid", "quick": quick, "thorough": thorough}
    d.update(kw)
    return d


def fuzz(pkg, run, secs, **kw):
    d = {"pkg": pkg, "run": run, "kind": "fuzz", "secs": secs}
    d.update(kw)
    return d


PROPS = {
    "C15": {
        "level": "exploration",
        "rule": "rapid histories of AddNum/AddRange/AddSet (endpoints: small pool, neighbours of used values, 2^32-2, 2^32-1, 0='*', "
                "any uint32) run on imapnum.Set, imap.SeqSet and imap.UIDSet and compared after every step with an interval-union "
                "reference model (exact canonical slice, Contains on every pool/neighbour probe, Dynamic, String, ParseSet(String), "
                "Nums); generated valid / mutated / random sequence-set text compared with an independent regexp parser; exhaustive "
                "small scope; child-process enumeration probe at 2^32-1. Non-trivial: history of >=3 insertions with a merge of "
                "existing ranges, or any value >= 2^32-2, or '*'; for text: any invalid text or valid text with ',' or ':'; "
                "distinct by hash of the rendered history/text.",
        "assumptions": ["sets derived by mutating the SearchRes() marker are outside the domain",
                        "Nums() on static ranges ending at 2^32-1 is only executed in the child-process probe (3 GiB / 30 s limits)"],
        "units": [
            plain("c15", "TestReplayRegressions"),
            plain("c15", "TestReplayNumsBoundary"),
            plain("c15", "TestEnumSmallScope", shards_q=2, shards_t=12),
            rapid("c15", "TestPropSetOps", quick=(25000, 4), thorough=(300000, 10)),
            rapid("c15", "TestPropParse", quick=(60000, 2), thorough=(600000, 4)),
        ],
    },
    "C16": {
        "level": "exploration",
        "rule": "valid UTF-8 strings over an alphabet of printable ASCII, '&', '-', '+', ',', '/', controls, 2/3/4-byte code points, "
                "U+FFFD and UTF-8 length boundaries (random to length 300; exhaustive to length 3 quick / 5 thorough over 14 symbols) "
                "encoded and compared with an independent RFC 3501 5.1.3 reference codec and round-tripped; decoder inputs (exhaustive "
                "over a 12-symbol shift/base64 alphabet to length 5 quick / 7 thorough, random bytes, mutated valid encodings) compared "
                "differentially with the reference decoder (accept iff reference accepts, equal output, valid UTF-8, no panic); every "
                "case additionally driven through the raw Transformer with drawn source-window and destination-buffer sizes 1..8 and "
                "4096 by a conforming driver and required to equal the one-shot result. Non-trivial: encoded string with >=1 shifted "
                "run and >=1 of {'&', control, 4-byte code point}; decoder input containing '&'. Distinct by hash of the input.",
        "assumptions": ["non-canonical base64 tail bits are not required to be rejected (not listed by the property)",
                        "the reference codec shares encoding/base64 and unicode/utf16 from the Go standard library"],
        "units": [
            plain("c16", "TestReplayRegressions"),
            plain("c16", "TestEnumEncode", shards_q=2, shards_t=14),
            plain("c16", "TestEnumDecode", shards_q=4, shards_t=12),
            rapid("c16", "TestPropRoundTrip", quick=(30000, 3), thorough=(400000, 8)),
            rapid("c16", "TestPropDecode", quick=(40000, 3), thorough=(500000, 8)),
            rapid("c16", "TestPropServerEntryPoints", quick=(3000, 2), thorough=(60000, 4)),
            rapid("c16", "TestPropConcurrentCodec", quick=(60, 2), thorough=(1500, 6)),
            fuzz("c16", "FuzzUTF7", secs=90),
        ],
    },
    "C20": {
        "level": "exploration",
        "rule": "(name, delimiter, reference, pattern) over the alphabet {a,b,/,.,*,%,e-acute,CJK}: exhaustive for names x patterns of <=3 "
                "(quick) / <=4 (thorough) symbols x delimiters {'/','.',none,non-ASCII} with the empty reference and one symbol shorter x 6 "
                "references; random to length 12 with names derived from the pattern so matches are frequent. Oracle: reference "
                "resolution as fixed by TestMatchList + rune-wise DP matcher, cross-checked against an anchored regexp. Non-trivial: "
                "pattern has a wildcard and the name contains the delimiter; distinct by hash of the 4-tuple. Additionally LIST "
                "commands with generated reference/pattern are sent over a raw connection to a real imapserver + imapmemserver holding "
                "generated mailboxes, and the returned name set must equal the reference matcher's selection.",
        "assumptions": ["names, references and patterns are valid UTF-8", "call time is recorded (exponential backtracking) but not judged"],
        "units": [
            plain("c20", "TestReplayRegressions"),
            plain("c20", "TestEnumSmallScope", shards_q=4, shards_t=16),
            rapid("c20", "TestPropRandom", quick=(60000, 3), thorough=(1000000, 12)),
            rapid("c20", "TestPropListBackend", quick=(1500, 2), thorough=(30000, 4)),
        ],
    },
    "C19": {
        "level": "exploration",
        "rule": "Part 1: pairs (a,b) of SearchCriteria drawn over every field (seq/UID sets, four date bounds with arbitrary clock in one "
                "location per case, headers, body, text, flags, not-flags, size bounds incl. unset, NOT and OR sub-trees to depth 2); the "
                "criteria a.And(b) must match a message iff a and b both match it, for each of 240 messages of a deterministic universe "
                "that varies every field independently, judged by an independent RFC 9051 6.4.4 matcher. Part 2: SEARCH commands of 1..5 "
                "top-level keys (all key kinds incl. NEW/OLD/ON/SENTON/NOT/OR/parenthesised lists) sent in EVERY permutation to a real "
                "imapserver with a recording stub session; the recorded criteria must select exactly the intersection of per-key "
                "predicates. Part 3: the same permutation/intersection oracle end to end through the server parser and the in-memory "
                "backend's matcher on a mailbox of 40 real messages with known attributes. Non-trivial: both operands constrain the universe and some field is set on one side only (part 1); >=2 keys "
                "that exclude at least one message (part 2). Distinct by hash of the rendered criteria / key list.",
        "assumptions": ["ModSeq is outside the quantifier (CONDSTORE not implemented by the server)",
                        "both operands of And use one time.Location (the type documents only the calendar date as meaningful)",
                        "Larger/Smaller value 0 means unset (API convention)"],
        "units": [
            plain("c19", "TestReplayRegressions"),
            plain("c19", "TestReplayPermutations"),
            rapid("c19", "TestPropAndLaw", quick=(12000, 4), thorough=(150000, 10)),
            rapid("c19", "TestPropAndChains", quick=(6000, 2), thorough=(80000, 4)),
            rapid("c19", "TestPropSearchPermutations", quick=(1200, 4), thorough=(20000, 6)),
            plain("c19", "TestReplayBackend"),
            rapid("c19", "TestPropSearchBackend", quick=(1200, 3), thorough=(20000, 6)),
        ],
    },
    "C01": {
        "level": "exploration",
        "rule": "a line of 1..5 generated values (String with byte classes empty/atom/specials/CRLF/NUL/UTF-8/invalid UTF-8/lengths 4095,4096,"
                "4097,8193; explicit Quoted; Atom; Mailbox incl. INBOX casings, '&', controls, long names; Flag; MailboxAttr; Number; Number64; "
                "ModSeq; Seq/UID sets incl. '*' and '$'; NIL; nested lists to depth 3; server literals) is encoded by an imapwire.Encoder "
                "of one side under a drawn mode (QuotedUTF8 x LiteralMinus x LiteralPlus x continuation granted/cancelled/absent) and "
                "decoded by the peer side's Decoder through the matching Expect* calls (4 string entry points); decoded == expected under "
                "an independent canonicalisation table, Err()==nil, 0 unread bytes; the emitted bytes are framed by kit/tok and judged "
                "against the mode (no CR/LF/NUL in quoted, 8-bit only with UTF-8 quoting, {n+} only with LITERAL+ or LITERAL- and n<=4096, "
                "exact literal counts). Unrepresentable values (empty sets, malformed flags/attributes, negative Number64, sync literal "
                "without continuation) must yield an error and no complete line. Non-trivial: the line contains a string that is not "
                "plain alphanumeric, or a list / set / flag / attribute; distinct by hash of (mode, values).",
        "assumptions": ["explicit Encoder.Quoted is only given strings that are legal in a quoted string under the mode (it is the non-validating entry point)",
                        "non-ASCII flags are only required to round-trip when accepted"],
        "units": [
            plain("c01", "TestReplayRegressions"),
            plain("c01", "TestReplayDepth"),
            plain("c01", "TestReplayAnyFlag"),
            rapid("c01", "TestPropRoundTrip", quick=(15000, 6), thorough=(150000, 12)),
            rapid("c01", "TestPropRefusal", quick=(3000, 1), thorough=(30000, 2)),
            rapid("c01", "TestPropRefusalTail", quick=(3000, 1), thorough=(30000, 2)),
            rapid("c01", "TestPropAnyFlag", quick=(20000, 2), thorough=(200000, 6)),
            rapid("c01", "TestPropForeignForms", quick=(15000, 3), thorough=(150000, 4)),
            rapid("c01", "TestPropLongStream", quick=(150, 2), thorough=(3000, 8)),
            fuzz("c01", "FuzzRoundTrip", secs=150),
        ],
    },
    "C07": {
        "level": "exploration",
        "rule": "rapid state machine on the public MailboxTracker/SessionTracker API: QueueNumMessages(+k, k from {1,1,1,2,3,10}), "
                "QueueExpunge, QueueMessageFlags (with/without source and UID), QueueMailboxFlags, NewSession, Close, Poll(allowExpunge "
                "true/false) on 1..4 sessions, mailbox size 0..40. Polls run through a real server connection whose stub session "
                "delegates Poll to the tracker (NOOP = expunges allowed, non-UID FETCH = withheld); emitted updates are read off the wire "
                "with kit/tok and applied to a reference model of each client's view (lists of unique ids). After every step and for "
                "every session and number: DecodeSeqNum/EncodeSeqNum equal the model's positions, are mutually inverse when non-zero, 0 "
                "iff absent on the other side. Non-trivial: a session has >=1 pending expunge and >=1 pending append when queried; "
                "distinct by hash of the full history.",
        "assumptions": ["client sequence numbers beyond the client's own view are only judged when nothing is pending for that session",
                        "merging of consecutive EXISTS updates would be tolerated (the code's own TODO); other reorderings are violations"],
        "units": [
            plain("c07", "TestReplayRegressions"),
            rapid("c07", "TestPropTracker", quick=(2500, 8), thorough=(30000, 12), steps=40),
        ],
    },
    "C05": {
        "level": "exploration",
        "rule": "command histories of <=25 steps over a 40-shape alphabet (every command in UID and non-UID form, unknown commands, "
                "STARTTLS with a real handshake, AUTHENTICATE with and without initial response, IDLE..DONE, APPEND with literal), each step "
                "with a drawn backend outcome (OK / NO / BAD / plain Go error) for every session method it may reach, under drawn "
                "configurations {implicit TLS, plaintext(+STARTTLS offered or not)} x InsecureAuth x greeting {OK, PREAUTH} x optional "
                "session interfaces {Move, Namespace, Unauthenticate, SASL}; compared step by step with a reference RFC 9051 state "
                "machine: exact sequence of backend methods reached, OK iff permitted and all backend calls succeeded, BYE/close on "
                "LOGOUT and on unknown command before authentication, capability lists (AUTH= xor LOGINDISABLED, STARTTLS, IDLE) as a "
                "fingerprint of the state. Non-trivial: history with >=1 command issued where it is forbidden and >=1 state change; "
                "distinct by hash of (configuration, history).",
        "assumptions": ["non-OK completions are only required to be NO or BAD (the statement does not fix which)",
                        "CHECK is treated as NOOP by the server in every state and reaches no backend method"],
        "units": [
            plain("c05", "TestReplayScenarios"),
            plain("c05", "TestReplayStartTLSPipelining"),
            plain("c05", "TestReplaySlowIdle"),
            rapid("c05", "TestPropStateMachine", quick=(900, 8), thorough=(8000, 14), shrinktime="20s"),
        ],
    },
    "C04": {
        "level": "exploration",
        "rule": "1..6 grammatical commands (LOGIN, SELECT, CREATE, RENAME, STATUS, LIST, SEARCH with strings, APPEND incl. trailing garbage, "
                "FETCH header lists, COPY/MOVE with backend-reported empty/non-empty COPYUID data, AUTHENTICATE exchange, IDLE/DONE, NOOP) "
                "whose string arguments are independently rendered as atom / quoted / {n} / {n+} with sizes 0..5000 around 4096 and "
                "announced sizes up to 2^63-1 (APPEND limit+1, 2^31), payloads made of CRLF, command-like canary lines (tags zz*), "
                "unbalanced quotes/braces; sent by a client that is conforming about synchronisation (waits for '+' or the tagged "
                "refusal) either command by command or as one pipelined write; server caps {rev1, rev1+LITERAL+, rev2} x state "
                "{not authenticated, authenticated, selected}. Oracle on the server output framed by kit/tok: only whole well-formed "
                "lines; tagged completions are the sent tags, in order, each once (connection close is allowed); '+' only while a "
                "sync literal / AUTHENTICATE / IDLE is pending and never for an over-limit literal; no canary tag answered; no OK for "
                "a refused or malformed command; every backend call matches a sent command with byte-identical arguments and no "
                "argument contains payload text that was not accepted as that argument; a sentinel NOOP proves framing is intact. "
                "Non-trivial: a literal whose payload contains CRLF or a canary, or a refused literal; distinct by hash of (config, commands).",
        "assumptions": ["a timeout (5 s against microsecond latencies, in-memory pipe) is read as 'the server is waiting for more input'",
                        "closing the connection is always permitted by the statement and is counted, not judged"],
        "units": [
            plain("c04", "TestReplayFindings"),
            rapid("c04", "TestPropFraming", quick=(1500, 6), thorough=(25000, 14), shrinktime="20s"),
        ],
    },
    "C06": {
        "level": "fault_enumeration",
        "rule": "(1) client byte streams: grammar-generated commands of all 34 kinds (kit/cmdgen; strings as atom/quoted/sync/non-sync "
                "literal; oversized buffered literals and over-limit APPENDs), byte/token mutations of them (insert hostile chunks, "
                "delete, flip, truncate, duplicate, swap, repeat) and raw bytes, after a drawn login/select prefix, ended by half-close, "
                "close or reset; (2) disconnect sweep: for each generated valid transcript (LOGIN with literals or AUTHENTICATE "
                "exchange, SELECT, APPEND literal, 1-4 commands incl. IDLE, LOGOUT or open IDLE) the client end is closed and, "
                "separately, reset after EVERY byte offset (exhaustive per transcript); (3) deterministic nesting probe in a child "
                "process with a 32 MiB stack cap: 10 recursive constructs x depths {999,1000,1001,5000,200000} x {pre-auth, selected}. "
                "Invariants per connection: no panic report in the server log, the server closes its end, no serve/IDLE goroutine "
                "survives, the session's Close is called exactly once, no >4096-octet literal is delivered as a buffered argument "
                "(grammar mode), Append never sees a literal above the limit. Non-trivial: input that is grammar-derived or reaches a "
                "handler beyond LOGIN/SELECT; every disconnect transcript; distinct by hash of (ending, input).",
        "assumptions": ["a server end still open 10 s after the peer is gone (in-memory pipe) is read as stuck/spinning; the failure report carries the goroutine dump",
                        "resident memory of the nesting probe is reported, not judged"],
        "units": [
            plain("c06", "TestReplayNesting"),
            rapid("c06", "TestPropInput", quick=(2500, 5), thorough=(40000, 12)),
            rapid("c06", "TestPropDisconnect", quick=(3, 6), thorough=(40, 14)),
            rapid("c06", "TestPropOversize", quick=(400, 4), thorough=(6000, 8)),
            plain("c06", "TestReplayMemDisconnect"),
            rapid("c06", "TestPropDisconnectMem", quick=(5, 6), thorough=(60, 14)),
            rapid("c06", "TestPropIdlePeerStalls", quick=(40, 4), thorough=(600, 12)),
            fuzz("c06", "FuzzServerBytes", secs=120, par=4),
        ],
    },
    "C17": {
        "level": "exploration",
        "rule": "Server side: 'x STARTTLS CRLF' followed by an injected plaintext suffix (0-2 commands incl. LOGIN/AUTHENTICATE with "
                "credentials, partial lines) delivered under drawn and (for 3 suffixes) every split into <=2/3 writes, each write "
                "waited to be consumed so that segmentation is real; then a genuine TLS ClientHello or nothing; configurations "
                "TLSConfig set/unset x InsecureAuth x before/after a plaintext login. Oracle: no backend call stems from the suffix, "
                "after the STARTTLS OK line the server writes only TLS records, a handshake after an injected suffix fails and a clean "
                "one succeeds with LOGIN inside TLS reaching the backend; capability lists show LOGINDISABLED xor AUTH= according to "
                "InsecureAuth. Client side: imapclient.NewStartTLS against a scripted peer with greeting OK/OK+CAPABILITY/PREAUTH/BYE, "
                "STARTTLS answered OK/NO/BAD, injected plaintext (capabilities, EXISTS/EXPUNGE, tagged OKs) in the same or a later "
                "write, then a real TLS handshake, garbage or disconnect. Oracle: injected capabilities never appear in Caps(), "
                "unilateral handlers are never invoked, no command is completed by injected tagged responses, PREAUTH/BYE/refusal make "
                "NewStartTLS fail, a clean upgrade works. Non-trivial: accepted STARTTLS with a non-empty suffix/injection; distinct by "
                "hash of the full case.",
        "assumptions": ["a silent peer after STARTTLS OK is a stall scenario (property C10) and is replaced by a disconnect here"],
        "units": [
            plain("c17", "TestReplayScenarios"),
            plain("c17", "TestEnumServerSplits"),
            rapid("c17", "TestPropServerBoundary", quick=(150, 4), thorough=(3000, 8)),
            rapid("c17", "TestPropClientBoundary", quick=(250, 4), thorough=(5000, 8)),
        ],
    },
    "C02": {
        "level": "exploration",
        "rule": "sessions of LOGIN or AUTHENTICATE PLAIN (arbitrary byte-string credentials), optional ENABLE, then 1..6 client API calls "
                "drawn from Create(+SpecialUse)/Delete/Rename/Subscribe/Unsubscribe/List(ref, pattern, select+return options, STATUS "
                "items)/Status/Append(flags, date with zone, payload 0..70000 bytes incl. NUL and 8-bit)/Select+Examine/Unselect/Close/"
                "Fetch+UIDFetch (every item combination: BODY/BODYSTRUCTURE, ENVELOPE, FLAGS, INTERNALDATE, RFC822.SIZE, UID, body "
                "sections with part paths, HEADER/TEXT/MIME, HEADER.FIELDS(.NOT) lists, partials with int64 offsets, PEEK, BINARY, "
                "BINARY.SIZE)/Store (3 ops x silent)/Copy/Move (native and COPY+STORE+EXPUNGE fallback)/Search+UIDSearch (criteria "
                "trees of depth <=2 over every field, return options incl. SAVE)/Expunge/UIDExpunge incl. '$'/Namespace/Idle, with "
                "string arguments from every byte class up to the server's 4096-octet buffering bound, against server capability "
                "sets {rev1, +rev2, +LITERAL+, +MOVE, +UIDPLUS} and ENABLE UTF8=ACCEPT / IMAP4rev2 or none. After each Wait the stub "
                "session's recorded call must equal the API call: same method(s), byte-identical strings (INBOX folded), number sets "
                "equal with '*'/'$' preserved, flags case-insensitively, fetch item sets, search criteria in a semantic normal form "
                "(dates by calendar day, header names case-folded), documented defaults (no return option = ALL; UID FETCH implies UID). "
                "Non-trivial: session containing an argument that is not plain alphanumeric, or a set / fetch / search / list "
                "command; distinct by hash of (config, call history).",
        "assumptions": ["CONDSTORE/SPECIAL-USE/SORT/THREAD/QUOTA/METADATA arguments are outside the feature set the server implements",
                        "string arguments are at most 4096 octets on the wire (the server refuses longer buffered literals by design)",
                        "HeaderFields/HeaderFieldsNot are only generated together with the HEADER specifier (API precondition)"],
        "units": [
            rapid("c02", "TestPropCommands", quick=(2500, 8), thorough=(30000, 14)),
        ],
    },
    "C03": {
        "level": "exploration",
        "rule": "after LOGIN/ENABLE/SELECT, 1..4 commands whose backend answer is a generated plan written through the real server "
                "writers: LIST (attributes in random case, delimiters incl. NIL/quote/backslash, UTF-7 names, CHILDINFO, OLDNAME, paired "
                "STATUS), STATUS (every item subset, boundary numbers, APPENDLIMIT NIL), SELECT (flags, permanent flags incl. \\*, "
                "counts, UIDNEXT/UIDVALIDITY at 2^32-1, LIST under rev2), FETCH/UID FETCH (0..4 messages x UID, FLAGS, INTERNALDATE "
                "with zones, RFC822.SIZE to 2^63-1, ENVELOPE with NIL/empty/group addresses and msg-id lists, BODY/BODYSTRUCTURE trees "
                "to depth 3 with multipart, message/rfc822, text, parameters, dispositions, languages, locations; BODY[section]<origin> "
                "and BINARY[part] literals of 0..70000 octets incl. NUL/8-bit; BINARY.SIZE), STORE's FETCH data, SEARCH in SEARCH and "
                "ESEARCH form (empty, singletons, ranges, 2^32-1; MIN/MAX/COUNT/ALL subsets), APPENDUID, COPYUID for COPY and MOVE (+ "
                "EXPUNGE), NAMESPACE (nil/empty/multiple), EXPUNGE streams, CAPABILITY; with IMAP4rev2 and UTF8=ACCEPT enabled or not. "
                "The value returned by Wait/Collect is rendered in a canonical form (INBOX fold, attribute/flag case tables, parameter "
                "keys lower-cased, empty encoding = 7BIT upper-cased, Sender/Reply-To default to From, second granularity dates with "
                "offset, nil = empty, 0 = absent in FetchMessageBuffer) and must equal the plan's; literals by length and hash. "
                "Non-trivial: every session (each contains at least one composite response); distinct by hash of (config, plans).",
        "assumptions": ["textual fields are valid UTF-8; strings containing an RFC 2047 encoded-word are the listed known finding F-C03b and are generated away (counted)",
                        "message-ids use the RFC 5322 msg-id alphabet (the API stores them without angle brackets)",
                        "response partial origins are 32-bit (response grammar)",
                        "APPENDLIMIT NIL is represented by the client API as 2^32-1"],
        "units": [
            plain("c03", "TestKnownEncodedWord"),
            rapid("c03", "TestPropResponses", quick=(2000, 8), thorough=(25000, 14)),
        ],
    },
    "C18": {
        "level": "exploration",
        "rule": "a real imapclient against a scripted server that advertises a drawn capability set (IMAP4rev1 with any subset of IMAP4rev2, "
                "LITERAL-, LITERAL+, UTF8=ACCEPT; ENABLE UTF8=ACCEPT performed or not) issues 1..6 string-bearing calls (Login, Select, "
                "Create, Rename, List, Status, Append with sizes 0/1/4095/4096/4097/70000, Search/UIDSearch, Fetch header lists, Store, "
                "Copy, GetQuota, GetQuotaRoot, SetMetadata, GetMetadata, Sort, Thread, Idle) with strings from every byte class (NUL, CR, "
                "LF, quotes, 8-bit, invalid UTF-8, lengths 4095..8193); each synchronising literal is answered per a drawn decision "
                "('+', tagged NO, tagged BAD), optionally after the script verified that no byte followed the header. The client's output, "
                "framed by the script and tokenised by kit/tok, must satisfy: {n+} only with LITERAL+ or (LITERAL-/IMAP4rev2 and n<=4096); "
                "8-bit in quoted strings only with IMAP4rev2 or UTF8=ACCEPT enabled; no CR/LF/NUL in quoted strings; exact literal "
                "counts; no byte after a sync literal header before '+'; after a tagged refusal the next bytes start a new command (or "
                "the connection ends); no SEARCH CHARSET once UTF8=ACCEPT is enabled. Non-trivial: session whose wire form contains a "
                "literal, an 8-bit or escaped quoted string, or a refused literal; distinct by hash of (capabilities, decisions, calls).",
        "assumptions": ["library errors after a refused literal (including the client closing the connection, finding F-C12b) are legitimate outcomes for this property",
                        "the silence check before '+' uses a 300 microsecond observation window on an in-memory pipe"],
        "units": [
            rapid("c18", "TestPropSyntax", quick=(6000, 8), thorough=(40000, 14)),
        ],
    },
    "C12": {
        "level": "exploration",
        "rule": "a real imapclient against a conformant scripted server: LOGIN, SELECT (OK or NO, with [CLOSED] on re-select), then 1..3 "
                "rounds of 1..4 pipelined commands drawn so that RFC 9051 5.5 leaves no ambiguity (NOOP, CAPABILITY, STATUS on distinct "
                "mailboxes, LIST, FETCH/STORE on disjoint sequence ranges, UID FETCH, UID SEARCH answered by ESEARCH with TAG "
                "correlators, plain SEARCH, APPEND with a synchronising literal that is continued or refused with the tagged response, "
                "ENABLE, EXPUNGE); the script answers the commands in a drawn permutation, each with a drawn outcome OK/NO/BAD with or "
                "without response code, its own untagged data, and 0..2 unsolicited updates (EXISTS, EXPUNGE, FLAGS, PERMANENTFLAGS, "
                "FETCH FLAGS for unrelated messages, ALERT) before each. A reference interpreter of the transcript predicts, per "
                "command, the completion (its own tag's status and code, exactly once) and the data addressed to it, the unilateral "
                "handler calls in order, and Client.State()/Client.Mailbox() (name, count, flags, permanent flags), compared right "
                "after Wait returns and after every round; a NOOP must succeed after every round. Non-trivial: a round answered out "
                "of order or with an interleaved unsolicited update; distinct by hash of the transcript.",
        "assumptions": ["unsolicited FLAGS/PERMANENTFLAGS updates carry non-empty lists (the handler API cannot distinguish an empty list from 'unchanged')",
                        "no EXPUNGE update is sent while an EXPUNGE command is pending, no untagged SEARCH while two searches are pending (RFC 9051 5.5)",
                        "unsolicited FETCH data is compared as a multiset (handlers run in their own goroutines)"],
        "units": [
            rapid("c12", "TestPropRouting", quick=(3000, 8), thorough=(20000, 14)),
        ],
    },
    "C11": {
        "level": "exploration",
        "rule": "a real imapclient with one pending command of every response-consuming kind (CAPABILITY, LIST+STATUS, STATUS x2, FETCH, "
                "UID SEARCH, SEARCH, SORT, THREAD, GETQUOTA, GETQUOTAROOT, GETMETADATA, NAMESPACE, COPY, MOVE, EXPUNGE, ENABLE, SELECT) "
                "and all unilateral handlers installed is fed a server byte stream: 1..8 grammar-generated responses of 28 kinds "
                "(kit/respgen: boundary numbers 0, 2^32-1, 2^32, 2^63-1, 2^63, 2^64, every response code, envelopes, body structures to "
                "depth 3 with extension data, sections, literals, NIL variants, ESEARCH/SORT/THREAD/QUOTA/METADATA), byte/token "
                "mutations of them with hostile constants, or raw bytes; then every accessor of every value handed back is invoked "
                "(Nums/AllSeqNums/AllUIDs when the width is within 16x the input, Dynamic, String, Walk, MediaType, Disposition, "
                "Filename, Addr, Collect). Violations: accessor or reader panic ('panic reading response'), worker death (attributed "
                "through the persisted in-flight stream), a dynamic set or a zero sequence number/UID delivered in SEARCH/SORT/THREAD/"
                "ESEARCH/COPYUID/FETCH/EXPUNGE results, no termination within 20 s. Deterministic probes: 8 recursive productions x "
                "depths {10,999,1001,5000,100000} in a child process with a 32 MiB stack cap (depth > 1000 must be rejected; "
                "allocation <= 300 B/input byte + 32 MiB) and 6 flat families at n and 4n (allocation growth <= 8x); number differential: "
                "for 10 numeric fields a wire number (boundaries, any uint64, up to 25 digits) is delivered exactly or, outside the "
                "field's range, not at all. Non-trivial: "
                "stream that is grammar-derived or delivers at least one value; distinct by hash of the stream.",
        "assumptions": ["enumeration accessors are not invoked on sets wider than 16x the input size: listed known finding F-C11d (counted)",
                        "the resource envelope is generous (linear with large constants); only gross super-linearity is detected"],
        "units": [
            plain("c11", "TestReplayFindings"),
            plain("c11", "TestKnownEnumerationWidth"),
            plain("c11", "TestReplayNesting"),
            plain("c11", "TestReplayScaling"),
            rapid("c11", "TestPropStream", quick=(6000, 6), thorough=(120000, 12)),
            rapid("c11", "TestPropNumbers", quick=(4000, 2), thorough=(60000, 4)),
            fuzz("c11", "FuzzClientBytes", secs=240),
        ],
    },
    "C10": {
        "level": "fault_enumeration",
        "rule": "9 client programs covering every command kind (LOGIN with synchronising literals, AUTHENTICATE, SELECT, LIST+STATUS, STATUS, "
                "NAMESPACE, FETCH consumed by Collect / by manual Next+Read / closed unread, UID SEARCH, STORE, COPY, MOVE, EXPUNGE, "
                "UNSELECT, APPEND with synchronising and non-synchronising literal, IDLE..DONE, 5 pipelined commands, CREATE/RENAME/"
                "" 
                "SUBSCRIBE/ENABLE/CAPABILITY/DELETE, LOGOUT) are recorded against a real imapserver with a stub backend; the recorded "
                "server byte stream is replayed to a fresh client through a fault connection that preserves causality (a server byte "
                "becomes readable once the client has written what preceded it) and injects, after EVERY byte offset, each of: EOF, a "
                "read error, a write error on the client's next write, a stall (the client's armed read deadline fires in virtual "
                "time; with no deadline armed the harness calls Client.Close as the caller would). Oracle: every blocking call of "
                "the program returns, Client.Close returns, no imapclient goroutine survives, and a call whose tagged completion was "
                "not fully delivered returns an error. Exhaustive over offsets x faults per transcript. Non-trivial: every "
                "(program, shard) enumeration; evidence counts transcripts, offsets and offsets strictly inside literals.",
        "assumptions": ["'returns' means within 6 s of wall clock on in-memory I/O with virtual deadlines (normal latency: microseconds); a failure report carries the goroutine dump",
                        "multi-step SASL exchanges are not in the corpus (the server under test answers AUTHENTICATE PLAIN with SASL-IR in one step)",
                        "STARTTLS transcript: a replayed TLS negotiation cannot succeed (other key shares), so every command after STARTTLS is expected to fail in every replay; offsets inside TLS records are fault points for termination and clean-up, not for success"],
        "units": [
            plain("c10", "TestEnumFaults", shards_q=10, shards_t=15),
            plain("c10", "TestEnumFaultsStartTLS", shards_q=6, shards_t=8),
            plain("c10", "TestReplayScripted"),
            rapid("c10", "TestPropScripted", quick=(2500, 8), thorough=(40000, 14)),
        ],
    },
    "C13": {
        "level": "exploration",
        "rule": "race-detector build (-race). A trial starts 2-8 worker goroutines on ONE imapclient.Client, each running a generated list of "
                "operations (NOOP, STATUS, FETCH consumed with Collect, SEARCH, UID SEARCH, APPEND with synchronising and non-synchronising "
                "literal, LIST, CAPABILITY, Caps(), State(), Mailbox(), ENABLE, STORE, IDLE..DONE) against a scripted auto-responder that "
                "may answer pipelined commands out of order where RFC 9051 5.5 allows it, while a disruptor (none / server closes / server "
                "closes in the middle of a response line / another goroutine calls Client.Close) fires after a generated number of commands; "
                "GOMAXPROCS is drawn from {2,4,16}. Oracles: the Go race detector (any report fails the case), the server-side duplicate-tag "
                "detector, every submitted command's Wait/Collect/Close returns within the watchdog exactly once (a second completion panics "
                "on the closed done channel and is reported as a crash), Client.Close returns, and without a disruptor every command "
                "succeeds. Non-trivial: at least two commands were in flight (submitted, not completed) when the disruptor fired or when "
                "the busiest moment of a disruptor-free trial was reached; distinct by rendered trial.",
        "assumptions": ["schedules are produced by the Go scheduler under varying GOMAXPROCS, not enumerated; a race that needs a schedule the scheduler never produced is not seen (stated limit of the technique)",
                        "a schedule-dependent failure is reported with the trial, the operation history and the goroutine dump as replay file; rapid cannot shrink it",
                        "'returns' means within 15 s on in-memory I/O"],
        "units": [
            plain("c13", "TestReplayScenarios", race=True),
            rapid("c13", "TestPropConcurrent", quick=(500, 6), thorough=(20000, 14), race=True, shrinktime="20s"),
        ],
    },
    "C08": {
        "level": "exploration",
        "rule": "rapid histories (up to 40 steps) of commands issued one at a time by 2-4 raw sessions (no client library in the loop) against a "
                "real imapserver + imapmemserver with two shared mailboxes: APPEND, SELECT/EXAMINE, STORE/UID STORE (+/-/set, .SILENT, \\Deleted "
                "and other flags), EXPUNGE, UID EXPUNGE, COPY/MOVE and UID forms (also onto the selected mailbox), FETCH/UID FETCH, SEARCH/UID "
                "SEARCH (plain and RETURN forms), NOOP, IDLE..DONE, CLOSE, UNSELECT, disconnect; number sets mix static numbers (also out of "
                "range), ranges, '*' and n:*; sessions are left stale on purpose. Oracle: a per-connection observer fed by an independent "
                "tokenizer reconstructs the announced message list (count from EXISTS/EXPUNGE, UIDs from FETCH) and checks after every line: "
                "1 <= n <= announced count for every FETCH/EXPUNGE/SEARCH/ESEARCH number, no EXPUNGE while answering non-UID FETCH/STORE/SEARCH, "
                "the count never shrinks except by EXPUNGE, a sequence number never changes UID; after every NOOP and at the end of the "
                "history the reconstructed list must equal the mailbox's actual list read by a freshly selecting oracle connection, and "
                "FETCH 1:* (UID) on the session must rebuild exactly that list (each removal reported exactly once follows from equality). "
                "Non-trivial: a history in which at least one command was started by a session with updates pending for it; distinct by history.",
        "assumptions": ["commands are issued one at a time (the property's quantifier); concurrency is C14",
                        "the 'actual list' is what a connection that selects the mailbox afresh is told; the mailbox's own semantics are C09"],
        "units": [
            rapid("c08", "TestPropViews", quick=(1000, 10), thorough=(20000, 16), steps=40),
            rapid("c08", "TestPropConcurrentSelect", quick=(30, 6), thorough=(400, 14)),
        ],
    },
    "C09": {
        "level": "exploration",
        "rule": "rapid histories (up to 40 steps) of raw commands issued one at a time by 1-3 sessions against a real imapserver + imapmemserver, "
                "compared command by command with a reference mailbox model: CREATE (also with trailing delimiter, INBOX in any case), DELETE, "
                "RENAME, SUBSCRIBE/UNSUBSCRIBE, LIST/LSUB/LIST (SUBSCRIBED)/RETURN (SUBSCRIBED) with 14 wildcard patterns and references, STATUS "
                "(MESSAGES UIDNEXT UIDVALIDITY UNSEEN DELETED SIZE), APPEND of 8 constructed MIME templates (plain, many headers, multipart/mixed, "
                "embedded message/rfc822, nested multipart, minimal, 8-bit without Date, multipart without parts) x 48 text variants with flags "
                "in mixed case and explicit dates in 5 time zones, SELECT, UNSELECT/CLOSE, STORE/UID STORE (+ - set, .SILENT), COPY/MOVE (+UID), "
                "EXPUNGE/UID EXPUNGE, SEARCH/UID SEARCH (1-3 top-level keys from all flag keys, KEYWORD, sequence and UID sets with '*', "
                "LARGER/SMALLER, BEFORE/ON/SINCE, SENT*, SUBJECT/FROM/TO/CC, HEADER, BODY/TEXT, NEW/OLD/RECENT, NOT/OR/parenthesised lists nested "
                "3 deep; plain and RETURN (ALL|MIN MAX COUNT|COUNT ALL|)), FETCH/UID FETCH (FLAGS, RFC822.SIZE, INTERNALDATE, ENVELOPE/BODY/"
                "BODYSTRUCTURE for survival, BODY[]/BODY.PEEK[] with part paths up to 3 deep, HEADER/TEXT/MIME/HEADER.FIELDS(.NOT) and partials "
                "with offsets and sizes in {0,1,...,2^31,2^62,2^63-1}). Model predictions: tagged result, APPENDUID/COPYUID contents, UIDs strictly "
                "increasing and never reused, UIDVALIDITY constant per incarnation and different after delete+recreate, STATUS numbers, SEARCH "
                "result sets and MIN/MAX/COUNT, FETCH values (section bytes known by construction of the templates, partial clamp), which messages "
                "STORE changed (response data + final audit), which messages EXPUNGE/MOVE removed (replay of the EXPUNGE stream on the view), LIST "
                "name sets and \\Subscribed; after every fully polling command the announced count/UIDs equal the model; a final audit through "
                "a fresh connection fetches UID/FLAGS/SIZE/INTERNALDATE/BODY[] of every message of every mailbox. Any lost connection, BAD answer "
                "or 'panic' in the server log fails the case. Non-trivial: a history with a query (SEARCH/FETCH/STATUS/LIST) after >= 3 mutations.",
        "assumptions": ["sequence-number forms and SEARCH are issued with the session's view in sync (a NOOP is inserted first); UID FETCH/STORE/COPY/MOVE/EXPUNGE also run stale, where only announced messages are expected in responses",
                        "not generated: DELETE/RENAME of INBOX or of a selected mailbox, RENAME of a mailbox with children, COPY/MOVE onto the selected mailbox, HEADER/TEXT of a part that is not a message, the same FETCH item twice",
                        "SENTBEFORE/SENTON/SENTSINCE are not judged when the mailbox holds a message without Date header (not defined by the RFC); origins above 2^32-1 and ENVELOPE/BODYSTRUCTURE are survival-only",
                        "INTERNALDATE of messages appended without date is only required to lie in the run's wall-clock window"],
        "units": [
            plain("c09", "TestKnownSmallerZero"),
            rapid("c09", "TestPropModel", quick=(1000, 10), thorough=(15000, 16), steps=40),
            plain("c09", "TestReplayConcurrentMoves"),
            rapid("c09", "TestPropConcurrentUIDs", quick=(120, 4), thorough=(3000, 8)),
        ],
    },
    "C14": {
        "level": "exploration",
        "rule": "race-detector build (-race). A trial runs 2-8 sessions, each in its own goroutine with its own raw connection to a real imapserver + "
                "imapmemserver with 3 shared mailboxes preloaded with 3/12/40 messages, each executing a generated program of 3-10 commands (SELECT, "
                "COPY/MOVE/UID COPY to another mailbox, FETCH with bodies, FETCH that sets \\Seen, STORE, UID STORE, EXPUNGE, APPEND, LIST with "
                "STATUS, LIST (SUBSCRIBED), STATUS, CREATE/DELETE/RENAME/SUBSCRIBE of extra names, IDLE..DONE, NOOP, SEARCH, UID SEARCH, CLOSE) all "
                "started at once, GOMAXPROCS drawn from {2,4,8,16}; plus three fixed scenarios repeated 40x (quick) / 600x (thorough): copies and "
                "moves in opposite directions between two mailboxes, expunge/append/store during fetches, searches and idling, LIST during "
                "create/rename/delete with STATUS during appends. Oracles: every command receives its tagged completion within the watchdog (the "
                "report carries the trial and the goroutine dump of the server), no connection is dropped, no panic in the server log, and no race "
                "detector report; after the clients disconnect every connection goroutine of the trial must end. Second engine (lock monitor, "
                "harness/_lockmon injected with go build -overlay into a scratch view of the current tree, every sync.Mutex/RWMutex of "
                "imapserver/** replaced by a monitored type; nothing is written to the library): the same generated trials and scenarios run "
                "with seeded pseudo-random pauses at every nested lock acquisition (the harness owns the schedule at lock points), an exact "
                "wait-for graph reports a cycle that persists 1.5 s (an actual deadlock, with owners, waiters and call sites), and the "
                "instance-level lock-order graph of each trial (edges with gate locks and goroutines, Goodlock criterion) predicts "
                "inversions; a predicted cycle is re-run up to 4 times with rendezvous pauses at its call sites and only a realised "
                "deadlock is reported (unrealised predictions are counted in the evidence). Non-trivial: a trial in which two sessions "
                "copy/move between the same two mailboxes in opposite directions; distinct by rendered trial.",
        "assumptions": ["schedules are those the Go scheduler produces under varying GOMAXPROCS and workloads, not an enumeration: a deadlock or race that needs a schedule which was never produced is not seen (limit of the technique, see DESIGN.md)",
                        "'completes' means within 60 s on in-memory connections (normal latency: well below a millisecond per command)",
                        "failures depend on the schedule: the replay file is the trial plus the server goroutine dump; rapid cannot shrink them"],
        "units": [
            plain("c14", "TestReplayScenarios", race=True),
            rapid("c14", "TestPropStress", quick=(150, 6), thorough=(2500, 14), race=True, shrinktime="15s"),
            plain("c14l", "TestReplayScenariosMonitored", race=True, prebuild="lockmon"),
            rapid("c14l", "TestPropLockOrder", quick=(60, 6), thorough=(500, 14), race=True, prebuild="lockmon", shrinktime="15s"),
        ],
    },
}

# ---- additions of the second session (strengthened after seeded changes were missed; see DESIGN.md 8.4)
_MORE = {
    "C02": " Search criteria include sparse NOT/OR operands (1-3 keys: a single flag, a flag and a size, a date...) and keywords spelled like system flags without the backslash.",
    "C08": " Concurrent part (TestPropConcurrentSelect): a session SELECTs INBOX at the moment 1-3 other sessions MOVE / EXPUNGE all its messages or append to it (all commands of a round start together); after NOOP every session's reconstructed list must equal the freshly selected mailbox.",
    "C01": " Flags and mailbox attributes are also drawn from ARBITRARY strings (TestPropAnyFlag: every byte value between letters, UTF-8 words, well-known "
           "names with a letter replaced by a non-ASCII character that Unicode folding maps onto it, bare and in lists): 7-bit valid ones must be accepted, "
           "malformed ones refused, 8-bit ones either - and whatever is accepted must decode to the same value up to ASCII case of the well-known names. "
           "Refusals are repeated with further values behind the refused one, including synchronising literals driven by the caller (TestPropRefusalTail).",
    "C05": " Session.Poll counts as a session operation: it must not be reached on behalf of a command that leaves the connection not authenticated or in logout.",
    "C03": " Hierarchy delimiters in LIST and NAMESPACE data include non-ASCII runes.",
    "C04": " Also literals (sync/non-sync, often of size 0) in positions where the grammar has no string (SEARCH dates and numbers, FETCH sets, STORE flags, "
           "STATUS items), with command-like text as data and as the rest of the line: the command must fail, its data and line tail are never executed.",
    "C06": " Oversize refusals (TestPropOversize): APPEND above the append limit in every connection state (not authenticated, authenticated, selected, after "
           "UNAUTHENTICATE, after a failed LOGIN), buffered arguments above 4096 octets in 11 commands, synchronising and non-synchronising, and SASL/DONE "
           "lines of 4000..70000 octets: no continuation request may be sent for data that must be refused, a tagged NO/BAD or BYE must follow, nothing of that "
           "size (and no command-like literal data) reaches the backend. Nesting probes are repeated after 9000 commands carrying empty lists on the same "
           "connection, and a SEARCH nested deeper than the cap must not reach the backend. Disconnect sweeps are repeated with the repository's in-memory "
           "backend behind the server (it streams body literals): the client vanishes at every 3rd (thorough: every) offset of generated transcripts, and after "
           "having received k bytes of the responses for sampled k (the server's write fails there); goroutines gone, session closed exactly once. Stalled peers (TestPropIdlePeerStalls): a peer idles (or sends a FETCH) on a mailbox and stops reading - the transport blocks the server's writes to it, honouring the server's write deadlines shortened 1000 times - while a second connection makes 1-150 changes to the same mailbox; every command of the second connection completes, and once the first peer is gone its session is closed exactly once and no server goroutine remains.",
    "C07": " Mailbox changes are also made between two network writes of a running Poll (write hook on the server side of the connection): updates queued "
           "while a poll is writing must neither be lost nor overtake or overwrite the ones being written. SessionTracker.NumMessages() must equal the number "
           "of messages the client has been told about after every step.",
    "C09": " Concurrent part (TestPropConcurrentUIDs): 2-5 sessions run APPEND (unique subjects), COPY/MOVE/UID COPY/UID MOVE, STORE and EXPUNGE at the same time; "
           "every APPENDUID and every UID pair of every COPYUID is collected and audited against the final mailboxes: no UID handed out twice, a claimed UID "
           "holds the claimed message, nothing exists that was never announced.",
    "C10": " Second engine (TestPropScripted): generated client programs (21 operation kinds incl. pipelining, LOGOUT with a command behind it, 1 MiB+ literals "
           "through Collect) against a scripted server with greetings / LOGIN completions with and without CAPABILITY code, LITERAL- or not; the server's bytes "
           "go through a drawn budget after which the connection is closed, reset, stalled (the caller then closes the client) or the client's writes fail; "
           "oracle: every call returns, Close returns, no imapclient goroutine survives, a call reports success only if its tagged completion was sent entirely.",
    "C11": " Nesting probes are repeated after 9000 responses containing empty lists on the same connection (the cap must not depend on history).",
    "C12": " Rounds have up to 5 commands, several LIST/SEARCH commands per round (answered in sending order, their data carries no correlator), LIST ... RETURN "
           "(STATUS) with STATUS responses dropped for some mailboxes and \\Noselect mailboxes, STATUS on 'inbox' in three spellings answered in either spelling; "
           "a final LOGOUT round with 0-2 commands pipelined behind it which are never answered (they must fail, State() must be logout). Commands refused (NO/BAD) before login leave State() not authenticated; the STATUS data of a pipelined STATUS command may arrive before the completion of a plain LIST that lists the same mailbox. STORE is .SILENT every other time and still owns the FETCH data sent for it; EXPUNGE commands with 120-300 notifications collected after the round has been answered; PERMANENTFLAGS () updates are mirrored.",
    "C13": " Workloads also contain 300-message FETCH streams whose consumer lags and calls State()/Mailbox() between messages, a 128 KiB body literal streamed in "
           "1500-byte reads while the server sends it in pieces, LOGOUT answered without closing for 0-6 further responses, commands with two synchronising "
           "literals of which the k-th is refused, NOOPs answered with unilateral EXPUNGE/EXISTS/FLAGS while other goroutines read every field of Mailbox(); "
           "disruptors: server close, mid-line close, Client.Close, client write failure. STORE is answered with FETCH data of 1-40 items without literal; LIST RETURN (STATUS) answered with 70 mailboxes and a cut connection while its consumer shows up late and other goroutines submit commands a few ms later.",
    "C15": " Argument sets of AddSet stay alive: they are mutated later and compared with their own model after every step (no aliasing in either direction).",
    "C16": " Every encoder/decoder case additionally goes through the wire entry points imapwire.Encoder.Mailbox and Decoder.ExpectMailbox (literal form) and is "
           "judged by the same reference codec. Concurrent part (TestPropConcurrentCodec): 4-12 goroutines encode and decode their own names through fresh encoder/decoder values and the wire entry points at the same time, each judged by the reference codec.",
    "C18": " Capabilities and enabled extensions change during a session: a later LOGIN may be answered with other capabilities (with or without CAPABILITY "
           "code), UNAUTHENTICATE (with or without code) disables what ENABLE enabled, ENABLE may come late; each command is judged against what is in force "
           "when it is sent. CAPABILITY and LOGIN pipelined: the answer to the former (the old set) arrives between the latter and its completion.",
    "C19": " A quarter of the backend commands and a sixth of the stub commands are text-heavy: BODY/TEXT/SUBJECT/HEADER keys at several levels of one NOT/OR tree.",
}
for _k, _v in _MORE.items():
    PROPS[_k]["rule"] += _v
PROPS["C09"]["assumptions"][0] = "model part: " + PROPS["C09"]["assumptions"][0]
