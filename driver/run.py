#!/usr/bin/env python3
"""Driver for the go-imap property checks.

  ./check <Cxx> [--tier quick|thorough] [--replay <file>]

Builds harness/<cxx> against the *current working tree* of /repo, runs the
units listed for the property in driver/plan.py (replay/regression tests,
known-finding reproducers, exhaustive enumerations, rapid properties sharded by
seed, native fuzz targets in the thorough tier), merges the per-process
counters into evidence/<id>.json, and maps outcomes to the exit contract:

  0  property held on everything explored (KNOWN-FINDING lines allowed)
  1  a violation not listed in KNOWN_FINDINGS.jsonl; prints
     "VIOLATION property=<id> replay=<path>"
  2  inconclusive (harness build failure, driver timeout, worker death without
     a persisted in-flight case, short rapid count)
"""
import argparse
import concurrent.futures as cf
import glob
import json
import os
import re
import shutil
import struct
import subprocess
import sys
import tempfile
import time

VERIF = os.path.dirname(os.path.dirname(os.path.abspath(__file__)))
HARNESS = os.path.join(VERIF, "harness")
sys.path.insert(0, os.path.join(VERIF, "driver"))
import plan as PLAN  # noqa: E402

MASK = (1 << 64) - 1

# Development aid only (seeded-change evaluation in parallel): VERIF_REPO=<scratch worktree> builds the
# harness against that tree instead of /repo through a temporary -modfile. Registered checks never set it.
REPO = os.environ.get("VERIF_REPO") or "/repo"
MODFLAGS = []


def prepare_modfile(tmp):
    if REPO == "/repo":
        return
    mod = open(os.path.join(HARNESS, "go.mod")).read().replace("=> /repo", "=> " + REPO)
    with open(os.path.join(tmp, "go.mod"), "w") as f:
        f.write(mod)
    shutil.copy(os.path.join(HARNESS, "go.sum"), os.path.join(tmp, "go.sum"))
    MODFLAGS[:] = ["-modfile=" + os.path.join(tmp, "go.mod")]


def splitmix(x):
    x = (x + 0x9E3779B97F4A7C15) & MASK
    z = x
    z = ((z ^ (z >> 30)) * 0xBF58476D1CE4E5B9) & MASK
    z = ((z ^ (z >> 27)) * 0x94D049BB133111EB) & MASK
    z = z ^ (z >> 31)
    return z or 1


def goenv():
    e = dict(os.environ)
    e.update({
        "GOFLAGS": "-mod=mod", "GOPROXY": "off", "GOSUMDB": "off",
        "GOTOOLCHAIN": "local", "CGO_ENABLED": e.get("CGO_ENABLED", "1"),
    })
    return e


def sync_gosum():
    """harness/go.sum must contain /repo's sums (replace => /repo)."""
    try:
        want = open(REPO + "/go.sum").read().splitlines()
        path = os.path.join(HARNESS, "go.sum")
        have = open(path).read().splitlines() if os.path.exists(path) else []
        missing = [l for l in want if l not in set(have)]
        if missing:
            with open(path, "a") as f:
                f.write("\n".join(missing) + "\n")
    except OSError:
        pass


def build(pkg, race, tmp, extra_build=None):
    out = os.path.join(tmp, pkg + (".race" if race else "") + ".test")
    cmd = ["go", "test", "-c", "-vet=off", "-o", out] + MODFLAGS
    if race:
        cmd.append("-race")
    if extra_build:
        cmd += extra_build
    cmd.append("./" + pkg + "/")
    p = subprocess.run(cmd, cwd=HARNESS, env=goenv(), stdout=subprocess.PIPE,
                       stderr=subprocess.STDOUT, text=True)
    if p.returncode != 0 or not os.path.exists(out):
        return None, p.stdout
    return out, p.stdout


def rss_kb(pid):
    """resident set of pid plus its direct children, in KiB"""
    total = 0
    pids = [pid]
    try:
        for t in os.listdir("/proc/%d/task" % pid):
            try:
                pids += [int(x) for x in open("/proc/%d/task/%s/children" % (pid, t)).read().split()]
            except OSError:
                pass
    except OSError:
        pass
    for q in pids:
        try:
            for line in open("/proc/%d/status" % q):
                if line.startswith("VmRSS:"):
                    total += int(line.split()[1])
        except OSError:
            pass
    return total


def run_limited(args, wd, env, timeout, mem_gb):
    """run a test process under a wall-clock and resident-memory limit.
    Returns (rc, output); rc -9 = driver timeout, -99 = memory limit."""
    logp = os.path.join(wd, "stdout.log")
    with open(logp, "wb") as lf:
        p = subprocess.Popen(args, cwd=wd, env=env, stdout=lf, stderr=subprocess.STDOUT, start_new_session=True)
        t0 = time.time()
        note = ""
        while True:
            try:
                p.wait(timeout=0.5)
                break
            except subprocess.TimeoutExpired:
                pass
            if time.time() - t0 > timeout:
                note = "\n[driver] timeout\n"
            elif rss_kb(p.pid) > mem_gb * 1024 * 1024:
                note = "\n[driver] memory limit %d GiB exceeded\n" % mem_gb
            if note:
                try:
                    os.killpg(p.pid, 9)
                except OSError:
                    pass
                p.wait()
                break
    out = open(logp, "rb").read().decode("utf-8", "replace") + note
    rc = p.returncode
    if "[driver] timeout" in note:
        rc = -9
    elif note:
        rc = -99
    return rc, out


class Job:
    def __init__(self, unit, shard, nshards, checks, seed, binary, timeout):
        self.unit, self.shard, self.nshards = unit, shard, nshards
        self.checks, self.seed, self.binary, self.timeout = checks, seed, binary, timeout
        self.name = "%s-%d" % (unit["run"], shard)


def run_job(job, tmp, tier, vseed, pid):
    wd = os.path.join(tmp, "wd-" + job.name)
    os.makedirs(wd, exist_ok=True)
    outp = os.path.join(wd, "out.json")
    infl = os.path.join(wd, "inflight.json")
    env = goenv()
    env.update({
        "VERIF_OUT": outp, "VERIF_TIER": tier, "VERIF_SEED": str(vseed),
        "VERIF_SHARD": str(job.shard), "VERIF_NSHARD": str(job.nshards),
        "VERIF_INFLIGHT": infl, "VERIF_DIR": VERIF,
        "VERIF_UNITSEED": str(job.seed),
    })
    for k, v in (job.unit.get("env") or {}).items():
        env[k] = str(v)
    args = [job.binary, "-test.run", "^" + job.unit["run"] + "$", "-test.v",
            "-test.timeout", "%ds" % job.timeout, "-test.count", "1"]
    if job.unit["kind"] == "rapid":
        args += ["-rapid.checks", str(job.checks), "-rapid.seed", str(job.seed)]
        if job.unit.get("steps"):
            args += ["-rapid.steps", str(job.unit["steps"])]
        if job.unit.get("shrinktime"):
            args += ["-rapid.shrinktime", job.unit["shrinktime"]]
    t0 = time.time()
    rc, out = run_limited(args, wd, env, job.timeout + 60, job.unit.get("mem_gb", 6))
    res = {"job": job, "rc": rc, "out": out, "wd": wd, "wall": time.time() - t0,
           "status": "ok", "replay": None, "why": ""}
    passed = None
    m = re.findall(r"\[rapid\] OK, passed (\d+) tests", out)
    if m:
        passed = sum(int(x) for x in m)
    res["passed"] = passed
    if rc == 0:
        if job.unit["kind"] == "rapid" and (passed is None or passed < job.checks):
            res["status"], res["why"] = "inconclusive", "rapid ran %s of %d cases" % (passed, job.checks)
        if "--- SKIP" in out and "--- PASS" not in out and "\nPASS" not in out:
            pass
        return res
    # non-zero exit
    replay_dir = os.path.join(VERIF, "replays", pid)
    stamp = "%s-seed%d-%d" % (job.unit["run"], job.seed, int(time.time()))
    if "--- FAIL" in out and "panic: test timed out" not in out:
        os.makedirs(replay_dir, exist_ok=True)
        fails = glob.glob(os.path.join(wd, "testdata", "rapid", "**", "*.fail"), recursive=True)
        logp = os.path.join(replay_dir, stamp + ".log")
        with open(logp, "w") as f:
            f.write(out)
        rp = logp
        if fails:
            rp = os.path.join(replay_dir, stamp + ".fail")
            shutil.copy(fails[0], rp)
        cases = glob.glob(os.path.join(wd, "case-*.json"))
        for c in cases[:1]:
            rp2 = os.path.join(replay_dir, stamp + ".case.json")
            shutil.copy(c, rp2)
            if not fails:
                rp = rp2
        res["status"], res["replay"] = "violation", rp
        return res
    if rc == -99 and not os.path.exists(infl):
        res["status"], res["why"] = "inconclusive", "memory limit exceeded without a persisted in-flight case"
        return res
    if os.path.exists(infl) and ("panic:" in out or "fatal error:" in out or rc < 0 or rc == 2):
        # the process died while executing a persisted case
        if "panic: test timed out" in out or "[driver] timeout" in out:
            res["status"], res["why"] = "inconclusive", "timeout"
            if job.unit.get("timeout_is_violation"):
                pass
            else:
                return res
        os.makedirs(replay_dir, exist_ok=True)
        rp = os.path.join(replay_dir, stamp + ".inflight.json")
        shutil.copy(infl, rp)
        with open(os.path.join(replay_dir, stamp + ".log"), "w") as f:
            f.write(out[-200000:])
        res["status"], res["replay"] = "violation", rp
        return res
    res["status"] = "inconclusive"
    res["why"] = "exit %d without a failing test or in-flight case" % rc
    return res


def run_fuzz(unit, tmp, tier, pid, secs):
    """native go fuzzing (thorough tier only): extra search engine."""
    pkgdir = os.path.join(HARNESS, unit["pkg"])
    cache = os.path.join(tmp, "fuzzcache-" + unit["run"])
    env = goenv()
    env.update({"VERIF_TIER": tier, "VERIF_DIR": VERIF})
    before = set(glob.glob(os.path.join(pkgdir, "testdata", "fuzz", unit["run"], "*")))
    cmd = ["go", "test", "-vet=off"] + MODFLAGS + ["-run", "^$", "-fuzz", "^" + unit["run"] + "$",
           "-fuzztime", "%ds" % secs, "-test.fuzzcachedir", cache, "-parallel", str(unit.get("par", 8)), "."]
    t0 = time.time()
    try:
        p = subprocess.run(cmd, cwd=pkgdir, env=env, stdout=subprocess.PIPE, stderr=subprocess.STDOUT,
                           timeout=secs + 600)
        rc, out = p.returncode, p.stdout.decode("utf-8", "replace")
    except subprocess.TimeoutExpired as e:
        rc, out = -9, (e.stdout or b"").decode("utf-8", "replace")
    res = {"unit": unit, "rc": rc, "out": out, "wall": time.time() - t0, "status": "ok", "replay": None, "why": ""}
    m = re.findall(r"execs: (\d+)", out)
    res["execs"] = int(m[-1]) if m else 0
    if rc == 0:
        return res
    after = set(glob.glob(os.path.join(pkgdir, "testdata", "fuzz", unit["run"], "*")))
    new = sorted(after - before)
    if new and "--- FAIL" in out:
        replay_dir = os.path.join(VERIF, "replays", pid)
        os.makedirs(replay_dir, exist_ok=True)
        rp = os.path.join(replay_dir, "%s-%s" % (unit["run"], os.path.basename(new[0])))
        shutil.move(new[0], rp)
        for extra in new[1:]:
            os.remove(extra)
        with open(rp + ".log", "w") as f:
            f.write(out[-100000:])
        res["status"], res["replay"] = "violation", rp
    else:
        res["status"], res["why"] = "inconclusive", "fuzz engine exit %d" % rc
    return res


def load_known(pid):
    path = os.path.join(VERIF, "KNOWN_FINDINGS.jsonl")
    out = []
    if os.path.exists(path):
        for line in open(path):
            line = line.strip()
            if line and not line.startswith("#"):
                r = json.loads(line)
                if r.get("property") == pid:
                    out.append(r)
    return out


def merge_evidence(pid, tier, vseed, results, fuzzres, wall, violations, inconclusive, meta):
    evals, classes, excluded, samples, extra, known = 0, {}, {}, [], {}, {}
    hashes = set()
    saturated = False
    for r in results:
        outp = os.path.join(r["wd"], "out.json")
        if not os.path.exists(outp):
            continue
        try:
            o = json.load(open(outp))
        except Exception:
            continue
        evals += o.get("evaluations", 0)
        saturated = saturated or o.get("hash_set_saturated", False)
        for k, v in (o.get("classes") or {}).items():
            classes[k] = classes.get(k, 0) + v
        for k, v in (o.get("excluded_known") or {}).items():
            excluded[k] = excluded.get(k, 0) + v
        for s in (o.get("samples") or []):
            samples.append(s)
        for k, v in (o.get("extra") or {}).items():
            if isinstance(v, (int, float)) and not isinstance(v, bool) and isinstance(extra.get(k, 0), (int, float)):
                extra[k] = extra.get(k, 0) + v
            else:
                extra[k] = v
        for k, v in (o.get("known") or {}).items():
            if v == "reproduces" or k not in known:
                known[k] = v
        hp = outp + ".hashes"
        if os.path.exists(hp):
            b = open(hp, "rb").read()
            if len(hashes) < 20_000_000:
                hashes.update(struct.unpack("<%dQ" % (len(b) // 8), b))
    # spread samples: keep at most 10, round-robin over processes
    if len(samples) > 10:
        step = len(samples) / 10.0
        samples = [samples[int(i * step)] for i in range(10)]
    cov = {
        "evaluations": int(evals),
        "distinct_nontrivial": len(hashes),
        "rule": meta.get("rule", ""),
        "samples": samples,
        "classes": dict(sorted(classes.items())),
        "excluded_as_known_finding": excluded,
        "exhaustive": False,
        "units": [
            {"unit": r["job"].name, "kind": r["job"].unit["kind"], "rapid_cases_passed": r.get("passed"),
             "requested": r["job"].checks, "status": r["status"], "wall_s": round(r["wall"], 2)}
            for r in results],
    }
    if saturated:
        cov["distinct_nontrivial_note"] = "per-process hash set saturated; count is a lower bound"
    if fuzzres:
        cov["native_fuzz"] = [{"target": f["unit"]["run"], "execs": f.get("execs", 0), "status": f["status"],
                               "wall_s": round(f["wall"], 1)} for f in fuzzres]
        cov["evaluations"] += sum(f.get("execs", 0) for f in fuzzres)
    for k, v in extra.items():
        cov[k] = v
    if known:
        cov["known_finding_reproducers"] = known
    evd = {
        "property_id": pid, "tier": tier, "seed": int(vseed), "level": meta.get("level", "exploration"),
        "coverage": cov, "assumptions": meta.get("assumptions", []),
        "wall_s": round(wall, 2), "violations": violations,
    }
    if inconclusive:
        evd["coverage"]["inconclusive_units"] = inconclusive
    os.makedirs(os.path.join(VERIF, "evidence"), exist_ok=True)
    path = os.path.join(VERIF, "evidence", pid + ".json")
    tmpf = path + ".tmp"
    with open(tmpf, "w") as f:
        json.dump(evd, f, indent=1, ensure_ascii=False)
        f.write("\n")
    os.replace(tmpf, path)
    return known


def do_replay(pid, path, tmp):
    meta = PLAN.PROPS[pid]
    base = os.path.basename(path)
    m = re.match(r"((?:Test|Fuzz)[A-Za-z0-9_]+?)-", base)
    if not m:
        print("cannot derive test name from", base)
        return 2
    test = m.group(1)
    unit = next((u for u in meta["units"] if u["run"] == test), None)
    if unit is None:
        print("no unit", test)
        return 2
    if unit["kind"] == "fuzz":
        pkgdir = os.path.join(HARNESS, unit["pkg"])
        d = os.path.join(pkgdir, "testdata", "fuzz", test)
        os.makedirs(d, exist_ok=True)
        tgt = os.path.join(d, "replay-" + base)
        shutil.copy(path, tgt)
        try:
            p = subprocess.run(["go", "test", "-vet=off"] + MODFLAGS + ["-run", "^%s$/%s" % (test, "replay-" + base), "."],
                               cwd=pkgdir, env=goenv())
        finally:
            os.remove(tgt)
        rc = p.returncode
    else:
        extra = list(unit.get("build") or [])
        if unit.get("prebuild"):
            extra = PLAN.PREBUILD[unit["prebuild"]](tmp, goenv()) + extra
        binary, log = build(unit["pkg"], unit.get("race", False), tmp, extra)
        if not binary:
            print(log)
            return 2
        env = goenv()
        env.update({"VERIF_TIER": "quick", "VERIF_DIR": VERIF, "VERIF_REPLAY": os.path.abspath(path)})
        for k, v in (unit.get("env") or {}).items():
            env[k] = str(v)
        args = [binary, "-test.run", "^" + test + "$", "-test.v"]
        if path.endswith(".fail"):
            args += ["-rapid.failfile", os.path.abspath(path), "-rapid.checks", "1"]
        wd = os.path.join(tmp, "replay")
        os.makedirs(wd, exist_ok=True)
        rc = subprocess.run(args, cwd=wd, env=env).returncode
    if rc != 0:
        print("VIOLATION property=%s replay=%s" % (pid, path))
        return 1
    print("replay passed")
    return 0


def main():
    ap = argparse.ArgumentParser()
    ap.add_argument("prop")
    ap.add_argument("--tier", default=os.environ.get("VERIF_TIER") or "quick", choices=["quick", "thorough"])
    ap.add_argument("--replay")
    ap.add_argument("--only", help="regex over unit names (development aid)")
    ap.add_argument("--jobs", type=int, default=int(os.environ.get("VERIF_JOBS", "16")))
    a = ap.parse_args()
    pid = a.prop.upper()
    if pid not in PLAN.PROPS:
        print("unknown property", pid)
        return 2
    meta = PLAN.PROPS[pid]
    tier = a.tier
    try:
        vseed = int(os.environ.get("VERIF_SEED", "1") or "1")
    except ValueError:
        vseed = 1
    t0 = time.time()
    sync_gosum()
    tmp = tempfile.mkdtemp(prefix="verif-%s-" % pid.lower(), dir=os.environ.get("VERIF_TMP") or None)
    try:
        prepare_modfile(tmp)
        if a.replay:
            return do_replay(pid, a.replay, tmp)
        units = [u for u in meta["units"] if not a.only or re.search(a.only, u["run"])]
        # 1. build
        bins = {}
        for u in units:
            if u["kind"] == "fuzz":
                continue
            key = (u["pkg"], bool(u.get("race")), tuple(u.get("build") or ()))
            if key in bins:
                continue
            prep = u.get("prebuild")
            extra = list(u.get("build") or [])
            if prep:
                extra = PLAN.PREBUILD[prep](tmp, goenv()) + extra
            b, log = build(u["pkg"], key[1], tmp, extra)
            if not b:
                print(log)
                print("INCONCLUSIVE property=%s: harness does not build against the current /repo tree" % pid)
                return 2
            bins[key] = b
        # 2. jobs
        jobs = []
        for ui, u in enumerate(units):
            if u["kind"] == "fuzz":
                continue
            if tier == "quick" and u.get("thorough_only"):
                continue
            key = (u["pkg"], bool(u.get("race")), tuple(u.get("build") or ()))
            checks, shards = u.get(tier, (0, 1))
            timeout = u.get("timeout", {}).get(tier, 900 if tier == "quick" else 5400)
            for s in range(shards):
                seed = splitmix((vseed * 1000003 + ui * 1009 + s) & MASK)
                jobs.append(Job(u, s, shards, checks, seed, bins[key], timeout))
        results = []
        with cf.ThreadPoolExecutor(max_workers=a.jobs) as ex:
            futs = [ex.submit(run_job, j, tmp, tier, vseed, pid) for j in jobs]
            for f in futs:
                results.append(f.result())
        fuzzres = []
        if tier == "thorough":
            for u in units:
                if u["kind"] == "fuzz":
                    fuzzres.append(run_fuzz(u, tmp, tier, pid, u.get("secs", 120)))
        # 3. verdict
        viol = [r for r in results if r["status"] == "violation"] + [f for f in fuzzres if f["status"] == "violation"]
        inconc = [r for r in results if r["status"] == "inconclusive"] + [f for f in fuzzres if f["status"] == "inconclusive"]
        inconc_names = [(r["job"].name if "job" in r else r["unit"]["run"]) + ": " + r["why"] for r in inconc]
        known_state = merge_evidence(pid, tier, vseed, results, fuzzres, time.time() - t0, len(viol), inconc_names, meta)
        for k in load_known(pid):
            if k.get("status") == "known":
                state = known_state.get(k["id"])
                if state == "reproduces":
                    print("KNOWN-FINDING: property=%s %s %s" % (pid, k["id"], k["what"]))
                elif state == "gone":
                    print("note: listed finding %s no longer reproduces on this tree" % k["id"])
        if viol:
            for r in viol:
                print("VIOLATION property=%s replay=%s" % (pid, r["replay"]))
                tail = r["out"][-6000:]
                print(tail)
            return 1
        if inconc:
            for r in inconc:
                name = r["job"].name if "job" in r else r["unit"]["run"]
                print("INCONCLUSIVE unit=%s: %s" % (name, r["why"]))
                print(r["out"][-3000:])
            return 2
        ev = json.load(open(os.path.join(VERIF, "evidence", pid + ".json")))
        print("OK property=%s tier=%s seed=%d evaluations=%d distinct_nontrivial=%d wall=%.1fs" % (
            pid, tier, vseed, ev["coverage"]["evaluations"], ev["coverage"]["distinct_nontrivial"], time.time() - t0))
        return 0
    finally:
        shutil.rmtree(tmp, ignore_errors=True)


if __name__ == "__main__":
    sys.exit(main())
