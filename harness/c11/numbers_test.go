package c11

// Numbers: a number on the wire is either delivered exactly or, when it does
// not fit the protocol's range for that field, reported as an error - never
// truncated or wrapped.

import (
	"fmt"
	"math/big"
	"strings"
	"testing"

	imap "github.com/emersion/go-imap/v2"
	"github.com/emersion/go-imap/v2/imapclient"
	"github.com/emersion/go-imap/v2/verifh/kit/ev"
	"github.com/emersion/go-imap/v2/verifh/kit/pipe"
	"pgregory.net/rapid"
)

type numField struct {
	name string
	line func(n string) string
	max  string // largest legal value
	min  int64  // smallest legal value
	get  func(r *numResult) (string, bool)
}

type numResult struct {
	status  *imap.StatusData
	fetch   []*imapclient.FetchMessageBuffer
	search  *imap.SearchData
	esearch *imap.SearchData
	expunge []uint32
	err     error
}

const max32 = "4294967295"
const max63 = "9223372036854775807"

var numFields = []numField{
	{"STATUS MESSAGES", func(n string) string { return "* STATUS INBOX (MESSAGES " + n + ")\r\n" }, max32, 0, func(r *numResult) (string, bool) {
		if r.status == nil || r.status.NumMessages == nil {
			return "", false
		}
		return fmt.Sprint(*r.status.NumMessages), true
	}},
	{"STATUS UIDNEXT", func(n string) string { return "* STATUS INBOX (MESSAGES 1 UIDNEXT " + n + ")\r\n" }, max32, 0, func(r *numResult) (string, bool) {
		if r.status == nil || r.status.NumMessages == nil {
			return "", false
		}
		return fmt.Sprint(uint32(r.status.UIDNext)), true
	}},
	{"STATUS SIZE", func(n string) string { return "* STATUS INBOX (MESSAGES 1 SIZE " + n + ")\r\n" }, max63, 0, func(r *numResult) (string, bool) {
		if r.status == nil || r.status.Size == nil {
			return "", false
		}
		return fmt.Sprint(*r.status.Size), true
	}},
	{"FETCH UID", func(n string) string { return "* 1 FETCH (UID " + n + ")\r\n" }, max32, 1, func(r *numResult) (string, bool) {
		if len(r.fetch) != 1 {
			return "", false
		}
		return fmt.Sprint(uint32(r.fetch[0].UID)), true
	}},
	{"FETCH RFC822.SIZE", func(n string) string { return "* 1 FETCH (RFC822.SIZE " + n + " FLAGS (x))\r\n" }, max63, 0, func(r *numResult) (string, bool) {
		if len(r.fetch) != 1 || len(r.fetch[0].Flags) == 0 {
			return "", false
		}
		return fmt.Sprint(r.fetch[0].RFC822Size), true
	}},
	{"FETCH sequence number", func(n string) string { return "* " + n + " FETCH (FLAGS (x))\r\n" }, max32, 1, func(r *numResult) (string, bool) {
		if len(r.fetch) != 1 {
			return "", false
		}
		return fmt.Sprint(r.fetch[0].SeqNum), true
	}},
	{"SEARCH number", func(n string) string { return "* SEARCH " + n + "\r\n" }, max32, 1, func(r *numResult) (string, bool) {
		// an untagged SEARCH goes to the first pending search command
		for _, d := range []*imap.SearchData{r.esearch, r.search} {
			if d != nil && d.All != nil && d.All.String() != "" {
				return d.All.String(), true
			}
		}
		return "", false
	}},
	{"ESEARCH COUNT", func(n string) string { return "* ESEARCH (TAG \"T4\") UID COUNT " + n + " MIN 1\r\n" }, max32, 0, func(r *numResult) (string, bool) {
		if r.esearch == nil || r.esearch.Min != 1 {
			return "", false
		}
		return fmt.Sprint(r.esearch.Count), true
	}},
	// (MAX 0 is delivered as 0, which SearchData cannot tell from "absent": not judged)
	{"ESEARCH MAX", func(n string) string { return "* ESEARCH (TAG \"T4\") UID MIN 1 MAX " + n + "\r\n" }, max32, 0, func(r *numResult) (string, bool) {
		if r.esearch == nil || r.esearch.Min != 1 {
			return "", false
		}
		return fmt.Sprint(r.esearch.Max), true
	}},
	{"EXPUNGE number", func(n string) string { return "* " + n + " EXPUNGE\r\n" }, max32, 1, func(r *numResult) (string, bool) {
		if len(r.expunge) != 1 {
			return "", false
		}
		return fmt.Sprint(r.expunge[0]), true
	}},
}

func runNumber(line string) *numResult {
	cEnd, sEnd := pipe.New()
	go func() {
		buf := make([]byte, 4096)
		for {
			if _, err := sEnd.Read(buf); err != nil {
				return
			}
		}
	}()
	sEnd.Write([]byte("* OK [CAPABILITY IMAP4rev1 ESEARCH UIDPLUS] ready\r\n"))
	c := imapclient.New(cEnd, nil)
	login, sel := c.Login("u", "p"), c.Select("INBOX", nil)
	sEnd.Write([]byte("T1 OK [CAPABILITY IMAP4rev1 ESEARCH UIDPLUS] in\r\n* 9 EXISTS\r\nT2 OK [READ-WRITE] sel\r\n"))
	login.Wait()
	sel.Wait()
	st := c.Status("INBOX", &imap.StatusOptions{NumMessages: true})                                                     // T3
	es := c.UIDSearch(&imap.SearchCriteria{}, &imap.SearchOptions{ReturnMin: true, ReturnMax: true, ReturnCount: true}) // T4
	se := c.Search(&imap.SearchCriteria{}, nil)                                                                         // T5
	var all imap.SeqSet
	all.AddRange(1, 4294967295)
	fe := c.Fetch(all, &imap.FetchOptions{Flags: true}) // T6
	ex := c.Expunge()                                   // T7
	sEnd.Write([]byte(line + "T3 OK\r\nT4 OK\r\nT5 OK\r\nT6 OK\r\nT7 OK\r\n"))
	sEnd.CloseWrite()
	r := &numResult{}
	fch := make(chan []*imapclient.FetchMessageBuffer, 1)
	go func() {
		b, err := fe.Collect()
		if err != nil {
			b = nil // a failed command delivers nothing
		}
		fch <- b
	}()
	ech := make(chan []uint32, 1)
	go func() {
		n, err := ex.Collect()
		if err != nil {
			n = nil
		}
		ech <- n
	}()
	if d, err := st.Wait(); err == nil {
		r.status = d
	}
	if d, err := es.Wait(); err == nil {
		r.esearch = d
	}
	if d, err := se.Wait(); err == nil {
		r.search = d
	}
	r.fetch, r.expunge = <-fch, <-ech
	r.err = c.Close()
	sEnd.Close()
	return r
}

func checkNumber(t fataler, f numField, n string) (legal bool) {
	v, ok := new(big.Int).SetString(n, 10)
	if !ok {
		panic(n)
	}
	max, _ := new(big.Int).SetString(f.max, 10)
	legal = v.Cmp(max) <= 0 && v.Cmp(big.NewInt(f.min)) >= 0
	r := runNumber(f.line(n))
	got, delivered := f.get(r)
	if legal {
		if !delivered || got != v.String() {
			t.Fatalf("%s: wire value %s is legal but the client delivered %q (delivered=%v, reader error %v)", f.name, n, got, delivered, r.err)
		}
	} else if delivered {
		t.Fatalf("%s: wire value %s is outside the field's range [%d, %s] but the client delivered %s instead of reporting an error", f.name, n, f.min, f.max, got)
	}
	return legal
}

func TestPropNumbers(t *testing.T) {
	rapid.Check(t, func(t *rapid.T) {
		f := rapid.SampledFrom(numFields).Draw(t, "field")
		var n string
		switch rapid.IntRange(0, 3).Draw(t, "numkind") {
		case 0:
			n = rapid.SampledFrom([]string{"0", "1", "2", "4294967294", "4294967295", "4294967296", "4294967297", "8589934592", "8589934593", "9223372036854775807", "9223372036854775808",
				"18446744073709551615", "18446744073709551616", "18446744073709551617", "36893488147419103233"}).Draw(t, "boundary")
		case 1:
			n = fmt.Sprint(rapid.Uint64().Draw(t, "u64"))
		case 2:
			n = fmt.Sprint(rapid.Uint32().Draw(t, "u32"))
		default:
			n = strings.TrimLeft(rapid.StringMatching(`[1-9][0-9]{0,24}`).Draw(t, "digits"), "0")
		}
		legal := checkNumber(t, f, n)
		ev.Eval()
		ev.NonTrivial("num:" + f.name + ":" + n)
		ev.Class(fmt.Sprintf("numbers:legal=%v", legal))
	})
}
