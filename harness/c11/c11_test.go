// Package c11 decides property C11: the client never panics or blows up on
// arbitrary server bytes, and protocol-invariant violations are reported as
// errors instead of being delivered. A byte stream (grammar-generated responses
// of every kind, mutations of them, raw garbage) is fed to a real imapclient
// that has one command of every response-consuming kind pending and all
// unilateral handlers installed; every accessor of every value handed back is
// then invoked.
package c11

import (
	"encoding/json"
	"fmt"
	"os"
	"os/exec"
	"runtime"
	"runtime/debug"
	"strconv"
	"strings"
	"sync"
	"testing"
	"time"

	imap "github.com/emersion/go-imap/v2"
	"github.com/emersion/go-imap/v2/imapclient"
	"github.com/emersion/go-imap/v2/verifh/kit/ev"
	"github.com/emersion/go-imap/v2/verifh/kit/pipe"
	"github.com/emersion/go-imap/v2/verifh/kit/respgen"
	"pgregory.net/rapid"
)

func TestMain(m *testing.M) { ev.Main(m) }

type fataler interface {
	Fatalf(format string, args ...any)
}

func clip(s string) string {
	if len(s) > 700 {
		return s[:500] + "…" + s[len(s)-150:]
	}
	return s
}

// persist writes the case about to be executed, so that a process-killing
// panic in a library goroutine can be attributed by the driver.
func persist(stream []byte) {
	path := os.Getenv("VERIF_INFLIGHT")
	if path == "" {
		return
	}
	b, _ := json.Marshal(map[string]any{"property": "C11", "what": "server byte stream fed to the client when the process died", "stream": string(stream)})
	os.WriteFile(path, b, 0o644)
}

func unpersist() {
	if path := os.Getenv("VERIF_INFLIGHT"); path != "" {
		os.Remove(path)
	}
}

// delivered collects everything the client handed back.
type delivered struct {
	mu         sync.Mutex
	items      []string // rendered for samples
	violations []string
}

func (d *delivered) violate(f string, a ...any) {
	d.mu.Lock()
	d.violations = append(d.violations, fmt.Sprintf(f, a...))
	d.mu.Unlock()
}

func (d *delivered) note(f string, a ...any) {
	d.mu.Lock()
	if len(d.items) < 40 {
		d.items = append(d.items, fmt.Sprintf(f, a...))
	}
	d.mu.Unlock()
}

// safely runs an accessor; a panic is a violation.
func (d *delivered) safely(what string, f func()) {
	defer func() {
		if r := recover(); r != nil {
			d.violate("accessor %s panicked: %v", what, r)
		}
	}()
	f()
}

func (d *delivered) checkNumSet(what string, s imap.NumSet, inputLen int) {
	if s == nil {
		return
	}
	d.safely(what+".Dynamic/String", func() {
		if s.Dynamic() {
			d.violate("%s: an open-ended ('*' / '$') number set %q was delivered as a result", what, s.String())
		}
		_ = s.String()
	})
	width := uint64(0)
	zero := false
	switch v := s.(type) {
	case imap.SeqSet:
		for _, r := range v {
			if r.Start == 0 || r.Stop == 0 {
				zero = true
			} else {
				width += uint64(r.Stop-r.Start) + 1
			}
		}
	case imap.UIDSet:
		for _, r := range v {
			if r.Start == 0 || r.Stop == 0 {
				zero = true
			} else {
				width += uint64(r.Stop-r.Start) + 1
			}
		}
	}
	if zero {
		return
	}
	if width > uint64(16*inputLen+64) {
		// enumeration accessors are linear in the numeric width the server chose
		// (listed finding F-C11d): not invoked
		ev.Excluded("F-C11d")
		return
	}
	d.safely(what+".Nums", func() {
		switch v := s.(type) {
		case imap.SeqSet:
			nums, _ := v.Nums()
			for _, n := range nums {
				if n == 0 {
					d.violate("%s: sequence number 0 delivered", what)
				}
			}
		case imap.UIDSet:
			nums, _ := v.Nums()
			for _, n := range nums {
				if n == 0 {
					d.violate("%s: UID 0 delivered", what)
				}
			}
		}
	})
}

func (d *delivered) walkBody(bs imap.BodyStructure) {
	if bs == nil {
		return
	}
	d.safely("BodyStructure accessors", func() {
		n := 0
		bs.Walk(func(path []int, part imap.BodyStructure) bool {
			n++
			_ = part.MediaType()
			_ = part.Disposition()
			if sp, ok := part.(*imap.BodyStructureSinglePart); ok {
				_ = sp.Filename()
				if sp.MessageRFC822 != nil && sp.MessageRFC822.Envelope != nil {
					for _, a := range sp.MessageRFC822.Envelope.From {
						_ = a.Addr()
					}
				}
			}
			return true
		})
		_ = bs.MediaType()
	})
}

func (d *delivered) checkBuffer(what string, b *imapclient.FetchMessageBuffer) {
	if b == nil {
		return
	}
	if b.SeqNum == 0 {
		d.violate("%s: FETCH data for sequence number 0 delivered", what)
	}
	if b.Envelope != nil {
		d.safely("Envelope accessors", func() {
			for _, l := range [][]imap.Address{b.Envelope.From, b.Envelope.Sender, b.Envelope.ReplyTo, b.Envelope.To, b.Envelope.Cc, b.Envelope.Bcc} {
				for _, a := range l {
					_, _, _ = a.Addr(), a.IsGroupStart(), a.IsGroupEnd()
				}
			}
		})
	}
	d.walkBody(b.BodyStructure)
	d.note("%s: seq=%d uid=%d flags=%v sections=%d", what, b.SeqNum, b.UID, b.Flags, len(b.BodySection))
}

// runStream feeds stream to a client with the full battery pending and
// returns what was delivered plus the reader's error.
// reauth: run UNAUTHENTICATE + LOGIN + SELECT before the battery (set by the
// property for a share of the cases).
var reauth bool

func runStream(t fataler, stream []byte, what string) (*delivered, error) {
	persist(stream)
	defer unpersist()
	d := &delivered{}
	cEnd, sEnd := pipe.New()
	// the "server": discards what the client writes
	go func() {
		buf := make([]byte, 65536)
		for {
			if _, err := sEnd.Read(buf); err != nil {
				return
			}
		}
	}()
	var wg sync.WaitGroup
	spawn := func(f func()) {
		wg.Add(1)
		go func() {
			defer wg.Done()
			f()
		}()
	}
	opts := &imapclient.Options{UnilateralDataHandler: &imapclient.UnilateralDataHandler{
		Expunge: func(n uint32) {
			if n == 0 {
				d.violate("EXPUNGE of sequence number 0 delivered to the unilateral handler")
			}
		},
		Mailbox: func(m *imapclient.UnilateralDataMailbox) { d.note("mailbox update %+v", m) },
		Fetch: func(msg *imapclient.FetchMessageData) {
			buf, _ := msg.Collect()
			d.checkBuffer("unilateral FETCH", buf)
		},
		Metadata: func(mailbox string, entries []string) { d.note("metadata %q %v", mailbox, entries) },
	}}
	sEnd.Write([]byte("* OK [CAPABILITY IMAP4rev1 UIDPLUS MOVE ESEARCH ENABLE SORT THREAD=REFERENCES QUOTA METADATA NAMESPACE LITERAL+] ready\r\n"))
	c := imapclient.New(cEnd, opts)
	login := c.Login("u", "p")    // T1
	sel := c.Select("INBOX", nil) // T2
	// (completions are written only after the commands are registered)
	sEnd.Write([]byte("T1 OK [CAPABILITY IMAP4rev1 UIDPLUS MOVE ESEARCH ENABLE SORT THREAD=REFERENCES QUOTA METADATA NAMESPACE LITERAL+] in\r\n* 9 EXISTS\r\n* FLAGS (\\Seen)\r\nT2 OK [READ-WRITE] selected\r\n"))
	login.Wait()
	sel.Wait()
	firstTag := 3
	if reauth {
		// the connection has a history: UNAUTHENTICATE and a second LOGIN precede
		// the battery (what the client resets then is used by later responses)
		un := c.Unauthenticate() // T3
		sEnd.Write([]byte("T3 OK [CAPABILITY IMAP4rev1 UIDPLUS MOVE ESEARCH ENABLE SORT THREAD=REFERENCES QUOTA METADATA NAMESPACE LITERAL+ UNAUTHENTICATE] unauthenticated\r\n"))
		un.Wait()
		login2 := c.Login("u", "p") // T4
		sel3 := c.Select("INBOX", nil) // T5
		sEnd.Write([]byte("T4 OK [CAPABILITY IMAP4rev1 UIDPLUS MOVE ESEARCH ENABLE SORT THREAD=REFERENCES QUOTA METADATA NAMESPACE LITERAL+] in\r\n* 9 EXISTS\r\nT5 OK [READ-WRITE] selected\r\n"))
		login2.Wait()
		sel3.Wait()
		firstTag = 6
	}
	n := len(stream)
	// the battery: one pending command of every response-consuming kind
	capCmd := c.Capability()
	listCmd := c.List("", "*", &imap.ListOptions{ReturnStatus: &imap.StatusOptions{NumMessages: true}})
	st1, st2 := c.Status("INBOX", &imap.StatusOptions{NumMessages: true}), c.Status("box", &imap.StatusOptions{NumMessages: true})
	var seqs imap.SeqSet
	seqs.AddRange(1, 10)
	fetchCmd := c.Fetch(seqs, &imap.FetchOptions{Flags: true, Envelope: true, BodyStructure: &imap.FetchItemBodyStructure{Extended: true}, BodySection: []*imap.FetchItemBodySection{{}}})
	searchCmd := c.UIDSearch(&imap.SearchCriteria{}, &imap.SearchOptions{ReturnAll: true, ReturnMin: true})
	search2 := c.Search(&imap.SearchCriteria{}, nil)
	sortCmd := c.Sort(&imapclient.SortOptions{SearchCriteria: &imap.SearchCriteria{}, SortCriteria: []imapclient.SortCriterion{{Key: imapclient.SortKeyDate}}})
	threadCmd := c.Thread(&imapclient.ThreadOptions{Algorithm: imap.ThreadReferences, SearchCriteria: &imap.SearchCriteria{}})
	quotaCmd, quotaRootCmd := c.GetQuota("root"), c.GetQuotaRoot("INBOX")
	metaCmd := c.GetMetadata("INBOX", []string{"/shared/comment"}, nil)
	nsCmd := c.Namespace()
	copyCmd := c.Copy(imap.SeqSetNum(1), "dest")
	moveCmd := c.Move(imap.SeqSetNum(2), "dest")
	expCmd := c.Expunge()
	enableCmd := c.Enable(imap.CapUTF8Accept)
	sel2 := c.Select("other", nil)
	lastTag := firstTag + 17 // the battery: 18 commands
	// consumers of streaming commands must run while the reader works
	spawn(func() {
		bufs, _ := fetchCmd.Collect()
		for _, b := range bufs {
			d.checkBuffer("FETCH", b)
		}
	})
	spawn(func() {
		l, _ := listCmd.Collect()
		for _, x := range l {
			d.note("list %q delim=%q", x.Mailbox, x.Delim)
		}
	})
	spawn(func() {
		nums, _ := expCmd.Collect()
		d.note("expunged %v", nums)
	})
	// feed the stream, complete every tag, end the connection
	sEnd.Write(stream)
	var tail strings.Builder
	for i := firstTag; i <= lastTag; i++ {
		fmt.Fprintf(&tail, "T%d OK done\r\n", i)
	}
	sEnd.Write([]byte(tail.String()))
	sEnd.CloseWrite()
	// every Wait must return
	done := make(chan struct{})
	var readerErr error
	go func() {
		defer close(done)
		if caps, err := capCmd.Wait(); err == nil {
			d.note("caps %d", len(caps))
		}
		for _, s := range []*imapclient.StatusCommand{st1, st2} {
			if sd, err := s.Wait(); err == nil && sd.NumMessages != nil {
				d.note("status %q %d", sd.Mailbox, *sd.NumMessages)
			}
		}
		for _, sc := range []*imapclient.SearchCommand{searchCmd, search2} {
			if sd, err := sc.Wait(); err == nil {
				d.checkNumSet("SEARCH result", sd.All, n)
				if all, ok := sd.All.(imap.SeqSet); ok && !all.Dynamic() && setWidth(all) <= uint64(16*n+64) {
					d.safely("SearchData.AllSeqNums", func() { _ = sd.AllSeqNums() })
				}
				if all, ok := sd.All.(imap.UIDSet); ok && !all.Dynamic() && uidSetWidth(all) <= uint64(16*n+64) {
					d.safely("SearchData.AllUIDs", func() { _ = sd.AllUIDs() })
				}
			}
		}
		if nums, err := sortCmd.Wait(); err == nil {
			for _, x := range nums {
				if x == 0 {
					d.violate("SORT result contains message number 0")
				}
			}
		}
		if th, err := threadCmd.Wait(); err == nil {
			var walk func(l []imapclient.ThreadData)
			walk = func(l []imapclient.ThreadData) {
				for _, x := range l {
					for _, num := range x.Chain {
						if num == 0 {
							d.violate("THREAD result contains message number 0")
						}
					}
					walk(x.SubThreads)
				}
			}
			walk(th)
		}
		quotaCmd.Wait()
		quotaRootCmd.Wait()
		metaCmd.Wait()
		nsCmd.Wait()
		if cd, err := copyCmd.Wait(); err == nil {
			d.checkNumSet("COPYUID source", cd.SourceUIDs, n)
			d.checkNumSet("COPYUID destination", cd.DestUIDs, n)
		}
		if md, err := moveCmd.Wait(); err == nil && md != nil {
			d.checkNumSet("MOVE COPYUID source", md.SourceUIDs, n)
			d.checkNumSet("MOVE COPYUID destination", md.DestUIDs, n)
		}
		enableCmd.Wait()
		sel2.Wait()
		wg.Wait()
		readerErr = c.Close()
	}()
	select {
	case <-done:
	case <-time.After(20 * time.Second):
		buf := make([]byte, 1<<20)
		buf = buf[:runtime.Stack(buf, true)]
		t.Fatalf("%s: the client did not finish within 20s on stream %q\n%s", what, clip(string(stream)), clipStacks(string(buf)))
	}
	sEnd.Close()
	if readerErr != nil && strings.Contains(readerErr.Error(), "panic reading response") {
		d.violate("the client's reader panicked: %s", clip(readerErr.Error()))
	}
	_ = c.Mailbox()
	_ = c.State()
	return d, readerErr
}

func setWidth(s imap.SeqSet) uint64 {
	var w uint64
	for _, r := range s {
		w += uint64(r.Stop-r.Start) + 1
	}
	return w
}

func uidSetWidth(s imap.UIDSet) uint64 {
	var w uint64
	for _, r := range s {
		w += uint64(r.Stop-r.Start) + 1
	}
	return w
}

func clipStacks(s string) string {
	var keep []string
	for _, g := range strings.Split(s, "\n\n") {
		if strings.Contains(g, "imapclient") {
			keep = append(keep, g)
		}
	}
	out := strings.Join(keep, "\n\n")
	if len(out) > 5000 {
		out = out[:5000]
	}
	return out
}

var tagPool = []string{"T3", "T4", "T7", "T9", "T10", "T16", "T17", "T18", "T22"}

var hostile = []string{"(", "((((((((", ")", "{", "{5}", "{99999999999999999999}", "{9223372036854775807}\r\n", "~{3}\r\nabc", "\x00", "\xff\xfe", "\"", "\\", "[", "]", "*", "NIL", " ", "\r\n", "\n",
	"* 0 EXPUNGE\r\n", "* 0 FETCH (UID 0)\r\n", "* SEARCH 0\r\n", "* SORT 0\r\n", "* THREAD (0)\r\n", "* ESEARCH UID ALL *\r\n", "* ESEARCH ALL 1:*\r\n", "* 1 FETCH (BODY[] NIL)\r\n",
	"* 77 FETCH (BODY[] NIL)\r\n", "T16 OK [COPYUID 1 * 2] x\r\n", "T16 OK [COPYUID 1 1:* 2:*] x\r\n", "* ESEARCH ALL 1:4294967295\r\n", "* SEARCH 4294967295\r\n"}

func genStream(t *rapid.T) (stream string, mode string, kinds []string) {
	mode = rapid.SampledFrom([]string{"grammar", "grammar", "mutated", "mutated", "raw"}).Draw(t, "mode")
	var sb strings.Builder
	switch mode {
	case "grammar", "mutated":
		for i, n := 0, rapid.IntRange(1, 8).Draw(t, "nlines"); i < n; i++ {
			k := rapid.SampledFrom(respgen.Kinds).Draw(t, "kind")
			kinds = append(kinds, k)
			sb.WriteString(respgen.Line(t, k, tagPool))
		}
		if rapid.IntRange(0, 3).Draw(t, "hostileline") == 2 {
			sb.WriteString(rapid.SampledFrom(hostile[19:]).Draw(t, "hline"))
		}
		stream = sb.String()
		if mode == "mutated" {
			b := []byte(stream)
			for i, n := 0, rapid.IntRange(1, 4).Draw(t, "nmut"); i < n; i++ {
				pos := rapid.IntRange(0, len(b)).Draw(t, "pos")
				switch rapid.IntRange(0, 4).Draw(t, "mut") {
				case 0:
					ins := rapid.SampledFrom(hostile).Draw(t, "ins")
					b = append(b[:pos:pos], append([]byte(ins), b[pos:]...)...)
				case 1:
					end := pos + rapid.IntRange(1, 8).Draw(t, "dlen")
					if end > len(b) {
						end = len(b)
					}
					b = append(b[:pos:pos], b[end:]...)
				case 2:
					if pos < len(b) {
						b[pos] = rapid.Byte().Draw(t, "byte")
					}
				case 3:
					b = b[:pos]
				default:
					ins := strings.Repeat(rapid.SampledFrom(hostile[:19]).Draw(t, "rep"), rapid.IntRange(2, 30).Draw(t, "nrep"))
					b = append(b[:pos:pos], append([]byte(ins), b[pos:]...)...)
				}
			}
			stream = string(b)
		}
	default:
		for i, n := 0, rapid.IntRange(1, 10).Draw(t, "nchunks"); i < n; i++ {
			if rapid.Bool().Draw(t, "hostile") {
				sb.WriteString(rapid.SampledFrom(hostile).Draw(t, "h"))
			} else {
				sb.Write(rapid.SliceOfN(rapid.Byte(), 0, 12).Draw(t, "bytes"))
			}
		}
		stream = sb.String()
	}
	return stream, mode, kinds
}

func TestPropStream(t *testing.T) {
	rapid.Check(t, func(t *rapid.T) {
		stream, mode, kinds := genStream(t)
		reauth = rapid.IntRange(0, 3).Draw(t, "reauth") == 0
		defer func() { reauth = false }()
		if reauth {
			ev.Class("history:unauthenticate+login-before-the-stream")
		}
		d, rerr := runStream(t, []byte(stream), mode)
		if len(d.violations) > 0 {
			t.Fatalf("[%s reauth=%v] %s\nstream: %q\nreader error: %v", mode, reauth, strings.Join(d.violations, "\n"), clip(stream), rerr)
		}
		ev.Eval()
		ev.Class("mode:" + mode)
		for _, k := range kinds {
			ev.Class("kind:" + k)
		}
		if rerr == nil {
			ev.Class("stream-fully-accepted")
		} else {
			ev.Class("stream-rejected-with-error")
		}
		if len(d.items) > 0 || mode != "raw" {
			ev.NonTrivial(stream)
		}
		ev.Sample(fmt.Sprintf("[%s] %q -> err=%v delivered=%d", mode, clip(stream), rerr != nil, len(d.items)))
	})
}

// ---------------------------------------------------------------- regressions and probes

func TestReplayFindings(t *testing.T) {
	cases := []string{
		"* SEARCH 0\r\n", "* SEARCH 1 0 2\r\n", "* 5 FETCH (BODY[] NIL)\r\n", "* 77 FETCH (BODY[] NIL)\r\n", "* 77 FETCH (BINARY[] NIL FLAGS ())\r\n", "* 0 EXPUNGE\r\n", "* 0 FETCH (FLAGS ())\r\n",
		"* 3 FETCH (UID 0)\r\n", "* SORT 0 1\r\n", "* THREAD (0 1)\r\n", "* THREAD (1 (0))\r\n", "* ESEARCH UID ALL 1:*\r\n", "* ESEARCH ALL *\r\n", "* ESEARCH (TAG \"T9\") UID MIN 0\r\n",
		"T16 OK [COPYUID 1 0 1] x\r\n", "T16 OK [COPYUID 1 1:* 2:*] x\r\n", "T3 OK [APPENDUID 1 0] x\r\n", "* ESEARCH ALL 1:4294967295\r\n", "* SEARCH 4294967295\r\n", "* ESEARCH (TAG \"T9\") UID ALL 4294967290:4294967295\r\n",
		"* 1 FETCH (BINARY.SIZE[1] 42)\r\n", "* STATUS INBOX (MESSAGES 4294967296)\r\n", "* 1 FETCH (RFC822.SIZE 9223372036854775808)\r\n", "* 1 FETCH (BODYSTRUCTURE (\"text\" \"plain\" NIL NIL NIL \"7bit\" -1 1))\r\n",
	}
	for _, s := range cases {
		d, rerr := runStream(t, []byte(s), "regression")
		if len(d.violations) > 0 {
			t.Errorf("stream %q: %s (reader error: %v)", s, strings.Join(d.violations, "; "), rerr)
		}
		ev.Eval()
		ev.NonTrivial("reg:" + s)
	}
}

// nesting families for the recursion probe
var nestFamilies = []struct {
	name  string
	build func(d int) string
}{
	{"BODYSTRUCTURE multipart", func(d int) string {
		return "* 1 FETCH (BODYSTRUCTURE " + strings.Repeat("(", d) + `"text" "plain" NIL NIL NIL "7bit" 1 1` + strings.Repeat(` "mixed")`, d) + ")\r\n"
	}},
	{"BODYSTRUCTURE open parens only", func(d int) string { return "* 1 FETCH (BODYSTRUCTURE " + strings.Repeat("(", d) + "\r\n" }},
	{"BODY message/rfc822 chain", func(d int) string {
		env := `(NIL NIL NIL NIL NIL NIL NIL NIL NIL NIL)`
		return "* 1 FETCH (BODY " + strings.Repeat(`("message" "rfc822" NIL NIL NIL "7bit" 1 `+env+" ", d) + `("text" "plain" NIL NIL NIL "7bit" 1 1)` + strings.Repeat(" 1)", d) + ")\r\n"
	}},
	{"THREAD nesting", func(d int) string {
		return "* THREAD " + strings.Repeat("(1 ", d) + "(2)" + strings.Repeat(")", d) + "\r\n"
	}},
	{"LIST extended data nesting", func(d int) string {
		return `* LIST () "/" box ("X" ` + strings.Repeat("(", d) + "1" + strings.Repeat(")", d) + ")\r\n"
	}},
	{"body extension data nesting", func(d int) string {
		return `* 1 FETCH (BODYSTRUCTURE ("text" "plain" NIL NIL NIL "7bit" 1 1 NIL NIL NIL NIL ` + strings.Repeat("(", d) + "1" + strings.Repeat(")", d) + "))\r\n"
	}},
	{"STATUS unknown item nesting", func(d int) string {
		return "* STATUS INBOX (X-FUTURE " + strings.Repeat("(", d) + "1" + strings.Repeat(")", d) + ")\r\n"
	}},
	{"NAMESPACE extension nesting", func(d int) string {
		return `* NAMESPACE (("" "/" "X" ` + strings.Repeat("(", d) + `"v"` + strings.Repeat(")", d) + ")) NIL NIL\r\n"
	}},
}

func TestChildNesting(t *testing.T) {
	if os.Getenv("VERIF_CHILD") != "1" {
		t.Skip("child-process helper")
	}
	debug.SetMaxStack(32 << 20)
	fi, _ := strconv.Atoi(os.Getenv("VERIF_CASE"))
	depth, _ := strconv.Atoi(os.Getenv("VERIF_DEPTH"))
	stream := nestFamilies[fi].build(depth)
	// the cap must not depend on what the connection has seen before: a
	// prefix of ordinary responses full of empty lists (no flags, no
	// attributes) precedes the nested one
	if n, _ := strconv.Atoi(os.Getenv("VERIF_EMPTYLISTS")); n > 0 {
		var b strings.Builder
		for i := 0; i < n; i++ {
			switch i % 3 {
			case 0:
				fmt.Fprintf(&b, "* %d FETCH (FLAGS ())\r\n", i+1)
			case 1:
				fmt.Fprintf(&b, "* LIST () \"/\" box%d\r\n", i)
			default:
				b.WriteString("* FLAGS ()\r\n")
			}
		}
		stream = b.String() + stream
	}
	var before, after runtime.MemStats
	runtime.ReadMemStats(&before)
	d, rerr := runStream(t, []byte(stream), "nesting")
	runtime.ReadMemStats(&after)
	if len(d.violations) > 0 {
		t.Fatalf("%s x %d: %s", nestFamilies[fi].name, depth, strings.Join(d.violations, "; "))
	}
	if depth > 1000 && rerr == nil {
		t.Fatalf("%s: nesting depth %d (beyond the decoder's cap of 1000) was accepted and delivered", nestFamilies[fi].name, depth)
	}
	fmt.Printf("CHILD-OK alloc=%d input=%d\n", after.TotalAlloc-before.TotalAlloc, len(stream))
}

func TestReplayNesting(t *testing.T) {
	for fi, fam := range nestFamilies {
		for di, depth := range []int{10, 999, 1001, 5000, 100000, 1001, 5000} {
			emptyLists := 0
			if di >= 5 {
				emptyLists = 9000 // history of the connection before the nested response
			}
			cmd := exec.Command(os.Args[0], "-test.run", "^TestChildNesting$", "-test.v")
			cmd.Env = append(os.Environ(), "VERIF_CHILD=1", "VERIF_CASE="+strconv.Itoa(fi), "VERIF_DEPTH="+strconv.Itoa(depth), "VERIF_EMPTYLISTS="+strconv.Itoa(emptyLists), "VERIF_OUT=", "VERIF_INFLIGHT=")
			out, err := cmd.CombinedOutput()
			ev.Eval()
			ev.NonTrivial(fmt.Sprint("nest", fam.name, depth, emptyLists))
			ev.Class("nesting-probe")
			if err != nil || !strings.Contains(string(out), "CHILD-OK") {
				s := string(out)
				if len(s) > 1800 {
					s = s[:1800]
				}
				t.Fatalf("nesting probe %q at depth %d (after %d empty lists on the connection): the client process failed (%v):\n%s", fam.name, depth, emptyLists, err, s)
			}
			// resource linearity: allocation at most 300 bytes per input byte + 8 MiB
			var alloc, input int64
			if i := strings.Index(string(out), "CHILD-OK"); i >= 0 {
				fmt.Sscanf(string(out)[i:], "CHILD-OK alloc=%d input=%d", &alloc, &input)
			}
			if alloc > 300*input+32<<20 {
				t.Fatalf("nesting probe %q at depth %d: %d bytes allocated for %d input bytes (super-linear growth)", fam.name, depth, alloc, input)
			}
		}
	}
	ev.Sample("nesting probe: 8 recursive productions x depths {10,999,1001,5000,100000}, child process with a 32 MiB stack cap; allocation <= 300 B per input byte + 32 MiB (nested error messages are quadratic in the capped depth)")
}

// TestReplayScaling: allocation grows at most linearly with the input for
// scalable flat families (n and 4n).
func TestReplayScaling(t *testing.T) {
	families := map[string]func(n int) string{
		"many FETCH lines": func(n int) string { return strings.Repeat("* 1 FETCH (FLAGS (\\Seen) UID 5)\r\n", n) },
		"long SEARCH line": func(n int) string { return "* SEARCH" + strings.Repeat(" 7", n) + "\r\n" },
		"long flag list":   func(n int) string { return "* FLAGS (" + strings.Repeat("kw ", n) + "x)\r\n" },
		"many LIST lines":  func(n int) string { return strings.Repeat("* LIST () \"/\" box\r\n", n) },
		"big literal": func(n int) string {
			return fmt.Sprintf("* 1 FETCH (BODY[] {%d}\r\n%s)\r\n", n*10, strings.Repeat("x", n*10))
		},
		"long THREAD chain": func(n int) string { return "* THREAD (" + strings.Repeat("1 ", n) + "2)\r\n" },
	}
	for name, build := range families {
		var allocs [2]uint64
		for i, n := range []int{2000, 8000} {
			var before, after runtime.MemStats
			runtime.GC()
			runtime.ReadMemStats(&before)
			d, _ := runStream(t, []byte(build(n)), "scaling")
			runtime.ReadMemStats(&after)
			allocs[i] = after.TotalAlloc - before.TotalAlloc
			if len(d.violations) > 0 {
				t.Fatalf("%s: %v", name, d.violations)
			}
			ev.Eval()
			ev.NonTrivial(fmt.Sprint("scale", name, n))
		}
		// 4x the input may cost at most 8x the allocation (+2 MiB slack)
		if allocs[1] > 8*allocs[0]+2<<20 {
			t.Fatalf("%s: allocation grew from %d to %d bytes when the input grew 4x (super-linear)", name, allocs[0], allocs[1])
		}
		ev.Class("scaling-probe")
	}
}

// FuzzClientBytes: coverage-guided search over raw server bytes (thorough tier).
func FuzzClientBytes(f *testing.F) {
	for _, h := range hostile {
		f.Add([]byte(h))
	}
	f.Add([]byte("* 1 FETCH (UID 5 FLAGS (\\Seen) BODY[] {5}\r\nhello ENVELOPE (NIL \"s\" NIL NIL NIL NIL NIL NIL NIL NIL))\r\n"))
	f.Add([]byte("* LIST (\\Noselect) \"/\" box (\"CHILDINFO\" (\"SUBSCRIBED\"))\r\n* STATUS box (MESSAGES 3)\r\n"))
	f.Add([]byte("* ESEARCH (TAG \"T8\") UID ALL 1:3,5 COUNT 4\r\n* SORT 3 1 2\r\n* THREAD (1 (2)(3 4))\r\n"))
	f.Add([]byte("* 2 FETCH (BODYSTRUCTURE ((\"text\" \"plain\" (\"charset\" \"utf-8\") NIL NIL \"7bit\" 1 1)(\"message\" \"rfc822\" NIL NIL NIL \"7bit\" 9 (NIL NIL NIL NIL NIL NIL NIL NIL NIL NIL) (\"text\" \"plain\" NIL NIL NIL \"7bit\" 1 1) 1) \"mixed\"))\r\n"))
	f.Add([]byte("* QUOTA root (STORAGE 1 2)\r\n* QUOTAROOT INBOX root\r\n* METADATA INBOX (/shared/comment \"x\")\r\n* NAMESPACE ((\"\" \"/\")) NIL NIL\r\nT16 OK [COPYUID 1 1:2 3:4] ok\r\n"))
	f.Fuzz(func(t *testing.T, data []byte) {
		if len(data) > 1<<16 {
			return
		}
		d, rerr := runStream(t, data, "fuzz")
		if len(d.violations) > 0 {
			t.Fatalf("%s\nstream: %q\nreader error: %v", strings.Join(d.violations, "\n"), clip(string(data)), rerr)
		}
	})
}

// TestKnownEnumerationWidth: F-C11d - the enumeration accessors are linear in
// the numeric width of the set the server chose, not in the input size.
func TestKnownEnumerationWidth(t *testing.T) {
	stream := "* ESEARCH (TAG \"T8\") UID ALL 1:3000000\r\n"
	var sd imap.SearchData
	sd.All = func() imap.NumSet { var u imap.UIDSet; u.AddRange(1, 3000000); return u }()
	sd.UID = true
	var before, after runtime.MemStats
	runtime.ReadMemStats(&before)
	n := len(sd.AllUIDs())
	runtime.ReadMemStats(&after)
	alloc := after.TotalAlloc - before.TotalAlloc
	ev.Eval()
	ev.Known("F-C11d", n == 3000000 && alloc > 1000*uint64(len(stream)))
}
