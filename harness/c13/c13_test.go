// Package c13 decides property C13: the client is safe for concurrent use.
// The schedule space cannot be enumerated from a test: this check SAMPLES it -
// generated programs (who submits what, and how/when the connection dies) run
// as many short trials under the race detector. Oracle: no data race report,
// pairwise distinct tags on the wire, every submitted command's wait returns
// (exactly once; a double completion makes the library panic), Close returns.
package c13

import (
	"bytes"
	"errors"
	"fmt"
	"os"
	"runtime"
	"strings"
	"sync"
	"sync/atomic"
	"testing"
	"time"

	imap "github.com/emersion/go-imap/v2"
	"github.com/emersion/go-imap/v2/imapclient"
	"github.com/emersion/go-imap/v2/verifh/kit/ev"
	"github.com/emersion/go-imap/v2/verifh/kit/script"
	"pgregory.net/rapid"
)

func TestMain(m *testing.M) { ev.Main(m) }

type disruptor struct {
	kind  string // none, server-close, server-close-midline, client-close
	after int    // responses (server) or submissions (client) before it fires
}

type trial struct {
	workers [][]string
	dis     disruptor
	reorder bool
	// noLitMinus: the server does not advertise LITERAL-, so every literal of
	// the client is a synchronising one
	noLitMinus bool
	// refuse: the k-th synchronising literal is answered with a tagged NO
	// instead of a continuation request (0 = never)
	refuse int
	// logoutGrace: number of further responses the server still sends after
	// it has answered LOGOUT before it closes the connection
	logoutGrace int
	// noise: seed of the write-point jitter (0 = none)
	noise uint64
}

func (tr trial) String() string {
	return fmt.Sprintf("workers=%v disruptor=%+v reorder=%v noLitMinus=%v refuse=%d logoutGrace=%d", tr.workers, tr.dis, tr.reorder, tr.noLitMinus, tr.refuse, tr.logoutGrace) + fmt.Sprintf(" noise=%x", tr.noise)
}

var opNames = []string{"Noop", "Status", "Fetch", "Search", "UIDSearch", "AppendSync", "AppendNonSync", "List", "Capability", "Caps", "State", "Mailbox", "Enable", "Store", "Idle", "Login",
	"Noop", "Status", "Fetch", "BigFetchCollect", "BigFetchLag", "BigFetchLag", "LoginLit", "Search2", "Logout", "FetchBigLiteral", "FetchBigLiteral", "Mailbox", "Noop", "AppendCloseTwice", "AppendCloseTwice", "ListLagCut", "NoopLate", "NoopLate"}

const bigN = 300

// server is the scripted peer: answers every command promptly.
type server struct {
	s         *script.Server
	tr        trial
	mu        sync.Mutex
	tags      map[string]int
	responses int
	logins    int
	stores    int
	cutNow    bool
	refused   int
	inflight  *int64
	atDisrupt int64
	errs      []string
	done      chan struct{}
}

const capsLitMinus = "IMAP4rev1 ESEARCH UIDPLUS ENABLE IDLE LITERAL- UTF8=ACCEPT"
const capsNoLit = "IMAP4rev1 ESEARCH UIDPLUS ENABLE IDLE UTF8=ACCEPT"

func (sv *server) reply(cmd *script.Command) string {
	tag := cmd.Tag
	caps := capsLitMinus
	if sv.tr.noLitMinus {
		caps = capsNoLit
	}
	body := strings.Repeat("message body line\r\n", 12)
	switch cmd.Name {
	case "CAPABILITY":
		return "* CAPABILITY " + caps + "\r\n" + tag + " OK done\r\n"
	case "LOGIN":
		// the first LOGIN carries the capabilities; later ones (issued by
		// workers) do not, which makes the client drop its cached capabilities
		// and refresh them with a CAPABILITY command of its own, concurrently
		// with everything else
		sv.mu.Lock()
		sv.logins++
		first := sv.logins == 1
		sv.mu.Unlock()
		if first {
			return tag + " OK [CAPABILITY " + caps + "] in\r\n"
		}
		return tag + " OK in\r\n"
	case "SELECT":
		return "* 5 EXISTS\r\n* FLAGS (\\Seen)\r\n" + tag + " OK [READ-WRITE] done\r\n"
	case "STATUS":
		return "* STATUS box (MESSAGES 3)\r\n" + tag + " OK done\r\n"
	case "LIST":
		if bytes.Contains(cmd.Raw, []byte("cut")) {
			// more mailboxes (each with its STATUS) than the client buffers,
			// then the connection is cut instead of the tagged completion
			var b strings.Builder
			for i := 0; i < 70; i++ {
				fmt.Fprintf(&b, "* LIST () \"/\" cut%d\r\n* STATUS cut%d (MESSAGES %d)\r\n", i, i, i)
			}
			sv.mu.Lock()
			sv.cutNow = true
			sv.mu.Unlock()
			return b.String()
		}
		return "* LIST () \"/\" a\r\n* LIST () \"/\" b\r\n" + tag + " OK done\r\n"
	case "LOGOUT":
		return "* BYE logging out\r\n" + tag + " OK done\r\n"
	case "NOOP":
		// unilateral mailbox updates: the client's mailbox summary changes
		// while other goroutines read it
		return "* 1 EXPUNGE\r\n* 5 EXISTS\r\n* FLAGS (\\Seen \\Deleted)\r\n* OK [PERMANENTFLAGS (\\Seen)] ok\r\n" + tag + " OK done\r\n"
	case "FETCH":
		if bytes.Contains(cmd.Raw, []byte(" 7 ")) {
			// one message with a large body literal; the server loop sends it
			// in several pieces (see loop)
			big := strings.Repeat("0123456789abcdef", 8192)
			return fmt.Sprintf("* 7 FETCH (BODY[] {%d}\r\n%s)\r\n%s OK done\r\n", len(big), big, tag)
		}
		if bytes.Contains(cmd.Raw, []byte(fmt.Sprintf(" 1:%d ", bigN))) {
			var b strings.Builder
			for i := 1; i <= bigN; i++ {
				fmt.Fprintf(&b, "* %d FETCH (FLAGS (\\Seen))\r\n", i)
			}
			return b.String() + tag + " OK done\r\n"
		}
		return fmt.Sprintf("* 1 FETCH (FLAGS (\\Seen) BODY[] {%d}\r\n%s)\r\n* 2 FETCH (FLAGS ())\r\n%s OK done\r\n", len(body), body, tag)
	case "STORE":
		// message data of varying width without any literal: 1..40 data
		// items in one FETCH response (the reader buffers a message's items
		// before its consumer shows up)
		sv.mu.Lock()
		sv.stores++
		width := []int{1, 16, 17, 24, 32, 33, 40, 2}[sv.stores%8]
		sv.mu.Unlock()
		var b strings.Builder
		b.WriteString("* 1 FETCH (FLAGS (\\Seen)")
		for k := 1; k < width; k++ {
			// (body sections, even quoted or NIL ones, are handed over early
			// by the client; sizes are plain data items)
			switch {
			case k == 1:
				b.WriteString(" UID 1")
			case k == 2:
				b.WriteString(" RFC822.SIZE 42")
			case k == 3:
				b.WriteString(" INTERNALDATE \"01-Jan-2024 00:00:00 +0000\"")
			default:
				fmt.Fprintf(&b, " BINARY.SIZE[%d] %d", k, k)
			}
		}
		b.WriteString(")\r\n")
		return b.String() + tag + " OK done\r\n"
	case "SEARCH":
		return "* SEARCH 1 2 3\r\n" + tag + " OK done\r\n"
	case "UID SEARCH":
		return "* ESEARCH (TAG \"" + tag + "\") UID ALL 1:3\r\n" + tag + " OK done\r\n"
	case "APPEND":
		return tag + " OK [APPENDUID 1 9] done\r\n"
	case "ENABLE":
		return "* ENABLED UTF8=ACCEPT\r\n" + tag + " OK done\r\n"
	}
	return tag + " OK done\r\n"
}

func (sv *server) errf(f string, a ...any) {
	sv.mu.Lock()
	sv.errs = append(sv.errs, fmt.Sprintf(f, a...))
	sv.mu.Unlock()
}

func (sv *server) loop() {
	defer close(sv.done)
	s := sv.s
	caps := capsLitMinus
	if sv.tr.noLitMinus {
		caps = capsNoLit
	}
	s.Send("* OK [CAPABILITY " + caps + "] ready\r\n")
	var held []string
	syncLits := 0
	s.OnLiteral = func(ev *script.LiteralEvent) script.Decision {
		syncLits++
		if syncLits == sv.tr.refuse {
			return script.Refuse
		}
		return script.Accept
	}
	afterLogout := -1
	for {
		cmd, err := s.ReadCommand()
		if err != nil {
			return
		}
		sv.mu.Lock()
		sv.tags[cmd.Tag]++
		dup := sv.tags[cmd.Tag] > 1
		sv.mu.Unlock()
		if dup {
			sv.errf("tag %q was used for two commands", cmd.Tag)
		}
		var out string
		if cmd.Refused {
			sv.mu.Lock()
			sv.refused++
			sv.mu.Unlock()
			out = cmd.Tag + " NO literal refused\r\n"
		} else if cmd.Name == "IDLE" {
			s.Send("+ idling\r\n")
			if l, err := s.ReadRawLine(); err != nil || l != "DONE" {
				return
			}
			out = cmd.Tag + " OK idle done\r\n"
		} else {
			out = sv.reply(cmd)
		}
		sv.responses++
		if afterLogout >= 0 {
			afterLogout++
			if afterLogout > sv.tr.logoutGrace {
				s.Close()
				return
			}
		} else if cmd.Name == "LOGOUT" && !cmd.Refused {
			afterLogout = 0
		}
		if sv.tr.dis.kind == "server-close" && sv.responses > sv.tr.dis.after {
			sv.atDisrupt = atomic.LoadInt64(sv.inflight)
			s.Close()
			return
		}
		if sv.tr.dis.kind == "server-close-midline" && sv.responses > sv.tr.dis.after {
			sv.atDisrupt = atomic.LoadInt64(sv.inflight)
			s.Send(out[:len(out)/2])
			s.Close()
			return
		}
		if sv.tr.reorder && s.Pending() > 0 && len(held) < 3 {
			// more commands are already waiting: hold this answer and send the
			// batch in reverse order (tagged responses may be reordered)
			held = append(held, out)
			continue
		}
		if len(out) > 100000 {
			// a big literal arrives in pieces, with the consumer reading in between
			for len(out) > 0 {
				n := 30000
				if n > len(out) {
					n = len(out)
				}
				s.Send(out[:n])
				out = out[n:]
				time.Sleep(300 * time.Microsecond)
			}
		} else {
			s.Send(out)
		}
		sv.mu.Lock()
		cut := sv.cutNow
		sv.mu.Unlock()
		if cut {
			s.Close()
			return
		}
		for i := len(held) - 1; i >= 0; i-- {
			s.Send(held[i])
		}
		held = nil
	}
}

type fataler interface {
	Fatalf(format string, args ...any)
}

func stacks() string {
	buf := make([]byte, 1<<20)
	buf = buf[:runtime.Stack(buf, true)]
	var keep []string
	for _, g := range strings.Split(string(buf), "\n\n") {
		if strings.Contains(g, "imapclient") {
			keep = append(keep, g)
		}
	}
	s := strings.Join(keep, "\n\n")
	if len(s) > 5000 {
		s = s[:5000]
	}
	return s
}

// runTrial executes one trial; it returns how many commands were in flight
// when the disruption happened.
// persist records the trial about to run, so that the driver can attribute a
// process-killing panic in a library goroutine (e.g. a second completion:
// "close of closed channel") to it.
func persist(tr trial) {
	if path := os.Getenv("VERIF_INFLIGHT"); path != "" {
		os.WriteFile(path, []byte(fmt.Sprintf("{\"property\":\"C13\",\"what\":\"trial running when the process died\",\"trial\":%q}", tr.String())), 0o644)
	}
}

func unpersist() {
	if path := os.Getenv("VERIF_INFLIGHT"); path != "" {
		os.Remove(path)
	}
}

func runTrial(t fataler, tr trial) int64 {
	persist(tr)
	defer unpersist()
	clientEnd, s := script.New()
	// lastActivity: when the last byte was written by either side. A call that
	// is overdue is only a hang if the connection has been silent as well; on
	// an overloaded machine bytes keep trickling.
	var lastActivity int64
	atomic.StoreInt64(&lastActivity, time.Now().UnixNano())
	touch := func([]byte) { atomic.StoreInt64(&lastActivity, time.Now().UnixNano()) }
	clientEnd.OnWrite = touch
	s.Conn.OnWrite = touch
	silentFor := func() time.Duration { return time.Since(time.Unix(0, atomic.LoadInt64(&lastActivity))) }
	if tr.noise != 0 {
		// schedule noise at the only points the harness owns: every network
		// write of the client and of the scripted server is followed, with a
		// seeded pseudo-random choice, by a yield or a short sleep
		var ctr uint64
		jitter := func(b []byte) {
			touch(b)
			x := atomic.AddUint64(&ctr, 1)*0x9E3779B97F4A7C15 ^ tr.noise
			x ^= x >> 29
			x *= 0xBF58476D1CE4E5B9
			x ^= x >> 32
			switch x % 8 {
			case 0:
				runtime.Gosched()
			case 1:
				time.Sleep(time.Duration(x>>40%200) * time.Microsecond)
			}
		}
		clientEnd.OnWrite = jitter
		s.Conn.OnWrite = jitter
	}
	var inflight int64
	sv := &server{s: s, tr: tr, tags: map[string]int{}, inflight: &inflight, done: make(chan struct{})}
	go sv.loop()
	c := imapclient.New(clientEnd, nil)
	var submissions int64
	var hist []string
	var hmu sync.Mutex
	note := func(f string, a ...any) {
		hmu.Lock()
		hist = append(hist, fmt.Sprintf(f, a...))
		hmu.Unlock()
	}
	failed := make(chan string, 64)
	// wait runs one blocking wait under the watchdog
	wait := func(who, what string, f func() error) {
		atomic.AddInt64(&inflight, 1)
		n := atomic.AddInt64(&submissions, 1)
		if tr.dis.kind == "client-close" && int(n) == tr.dis.after+1 {
			sv.atDisrupt = atomic.LoadInt64(&inflight)
			go c.Close()
		}
		if tr.dis.kind == "client-write-error" && int(n) == tr.dis.after+1 {
			sv.atDisrupt = atomic.LoadInt64(&inflight)
			clientEnd.FailWrites(errors.New("injected write failure"))
		}
		done := make(chan error, 1)
		go func() { done <- f() }()
		select {
		case err := <-done:
			note("%s %s -> %v", who, what, err != nil)
		case <-time.After(15 * time.Second):
			// overdue. It is a hang if nothing moves any more: no byte has been
			// written by either side for 10 s (otherwise the machine is merely
			// slow: keep waiting, up to 3 minutes)
			limit := time.Now().Add(3 * time.Minute)
		patient:
			for {
				select {
				case err := <-done:
					note("%s %s -> %v (late)", who, what, err != nil)
					break patient
				case <-time.After(500 * time.Millisecond):
				}
				if silentFor() > 10*time.Second || time.Now().After(limit) {
					failed <- fmt.Sprintf("%s: %s did not return within 15s and the connection has been silent for %v (submitted command never completed)", who, what, silentFor().Round(time.Second))
					break patient
				}
			}
		}
		atomic.AddInt64(&inflight, -1)
	}
	// set-up (sequential): login + select
	wait("main", "Login", func() error { return c.Login("u", "p").Wait() })
	wait("main", "Select", func() error { _, err := c.Select("INBOX", nil).Wait(); return err })
	var wg sync.WaitGroup
	for wi, ops := range tr.workers {
		wg.Add(1)
		go func(wi int, ops []string) {
			defer wg.Done()
			who := fmt.Sprintf("g%d", wi)
			for _, op := range ops {
				switch op {
				case "Noop":
					wait(who, op, func() error { return c.Noop().Wait() })
				case "Status":
					wait(who, op, func() error { _, err := c.Status("box", &imap.StatusOptions{NumMessages: true}).Wait(); return err })
				case "Fetch":
					wait(who, op, func() error {
						_, err := c.Fetch(imap.SeqSetNum(1, 2), &imap.FetchOptions{Flags: true, BodySection: []*imap.FetchItemBodySection{{}}}).Collect()
						return err
					})
				case "BigFetchCollect":
					wait(who, op, func() error {
						// (how FETCH data is shared between overlapping FETCH/STORE commands of different goroutines is not judged here)
						_, err := c.Fetch(imap.SeqSet{imap.SeqRange{Start: 1, Stop: bigN}}, &imap.FetchOptions{Flags: true}).Collect()
						return err
					})
				case "BigFetchLag":
					// a consumer that lags behind (more than the client buffers)
					// and looks at the client's state between messages; the
					// stream is consumed and closed as the contract demands.
					// (It does not submit commands before the stream is drained:
					// a submission may have to wait for another goroutine's
					// literal, whose continuation request the blocked decoder
					// cannot deliver - a deadlock made by the caller.)
					wait(who, op, func() error {
						cmd := c.Fetch(imap.SeqSet{imap.SeqRange{Start: 1, Stop: bigN}}, &imap.FetchOptions{Flags: true})
						time.Sleep(3 * time.Millisecond)
						n := 0
						for {
							msg := cmd.Next()
							if msg == nil {
								break
							}
							for msg.Next() != nil {
							}
							n++
							if n%40 == 0 {
								_ = c.State()
								_ = c.Mailbox()
							}
						}
						err := cmd.Close()
						return err
					})
				case "FetchBigLiteral":
					// a body literal streamed to the caller in small reads while
					// other goroutines (and the disruptor) do their thing
					wait(who, op, func() error {
						cmd := c.Fetch(imap.SeqSetNum(7), &imap.FetchOptions{BodySection: []*imap.FetchItemBodySection{{}}})
						buf := make([]byte, 1500)
						for msg := cmd.Next(); msg != nil; msg = cmd.Next() {
							for item := msg.Next(); item != nil; item = msg.Next() {
								if bs, ok := item.(imapclient.FetchItemDataBodySection); ok && bs.Literal != nil {
									for {
										if _, err := bs.Literal.Read(buf); err != nil {
											break
										}
									}
								}
							}
						}
						return cmd.Close()
					})
				case "Logout":
					wait(who, op, func() error { return c.Logout().Wait() })
				case "LoginLit":
					// two literals in one command (8-bit user and password, UTF8=ACCEPT not necessarily enabled)
					wait(who, op, func() error { return c.Login("üser", "pässword").Wait() })
				case "Search2":
					wait(who, op, func() error {
						_, err := c.Search(&imap.SearchCriteria{Body: []string{"é", "ü"}, Text: []string{"ö"}}, nil).Wait()
						return err
					})
				case "Store":
					wait(who, op, func() error {
						return c.Store(imap.SeqSetNum(1), &imap.StoreFlags{Op: imap.StoreFlagsAdd, Flags: []imap.Flag{imap.FlagSeen}}, nil).Close()
					})
				case "Search":
					wait(who, op, func() error { _, err := c.Search(&imap.SearchCriteria{Body: []string{"é"}}, nil).Wait(); return err })
				case "UIDSearch":
					wait(who, op, func() error {
						_, err := c.UIDSearch(&imap.SearchCriteria{}, &imap.SearchOptions{ReturnAll: true}).Wait()
						return err
					})
				case "AppendSync", "AppendNonSync", "AppendCloseTwice":
					size := 20
					if op == "AppendSync" {
						size = 5000
					}
					wait(who, op, func() error {
						cmd := c.Append("box", int64(size), nil)
						cmd.Write(bytes.Repeat([]byte("x"), size))
						cmd.Close()
						_, err := cmd.Wait()
						if op == "AppendCloseTwice" {
							// closing a finished command again (a deferred Close after
							// the explicit one) must not touch what other goroutines
							// are writing meanwhile
							runtime.Gosched()
							cmd.Close()
						}
						return err
					})
				case "List":
					wait(who, op, func() error { _, err := c.List("", "*", nil).Collect(); return err })
				case "ListLagCut":
					// LIST ... RETURN (STATUS) whose consumer shows up late; the
					// server cuts the connection after 70 mailboxes: the read
					// goroutine finishes the command while its results are
					// still waiting to be consumed
					wait(who, op, func() error {
						cmd := c.List("", "cut*", &imap.ListOptions{ReturnStatus: &imap.StatusOptions{NumMessages: true}})
						time.Sleep(20 * time.Millisecond)
						for cmd.Next() != nil {
						}
						return cmd.Close()
					})
				case "NoopLate":
					// a command submitted a little later (e.g. while another
					// goroutine's results are still being handed over)
					time.Sleep(time.Duration(2+4*wi) * time.Millisecond)
					wait(who, op, func() error { return c.Noop().Wait() })
				case "Capability":
					wait(who, op, func() error { _, err := c.Capability().Wait(); return err })
				case "Enable":
					wait(who, op, func() error { _, err := c.Enable(imap.CapUTF8Accept).Wait(); return err })
				case "Idle":
					wait(who, op, func() error {
						idle, err := c.Idle()
						if err != nil {
							return err
						}
						idle.Close()
						return idle.Wait()
					})
				case "Login":
					wait(who, op, func() error { return c.Login("u", "p").Wait() })
				case "Caps":
					// blocks until a pending capability refresh completes
					wait(who, op, func() error { _ = c.Caps(); return nil })
				case "State":
					_ = c.State()
				case "Mailbox":
					// a snapshot: reading it must not race with later updates
					if mb := c.Mailbox(); mb != nil {
						n := mb.NumMessages + uint32(len(mb.Flags)+len(mb.PermanentFlags)+len(mb.Name))
						for _, f := range mb.Flags {
							n += uint32(len(f))
						}
						runtime.Gosched()
						if mb2 := c.Mailbox(); mb2 != nil {
							n += mb2.NumMessages + mb.NumMessages
						}
						_ = n
					}
				}
			}
		}(wi, ops)
	}
	allDone := make(chan struct{})
	go func() { wg.Wait(); close(allDone) }()
	fail := func(msg string) {
		hmu.Lock()
		h := strings.Join(hist, "; ")
		hmu.Unlock()
		if len(h) > 1500 {
			h = "…" + h[len(h)-1500:]
		}
		t.Fatalf("%s\ntrial: %s\nhistory: %s\nclient goroutines:\n%s", msg, tr, h, stacks())
	}
	select {
	case <-allDone:
	case msg := <-failed:
		fail(msg)
	case <-time.After(6 * time.Minute):
		fail("workers did not finish within 6 minutes")
	}
	select {
	case msg := <-failed:
		fail(msg)
	default:
	}
	closed := make(chan struct{})
	go func() { c.Close(); close(closed) }()
	select {
	case <-closed:
	case <-time.After(15 * time.Second):
		// same rule: overdue and silent
		for wait := 0; ; wait++ {
			select {
			case <-closed:
			case <-time.After(time.Second):
				if silentFor() > 10*time.Second || wait > 120 {
					fail("Client.Close() did not return within 15s")
				}
				continue
			}
			break
		}
	}
	s.Close()
	<-sv.done
	sv.mu.Lock()
	defer sv.mu.Unlock()
	if len(sv.errs) > 0 {
		fail(strings.Join(sv.errs, "; "))
	}
	return sv.atDisrupt
}

func genTrial(t *rapid.T) trial {
	var tr trial
	n := rapid.IntRange(2, 8).Draw(t, "workers")
	for i := 0; i < n; i++ {
		var ops []string
		for j, k := 0, rapid.IntRange(1, 5).Draw(t, "nops"); j < k; j++ {
			ops = append(ops, rapid.SampledFrom(opNames).Draw(t, "op"))
		}
		tr.workers = append(tr.workers, ops)
	}
	tr.dis.kind = rapid.SampledFrom([]string{"none", "server-close", "server-close", "server-close-midline", "client-close", "client-close", "client-write-error", "client-write-error"}).Draw(t, "disruptor")
	tr.dis.after = rapid.IntRange(2, 12).Draw(t, "after")
	tr.reorder = rapid.Bool().Draw(t, "reorder")
	tr.noLitMinus = rapid.Bool().Draw(t, "noLitMinus")
	tr.refuse = rapid.SampledFrom([]int{0, 0, 1, 2, 3}).Draw(t, "refuse")
	tr.logoutGrace = rapid.IntRange(0, 6).Draw(t, "logoutGrace")
	if rapid.Bool().Draw(t, "noisy") {
		tr.noise = rapid.Uint64Min(1).Draw(t, "noise")
	}
	return tr
}

func TestPropConcurrent(t *testing.T) {
	procs := []int{2, 4, 16}
	rapid.Check(t, func(t *rapid.T) {
		tr := genTrial(t)
		old := runtime.GOMAXPROCS(rapid.SampledFrom(procs).Draw(t, "gomaxprocs"))
		defer runtime.GOMAXPROCS(old)
		inflight := runTrial(t, tr)
		ev.Eval()
		if inflight >= 2 {
			ev.NonTrivial(tr.String())
			ev.Class("in-flight-at-disruption>=2")
		}
		ev.Class(fmt.Sprintf("in-flight-at-disruption=%d", min64(inflight, 8)))
		ev.Class("disruptor:" + tr.dis.kind)
		ev.Sample(tr.String())
	})
}

func min64(a, b int64) int64 {
	if a < b {
		return a
	}
	return b
}

// TestReplayScenarios: fixed programs aimed at the previously found races
// (command registration vs connection loss; ENABLE vs SEARCH), many repetitions.
func TestReplayScenarios(t *testing.T) {
	reps := 150
	if ev.Thorough() {
		reps = 2000
	}
	for i := 0; i < reps; i++ {
		runTrial(t, trial{workers: [][]string{{"Noop", "Status"}, {"Capability", "Noop"}, {"Status", "Noop"}, {"Noop"}}, dis: disruptor{kind: "server-close", after: 2 + i%4}})
		runTrial(t, trial{workers: [][]string{{"Enable", "Noop"}, {"Search", "Search"}, {"UIDSearch", "Caps"}}, dis: disruptor{kind: "none"}})
		runTrial(t, trial{workers: [][]string{{"Fetch", "Noop"}, {"AppendSync"}, {"State", "Mailbox", "List"}}, dis: disruptor{kind: "client-close", after: 3 + i%3}, reorder: true})
		runTrial(t, trial{workers: [][]string{{"Login", "Noop"}, {"Search", "Search", "Search"}, {"Caps", "UIDSearch", "Caps"}, {"Idle", "Caps"}}, dis: disruptor{kind: "none"}})
		// LOGOUT completed while the server keeps the connection open, a lagging
		// streaming FETCH, and a write failure in a third goroutine
		runTrial(t, trial{workers: [][]string{{"Logout", "BigFetchLag"}, {"Noop", "Noop", "Noop"}, {"Status", "Noop"}}, dis: disruptor{kind: "client-write-error", after: 3 + i%4}, logoutGrace: 6})
		// refused literal of a multi-literal command, then more literal commands
		runTrial(t, trial{workers: [][]string{{"LoginLit", "AppendSync"}, {"Search2", "AppendSync"}}, dis: disruptor{kind: "none"}, noLitMinus: true, refuse: 1 + i%3})
		// backlogged FETCH streams while other goroutines look at the client
		runTrial(t, trial{workers: [][]string{{"BigFetchLag"}, {"State", "Mailbox", "Noop", "State"}, {"BigFetchCollect"}}, dis: disruptor{kind: "none"}})
		// Client.Close while a body literal is being streamed to a caller
		runTrial(t, trial{workers: [][]string{{"FetchBigLiteral"}, {"Noop", "Noop", "Noop"}}, dis: disruptor{kind: "client-close", after: 3 + i%2}})
		// mailbox summary read by several goroutines while unilateral updates arrive
		runTrial(t, trial{workers: [][]string{{"ListLagCut"}, {"NoopLate", "Noop"}, {"NoopLate"}, {"NoopLate", "State"}}, dis: disruptor{kind: "none"}})
		runTrial(t, trial{workers: [][]string{{"Mailbox", "Mailbox", "Mailbox", "Mailbox"}, {"Noop", "Noop", "Noop"}, {"Mailbox", "Noop", "Mailbox"}}, dis: disruptor{kind: "none"}})
		// a finished APPEND closed a second time while other goroutines are in the middle of theirs
		runTrial(t, trial{workers: [][]string{{"AppendCloseTwice", "AppendCloseTwice"}, {"AppendSync", "AppendSync"}, {"Noop", "Search2", "Noop"}, {"AppendCloseTwice", "Idle"}}, dis: disruptor{kind: "none"}, noLitMinus: true})
		ev.EvalN(10)
	}
	ev.NonTrivial("scenario:append-closed-twice-vs-other-writers")
	ev.NonTrivial("scenario:close-during-literal-streaming")
	ev.NonTrivial("scenario:mailbox-snapshot-vs-updates")
	ev.NonTrivial("scenario:write-error-after-logout-during-fetch")
	ev.NonTrivial("scenario:refused-literal-then-literals")
	ev.NonTrivial("scenario:backlogged-fetch-vs-state")
	ev.NonTrivial("scenario:capability-refresh-vs-commands")
	ev.NonTrivial("scenario:registration-vs-connection-loss")
	ev.NonTrivial("scenario:enable-vs-search")
	ev.NonTrivial("scenario:fetch-append-vs-client-close")
	_ = os.Getenv
}
