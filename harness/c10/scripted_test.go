package c10

// Second engine of the C10 check: grammar-generated client programs against a
// scripted server (kit/script) whose every byte goes through a budget; when the
// budget is used up the connection is cut cleanly, reset, stalled (then the
// caller closes the client) or the client's writes start failing. The
// transcripts are not recorded from a real server, so they reach what a real
// imapserver never produces: greetings and LOGIN completions without a
// CAPABILITY code (the client then asks on its own, concurrently with the
// caller's next command), literals of more than a megabyte, refused literals.
// Cut points are sampled (drawn by rapid), not enumerated.

import (
	"bytes"
	"errors"
	"fmt"
	"io"
	"strings"
	"sync"
	"testing"
	"time"

	imap "github.com/emersion/go-imap/v2"
	"github.com/emersion/go-imap/v2/imapclient"
	"github.com/emersion/go-imap/v2/verifh/kit/ev"
	"github.com/emersion/go-imap/v2/verifh/kit/script"
	"github.com/emersion/go-sasl"
	"pgregory.net/rapid"
)

type fataler interface {
	Fatalf(format string, args ...any)
}

type sCase struct {
	greetingCaps, loginCaps, litMinus bool
	ops                               []string
	fault                             string // none eof reset stall writeerr
	budget                            int    // server bytes before the fault
	hugeKiB                           int    // size of the FetchHuge literal
	refuse                            int    // the k-th synchronising literal is answered with a tagged NO (0 = never)
}

func (c sCase) String() string {
	return fmt.Sprintf("greetingCaps=%v loginCaps=%v LITERAL-=%v ops=%v fault=%s after %d server bytes huge=%dKiB refuse=%d", c.greetingCaps, c.loginCaps, c.litMinus, c.ops, c.fault, c.budget, c.hugeKiB, c.refuse)
}

var sOps = []string{"Authenticate", "Login", "LoginLiteral", "Capability", "Caps", "Select", "Status", "List", "ListStatus", "Fetch", "FetchManual", "FetchHuge", "Search",
	"AppendSync", "AppendSmall", "Idle", "Noop", "Enable", "Store", "Pipelined", "Logout", "LogoutPipelined"}

// sServer is the scripted peer with a byte budget.
type sServer struct {
	c       sCase
	s       *script.Server
	mu      sync.Mutex
	sent    int
	faulted bool
	stalled chan struct{}
	// completed[name] = number of commands of that name whose tagged completion was sent entirely
	completed map[string]int
	onFault   func()
	errs      []string
	done      chan struct{}
}

// send writes b unless the budget is exhausted; it reports whether all of b went out.
func (sv *sServer) send(b string) bool {
	sv.mu.Lock()
	defer sv.mu.Unlock()
	if sv.faulted && sv.c.fault != "writeerr" {
		return false
	}
	if sv.c.fault == "writeerr" {
		// the server keeps talking; from the budget on, the client's writes fail
		if !sv.faulted && sv.sent+len(b) > sv.c.budget {
			sv.faulted = true
			sv.onFault()
		}
		sv.s.Send(b)
		sv.sent += len(b)
		return true
	}
	room := len(b)
	if sv.c.fault != "none" && sv.sent+len(b) > sv.c.budget {
		room = sv.c.budget - sv.sent
		if room < 0 {
			room = 0
		}
	}
	if room > 0 {
		sv.s.Send(b[:room])
		sv.sent += room
	}
	if room < len(b) {
		sv.faulted = true
		sv.onFault()
		return false
	}
	return true
}

func (sv *sServer) caps() string {
	c := "IMAP4rev1 ESEARCH UIDPLUS ENABLE IDLE SASL-IR AUTH=PLAIN LIST-STATUS UTF8=ACCEPT"
	if sv.c.litMinus {
		c += " LITERAL-"
	}
	return c
}

func (sv *sServer) loop() {
	defer close(sv.done)
	s := sv.s
	if sv.c.greetingCaps {
		sv.send("* OK [CAPABILITY " + sv.caps() + "] ready\r\n")
	} else {
		sv.send("* OK ready\r\n")
	}
	nsync := 0
	s.OnLiteral = func(*script.LiteralEvent) script.Decision {
		nsync++
		if nsync == sv.c.refuse {
			return script.Refuse
		}
		return script.Accept
	}
	for {
		cmd, err := s.ReadCommand()
		if err != nil {
			return
		}
		tag := cmd.Tag
		if cmd.Refused {
			// a tagged NO instead of the continuation request: the command is
			// over, the connection stays usable
			if !sv.send(tag + " NO literal refused\r\n") {
				return
			}
			sv.mu.Lock()
			sv.completed[cmd.Name]++ // a completion (the call reports the NO)
			sv.mu.Unlock()
			continue
		}
		var data string
		status := tag + " OK done\r\n"
		switch cmd.Name {
		case "CAPABILITY":
			data = "* CAPABILITY " + sv.caps() + "\r\n"
		case "LOGIN":
			if sv.c.loginCaps {
				status = tag + " OK [CAPABILITY " + sv.caps() + "] in\r\n"
			}
		case "AUTHENTICATE":
			if !bytes.Contains(cmd.Raw, []byte(" PLAIN ")) {
				if !sv.send("+ \r\n") {
					return
				}
				if _, err := s.ReadRawLine(); err != nil {
					return
				}
			}
			if sv.c.loginCaps {
				status = tag + " OK [CAPABILITY " + sv.caps() + "] in\r\n"
			}
		case "SELECT":
			data = "* 3 EXISTS\r\n* FLAGS (\\Seen)\r\n* OK [UIDVALIDITY 7] ok\r\n"
			status = tag + " OK [READ-WRITE] done\r\n"
		case "STATUS":
			data = "* STATUS box (MESSAGES 3)\r\n"
		case "LIST":
			if bytes.Contains(cmd.Raw, []byte("RETURN")) {
				data = "* LIST () \"/\" a\r\n* STATUS a (MESSAGES 1)\r\n* LIST (\\Noselect) \"/\" b\r\n* LIST () \"/\" c\r\n* STATUS c (MESSAGES 2)\r\n"
			} else {
				data = "* LIST () \"/\" a\r\n* LIST () \"/\" b\r\n"
			}
		case "FETCH":
			body := strings.Repeat("message body line\r\n", 20)
			switch {
			case bytes.Contains(cmd.Raw, []byte(" 9 ")):
				huge := strings.Repeat("0123456789abcdef", sv.c.hugeKiB*64)
				data = fmt.Sprintf("* 9 FETCH (UID 9 BODY[] {%d}\r\n%s)\r\n", len(huge), huge)
			default:
				data = fmt.Sprintf("* 1 FETCH (FLAGS (\\Seen) UID 1 BODY[] {%d}\r\n%s)\r\n* 2 FETCH (UID 2 FLAGS () BODY[] {%d}\r\n%s)\r\n", len(body), body, len(body), body)
			}
		case "STORE":
			data = "* 1 FETCH (FLAGS (\\Seen))\r\n"
		case "SEARCH":
			data = "* SEARCH 1 2 3\r\n"
		case "UID SEARCH":
			data = "* ESEARCH (TAG \"" + tag + "\") UID ALL 1:3\r\n"
		case "APPEND":
			status = tag + " OK [APPENDUID 1 9] done\r\n"
		case "ENABLE":
			data = "* ENABLED UTF8=ACCEPT\r\n"
		case "IDLE":
			if !sv.send("+ idling\r\n") {
				return
			}
			if l, err := s.ReadRawLine(); err != nil || l != "DONE" {
				return
			}
		case "LOGOUT":
			data = "* BYE bye\r\n"
		}
		if data != "" && !sv.send(data) {
			return
		}
		if !sv.send(status) {
			return
		}
		sv.mu.Lock()
		sv.completed[cmd.Name]++
		sv.mu.Unlock()
		if cmd.Name == "LOGOUT" {
			s.Close()
			return
		}
	}
}

type sCall struct {
	name string
	cmds []string // IMAP command names whose completion this call waits for
	err  error
}

func runScripted(t fataler, c sCase) (faulted bool) {
	clientEnd, s := script.New()
	s.Timeout = 20 * time.Second
	sv := &sServer{c: c, s: s, stalled: make(chan struct{}), completed: map[string]int{}, done: make(chan struct{})}
	sv.onFault = func() {
		switch c.fault {
		case "eof":
			s.Close()
		case "reset":
			s.Conn.Reset(errors.New("connection reset by peer"))
		case "writeerr":
			clientEnd.FailWrites(errors.New("injected write failure"))
		case "stall":
			close(sv.stalled)
		}
	}
	go sv.loop()
	cl := imapclient.New(clientEnd, nil)
	var calls []sCall
	var cmu sync.Mutex
	rep := func(name string, err error, cmds ...string) {
		cmu.Lock()
		calls = append(calls, sCall{name, cmds, err})
		cmu.Unlock()
	}
	progDone := make(chan struct{})
	go func() {
		defer close(progDone)
		for _, op := range c.ops {
			switch op {
			case "Authenticate":
				rep(op, cl.Authenticate(sasl.NewPlainClient("", "u", "p")), "AUTHENTICATE")
			case "Login":
				rep(op, cl.Login("u", "p").Wait(), "LOGIN")
			case "LoginLiteral":
				rep(op, cl.Login("us\r\ner", "pa\r\nss").Wait(), "LOGIN") // two literals
			case "Capability":
				_, err := cl.Capability().Wait()
				rep(op, err)
			case "Caps":
				_ = cl.Caps()
				rep(op, nil)
			case "Select":
				_, err := cl.Select("INBOX", nil).Wait()
				rep(op, err, "SELECT")
			case "Status":
				_, err := cl.Status("box", &imap.StatusOptions{NumMessages: true}).Wait()
				rep(op, err, "STATUS")
			case "List":
				_, err := cl.List("", "*", nil).Collect()
				rep(op, err, "LIST")
			case "ListStatus":
				_, err := cl.List("", "*", &imap.ListOptions{ReturnStatus: &imap.StatusOptions{NumMessages: true}}).Collect()
				rep(op, err, "LIST")
			case "Fetch":
				_, err := cl.Fetch(imap.SeqSetNum(1, 2), &imap.FetchOptions{Flags: true, UID: true, BodySection: []*imap.FetchItemBodySection{{}}}).Collect()
				rep(op, err, "FETCH")
			case "FetchManual":
				cmd := cl.Fetch(imap.SeqSetNum(1, 2), &imap.FetchOptions{Flags: true, UID: true, BodySection: []*imap.FetchItemBodySection{{}}})
				for msg := cmd.Next(); msg != nil; msg = cmd.Next() {
					for item := msg.Next(); item != nil; item = msg.Next() {
						if bs, ok := item.(imapclient.FetchItemDataBodySection); ok && bs.Literal != nil {
							io.CopyBuffer(io.Discard, bs.Literal, make([]byte, 33))
						}
					}
				}
				rep(op, cmd.Close(), "FETCH")
			case "FetchHuge":
				_, err := cl.Fetch(imap.SeqSetNum(9), &imap.FetchOptions{UID: true, BodySection: []*imap.FetchItemBodySection{{}}}).Collect()
				rep(op, err, "FETCH")
			case "Search":
				_, err := cl.Search(&imap.SearchCriteria{Body: []string{"with \"quote"}}, nil).Wait()
				rep(op, err, "SEARCH")
			case "AppendSync", "AppendSmall":
				size := 12
				if op == "AppendSync" {
					size = 5000
				}
				cmd := cl.Append("box", int64(size), nil)
				_, werr := cmd.Write(bytes.Repeat([]byte("x"), size))
				cerr := cmd.Close()
				_, err := cmd.Wait()
				if err == nil {
					err = werr
				}
				if err == nil {
					err = cerr
				}
				rep(op, err, "APPEND")
			case "Idle":
				idle, err := cl.Idle()
				if err == nil {
					cerr := idle.Close()
					if err = idle.Wait(); err == nil {
						err = cerr
					}
				}
				rep(op, err, "IDLE")
			case "Noop":
				rep(op, cl.Noop().Wait(), "NOOP")
			case "Enable":
				_, err := cl.Enable(imap.CapUTF8Accept).Wait()
				rep(op, err, "ENABLE")
			case "Store":
				_, err := cl.Store(imap.SeqSetNum(1), &imap.StoreFlags{Op: imap.StoreFlagsAdd, Flags: []imap.Flag{imap.FlagSeen}}, nil).Collect()
				rep(op, err, "STORE")
			case "Pipelined":
				n, st := cl.Noop(), cl.Status("box", &imap.StatusOptions{NumMessages: true})
				f := cl.Fetch(imap.SeqSetNum(1, 2), &imap.FetchOptions{BodySection: []*imap.FetchItemBodySection{{}}})
				rep("Pipelined.Noop", n.Wait(), "NOOP")
				_, err := st.Wait()
				rep("Pipelined.Status", err, "STATUS")
				_, err = f.Collect()
				rep("Pipelined.Fetch", err, "FETCH")
			case "Logout":
				rep(op, cl.Logout().Wait(), "LOGOUT")
			case "LogoutPipelined":
				// the server completes LOGOUT and closes: what is sent behind it is never answered
				lo, n := cl.Logout(), cl.Noop()
				rep("Logout", lo.Wait(), "LOGOUT")
				rep("Noop(behind LOGOUT)", n.Wait(), "NOOP")
			}
		}
	}()
	describe := func() string {
		cmu.Lock()
		defer cmu.Unlock()
		var l []string
		for _, cl := range calls {
			l = append(l, fmt.Sprintf("%s=%v", cl.name, cl.err))
		}
		return strings.Join(l, ", ")
	}
	fail := func(f string, a ...any) {
		_, dump := clientGoroutines()
		t.Fatalf("scripted case [%s]: %s\ncalls so far: %s\nclient goroutines:\n%s", c, fmt.Sprintf(f, a...), describe(), dump)
	}
	select {
	case <-progDone:
	case <-sv.stalled:
		// the server stopped talking and no deadline of the client is near: the caller closes
		cd := make(chan struct{})
		go func() { cl.Close(); close(cd) }()
		select {
		case <-cd:
		case <-time.After(bound):
			fail("Client.Close() did not return within %v while the connection was stalled", bound)
		}
		select {
		case <-progDone:
		case <-time.After(bound):
			fail("after Client.Close() a blocking call of the program still did not return within %v", bound)
		}
	case <-time.After(2 * bound):
		fail("a blocking client call did not return within %v", 2*bound)
	}
	cd := make(chan struct{})
	go func() { cl.Close(); close(cd) }()
	select {
	case <-cd:
	case <-time.After(bound):
		fail("Client.Close() did not return within %v", bound)
	}
	s.Close()
	select {
	case <-sv.done:
	case <-time.After(bound):
	}
	deadline := time.Now().Add(3 * time.Second)
	for {
		n, dump := clientGoroutines()
		if n == 0 {
			break
		}
		if time.Now().After(deadline) {
			t.Fatalf("scripted case [%s]: %d imapclient goroutine(s) still alive after Close:\n%s", c, n, dump)
		}
		time.Sleep(100 * time.Microsecond)
	}
	// success only with a completion that was sent entirely
	sv.mu.Lock()
	defer sv.mu.Unlock()
	cmu.Lock()
	defer cmu.Unlock()
	seen := map[string]int{}
	for _, cl := range calls {
		for _, name := range cl.cmds {
			seen[name]++
			if cl.err == nil && seen[name] > sv.completed[name] {
				t.Fatalf("scripted case [%s]: %s returned success, but the tagged completion of its %s command (#%d of that name) was never sent entirely (%d completed)\ncalls: %v",
					c, cl.name, name, seen[name], sv.completed[name], calls)
			}
		}
	}
	return sv.faulted
}

func genScripted(t *rapid.T) sCase {
	c := sCase{greetingCaps: rapid.Bool().Draw(t, "greetingCaps"), loginCaps: rapid.Bool().Draw(t, "loginCaps"), litMinus: rapid.Bool().Draw(t, "literal-"),
		hugeKiB: rapid.SampledFrom([]int{64, 1024, 1025, 1600}).Draw(t, "hugeKiB")}
	n := rapid.IntRange(1, 6).Draw(t, "nops")
	for i := 0; i < n; i++ {
		op := rapid.SampledFrom(sOps).Draw(t, "op")
		if op == "FetchHuge" && rapid.IntRange(0, 2).Draw(t, "keephuge") != 0 {
			op = "Fetch"
		}
		c.ops = append(c.ops, op)
		if op == "Logout" || op == "LogoutPipelined" {
			break
		}
	}
	c.refuse = rapid.SampledFrom([]int{0, 0, 0, 1, 2, 3}).Draw(t, "refuse")
	c.fault = rapid.SampledFrom([]string{"none", "none", "eof", "eof", "reset", "reset", "stall", "writeerr"}).Draw(t, "fault")
	// budgets: mostly inside the first kilobyte (where the dialogue happens), sometimes deep inside a literal
	switch rapid.IntRange(0, 3).Draw(t, "budgetclass") {
	case 0:
		c.budget = rapid.IntRange(0, 120).Draw(t, "budget")
	case 1, 2:
		c.budget = rapid.IntRange(0, 1500).Draw(t, "budget")
	default:
		c.budget = rapid.IntRange(0, 1700*1024).Draw(t, "budget")
	}
	return c
}

// TestPropScripted: generated programs x generated server behaviour x sampled fault points.
func TestPropScripted(t *testing.T) {
	rapid.Check(t, func(t *rapid.T) {
		c := genScripted(t)
		faulted := runScripted(t, c)
		ev.Eval()
		if faulted {
			ev.NonTrivial("scripted:" + c.String())
			ev.Class("scripted:fault-fired:" + c.fault)
		} else {
			ev.Class("scripted:ran-to-completion")
		}
		if !c.greetingCaps {
			ev.Class("scripted:greeting-without-capabilities")
		}
		for _, op := range c.ops {
			ev.Class("scripted-op:" + op)
		}
		ev.Sample("scripted " + c.String())
	})
}

// TestReplayScripted: fixed cases (no fault) for the shapes a recorded real
// server never shows.
func TestReplayScripted(t *testing.T) {
	for _, c := range []sCase{
		{greetingCaps: false, loginCaps: false, ops: []string{"Authenticate", "Noop"}, fault: "none"},
		{greetingCaps: false, loginCaps: false, ops: []string{"Login", "Caps", "AppendSync"}, fault: "none"},
		{greetingCaps: true, loginCaps: false, ops: []string{"Login", "Authenticate", "Select", "FetchHuge", "Noop"}, fault: "none", hugeKiB: 1025},
		{greetingCaps: true, loginCaps: true, litMinus: true, ops: []string{"Login", "FetchHuge", "ListStatus", "Logout"}, fault: "none", hugeKiB: 1600},
		{greetingCaps: true, loginCaps: true, ops: []string{"Login", "Select", "FetchHuge"}, fault: "reset", budget: 1200 * 1024, hugeKiB: 1600},
		{greetingCaps: true, loginCaps: true, ops: []string{"Login", "Select", "FetchHuge"}, fault: "stall", budget: 1100 * 1024, hugeKiB: 1600},
		{greetingCaps: true, loginCaps: true, ops: []string{"LoginLiteral", "AppendSync", "Search", "Noop"}, fault: "none", refuse: 1},
		{greetingCaps: true, loginCaps: true, ops: []string{"Login", "AppendSync", "LoginLiteral", "AppendSync", "Noop"}, fault: "none", refuse: 2},
	} {
		runScripted(t, c)
		ev.Eval()
		ev.NonTrivial("scripted-fixed:" + c.String())
	}
}
