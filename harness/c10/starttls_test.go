package c10

// STARTTLS under faults. The upgrade happens inside the read goroutine while
// the caller of NewStartTLS waits on a channel, so a fault around the TLS
// negotiation is a place where a caller can be left waiting for ever.
//
// The recorded server stream is: greeting, STARTTLS completion, then TLS
// records. A replayed TLS negotiation can never succeed (the recorded
// ServerHello belongs to other key shares), which is fine: the property is
// about termination and about not reporting success for a command whose
// completion was not received, and in a replay no command sent after STARTTLS
// can have received one.

import (
	"fmt"
	"os"
	"strings"
	"sync"
	"testing"
	"time"

	imap "github.com/emersion/go-imap/v2"
	"github.com/emersion/go-imap/v2/imapclient"
	"github.com/emersion/go-imap/v2/imapserver"
	"github.com/emersion/go-imap/v2/verifh/kit/ev"
	"github.com/emersion/go-imap/v2/verifh/kit/pipe"
	"github.com/emersion/go-imap/v2/verifh/kit/srv"
	"github.com/emersion/go-imap/v2/verifh/kit/stub"
	"github.com/emersion/go-imap/v2/verifh/kit/tlsutil"
	"github.com/emersion/go-imap/v2/verifh/kit/tok"
)

func tlsProgram(c *imapclient.Client, rep func(string, int, error)) {
	rep("Noop", 1, c.Noop().Wait())
	rep("Login", 1, c.Login("u", "p").Wait())
	_, err := c.Select("INBOX", nil).Wait()
	rep("Select", 1, err)
}

// recordStartTLS captures NewStartTLS + tlsProgram against a real server.
// okEnd is the offset just past the STARTTLS completion.
func recordStartTLS(t *testing.T) (rec *recording, okEnd int) {
	core := newStub()
	env := srv.Start(imapserver.Options{
		NewSession: func(*imapserver.Conn) (imapserver.Session, *imapserver.GreetingData, error) {
			return stub.Session(core, stub.FAll&^stub.FSASL), nil, nil
		},
		TLSConfig: tlsutil.ServerConfig(),
		Caps:      imap.CapSet{imap.CapIMAP4rev1: {}},
	})
	defer env.Stop()
	c, s := pipe.New()
	rec = &recording{completionEnd: map[string]int{}}
	var mu sync.Mutex
	clientBytes := 0
	c.OnWrite = func(b []byte) {
		mu.Lock()
		clientBytes += len(b)
		mu.Unlock()
	}
	s.OnWrite = func(b []byte) {
		mu.Lock()
		for range b {
			rec.need = append(rec.need, clientBytes)
		}
		rec.server = append(rec.server, b...)
		mu.Unlock()
	}
	env.L.DialConn(s)
	done := make(chan struct{})
	var cl *imapclient.Client
	go func() {
		defer close(done)
		var err error
		cl, err = imapclient.NewStartTLS(c, &imapclient.Options{TLSConfig: tlsutil.ClientConfig()})
		if err != nil {
			t.Errorf("recording STARTTLS: %v", err)
			return
		}
		tlsProgram(cl, func(name string, _ int, err error) {
			if err != nil {
				t.Errorf("recording STARTTLS: %s failed without any fault: %v", name, err)
			}
		})
	}()
	select {
	case <-done:
	case <-time.After(10 * time.Second):
		t.Fatalf("recording STARTTLS did not finish")
	}
	if cl != nil {
		cl.Close()
	}
	time.Sleep(time.Millisecond)
	mu.Lock()
	defer mu.Unlock()
	rest := rec.server
	for len(rest) > 0 {
		l, n, err := tok.Next(rest, true)
		if err != nil {
			break
		}
		okEnd += n
		rest = rest[n:]
		if l.Status != "" && l.Tag != "*" {
			rec.completionEnd[l.Tag] = okEnd
			break
		}
	}
	if rec.completionEnd["T1"] == 0 || okEnd >= len(rec.server) {
		t.Fatalf("recording STARTTLS: no completion / no TLS records (okEnd=%d of %d)", okEnd, len(rec.server))
	}
	// TLS records: the replayed client's flights have the same shape but we do
	// not rely on their exact sizes; a server record becomes readable as soon
	// as the client has started the negotiation
	for i := okEnd; i < len(rec.need); i++ {
		if rec.need[i] > rec.need[okEnd-1]+1 {
			rec.need[i] = rec.need[okEnd-1] + 1
		}
	}
	return rec, okEnd
}

func replayStartTLS(t *testing.T, rec *recording, okEnd, cut int, kind faultKind) {
	fc := newFaultConn(rec, cut, kind)
	var calls []call
	var cmu sync.Mutex
	var c *imapclient.Client
	done := make(chan struct{})
	rep := func(name string, tags int, err error) {
		cmu.Lock()
		calls = append(calls, call{name, tags, err})
		cmu.Unlock()
	}
	go func() {
		defer close(done)
		cl, err := imapclient.NewStartTLS(fc, &imapclient.Options{TLSConfig: tlsutil.ClientConfig()})
		rep("NewStartTLS", 1, err)
		if err != nil {
			return
		}
		cmu.Lock()
		c = cl
		cmu.Unlock()
		tlsProgram(cl, rep)
	}()
	client := func() *imapclient.Client {
		cmu.Lock()
		defer cmu.Unlock()
		return c
	}
	describe := func() string {
		cmu.Lock()
		defer cmu.Unlock()
		var l []string
		for _, cl := range calls {
			l = append(l, fmt.Sprintf("%s=%v", cl.name, cl.err))
		}
		return strings.Join(l, ", ")
	}
	where := "inside the TLS records"
	if cut < okEnd {
		where = "in the cleartext part"
	}
	fail := func(f string, a ...any) {
		_, dump := clientGoroutines()
		t.Fatalf("STARTTLS, fault %s after %d of %d server bytes (%s; STARTTLS completion ends at %d): %s\ncalls so far: %s\nclient goroutines:\n%s",
			kind, cut, len(rec.server), where, okEnd, fmt.Sprintf(f, a...), describe(), dump)
	}
	closeAll := func() chan struct{} {
		cd := make(chan struct{})
		go func() {
			if cl := client(); cl != nil {
				cl.Close()
			} else {
				fc.Close() // NewStartTLS has not returned: the caller only has the connection
			}
			close(cd)
		}()
		return cd
	}
	select {
	case <-done:
	case <-fc.stalled:
		select {
		case <-closeAll():
		case <-time.After(bound):
			fail("closing the stalled connection did not return within %v", bound)
		}
		select {
		case <-done:
		case <-time.After(bound):
			fail("after the caller closed the stalled connection the blocking call still did not return within %v", bound)
		}
	case <-time.After(bound):
		fail("a blocking client call did not return within %v", bound)
	}
	select {
	case <-closeAll():
	case <-time.After(bound):
		fail("Close did not return within %v", bound)
	}
	deadline := time.Now().Add(3 * time.Second)
	for {
		n, dump := clientGoroutines()
		if n == 0 {
			break
		}
		if time.Now().After(deadline) {
			t.Fatalf("STARTTLS, fault %s after %d bytes: %d imapclient goroutine(s) still alive after Close:\n%s", kind, cut, n, dump)
		}
		time.Sleep(100 * time.Microsecond)
	}
	cmu.Lock()
	defer cmu.Unlock()
	for i, cl := range calls {
		if cl.err != nil {
			continue
		}
		if i == 0 && (kind == faultWriteErr || cut >= okEnd) {
			continue // STARTTLS completion fully received: success is right
		}
		if i == 0 {
			t.Fatalf("STARTTLS, fault %s after %d bytes: NewStartTLS returned success although the completion (ending at %d) was not fully received", kind, cut, okEnd)
		}
		t.Fatalf("STARTTLS, fault %s after %d bytes: %s returned success although no completion can have been received (the TLS negotiation of a replay cannot succeed)", kind, cut, cl.name)
	}
}

// TestEnumFaultsStartTLS: every byte offset of the NewStartTLS transcript
// (cleartext and TLS records) x 4 faults.
func TestEnumFaultsStartTLS(t *testing.T) {
	shard, nshard := 0, 1
	fmt.Sscan(os.Getenv("VERIF_SHARD"), &shard)
	fmt.Sscan(os.Getenv("VERIF_NSHARD"), &nshard)
	if nshard == 0 {
		nshard = 1
	}
	rec, okEnd := recordStartTLS(t)
	if t.Failed() {
		return
	}
	var total, inTLS int64
	for cut := 0; cut <= len(rec.server); cut++ {
		if cut%nshard != shard {
			continue
		}
		for _, kind := range []faultKind{faultEOF, faultReadErr, faultWriteErr, faultStall} {
			replayStartTLS(t, rec, okEnd, cut, kind)
			total++
			if cut > 0 && cut < len(rec.server) && (cut > okEnd || rec.server[cut-1] != '\n') {
				ev.NonTrivial(fmt.Sprintf("starttls@%d:%s", cut, kind))
			}
		}
		if cut >= okEnd {
			inTLS++
		}
	}
	ev.EvalN(total)
	ev.ClassN("offset-inside-tls-negotiation", inTLS)
	ev.Add("transcripts", 1)
	ev.Class("program:starttls+noop+login+select")
	ev.Sample(fmt.Sprintf("program NewStartTLS+Noop+Login+Select: %d server bytes (%d cleartext, then TLS records), every offset x {EOF, read error, write error, stall}", len(rec.server), okEnd))
}
