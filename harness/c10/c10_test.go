// Package c10 decides property C10: every client command terminates, whatever
// happens to the connection. Fault enumeration: client programs covering every
// command kind are first recorded against a real imapserver (stub backend);
// the recorded server byte stream is then replayed to a fresh client with a
// fault injected at EVERY byte offset: EOF, read error, write error, or stall
// (resolved by the client's own read deadline in virtual time, or - when none
// is armed - by the caller closing the client).
package c10

import (
	"bytes"
	"errors"
	"fmt"
	"io"
	"net"
	"os"
	"runtime"
	"strings"
	"sync"
	"testing"
	"time"

	"github.com/emersion/go-sasl"

	imap "github.com/emersion/go-imap/v2"
	"github.com/emersion/go-imap/v2/imapclient"
	"github.com/emersion/go-imap/v2/imapserver"
	"github.com/emersion/go-imap/v2/verifh/kit/ev"
	"github.com/emersion/go-imap/v2/verifh/kit/pipe"
	"github.com/emersion/go-imap/v2/verifh/kit/srv"
	"github.com/emersion/go-imap/v2/verifh/kit/stub"
	"github.com/emersion/go-imap/v2/verifh/kit/tok"
)

func TestMain(m *testing.M) { ev.Main(m) }

// ---------------------------------------------------------------- programs

// call is the outcome of one blocking client call of a program.
type call struct {
	name string
	tags int // how many commands (tags) this call issued
	err  error
}

// program runs blocking client calls and reports each call's outcome.
type program struct {
	name string
	run  func(c *imapclient.Client, report func(name string, tags int, err error))
}

func bodySection() *imap.FetchItemBodySection { return &imap.FetchItemBodySection{} }

var programs = []program{
	{"login+select+fetch-collect+logout", func(c *imapclient.Client, rep func(string, int, error)) {
		rep("Login", 1, c.Login("user\r\nwith literal", "pass").Wait())
		_, err := c.Select("INBOX", nil).Wait()
		rep("Select", 1, err)
		_, err = c.Fetch(imap.SeqSetNum(1, 2), &imap.FetchOptions{Flags: true, Envelope: true, BodySection: []*imap.FetchItemBodySection{bodySection()}}).Collect()
		rep("Fetch.Collect", 1, err)
		rep("Logout", 1, c.Logout().Wait())
	}},
	{"authenticate+list-status+status+namespace", func(c *imapclient.Client, rep func(string, int, error)) {
		rep("Authenticate", 1, c.Authenticate(sasl.NewPlainClient("", "u", "p")))
		_, err := c.List("", "*", &imap.ListOptions{ReturnStatus: &imap.StatusOptions{NumMessages: true}}).Collect()
		rep("List.Collect", 1, err)
		_, err = c.Status("box", &imap.StatusOptions{NumMessages: true, UIDNext: true}).Wait()
		rep("Status", 1, err)
		_, err = c.Namespace().Wait()
		rep("Namespace", 1, err)
	}},
	{"fetch-manual-next-read", func(c *imapclient.Client, rep func(string, int, error)) {
		rep("Login", 1, c.Login("u", "p").Wait())
		_, err := c.Select("INBOX", nil).Wait()
		rep("Select", 1, err)
		cmd := c.Fetch(imap.SeqSetNum(1, 2, 3), &imap.FetchOptions{UID: true, BodySection: []*imap.FetchItemBodySection{bodySection(), {Specifier: imap.PartSpecifierHeader}}})
		for {
			msg := cmd.Next()
			if msg == nil {
				break
			}
			for {
				item := msg.Next()
				if item == nil {
					break
				}
				if bs, ok := item.(imapclient.FetchItemDataBodySection); ok && bs.Literal != nil {
					buf := make([]byte, 7)
					for {
						if _, err := bs.Literal.Read(buf); err != nil {
							break
						}
					}
				}
			}
		}
		rep("Fetch.Close", 1, cmd.Close())
	}},
	{"fetch-closed-unread+search+store", func(c *imapclient.Client, rep func(string, int, error)) {
		rep("Login", 1, c.Login("u", "p").Wait())
		_, err := c.Select("INBOX", nil).Wait()
		rep("Select", 1, err)
		rep("Fetch.Close(unread)", 1, c.Fetch(imap.SeqSetNum(1, 2), &imap.FetchOptions{BodySection: []*imap.FetchItemBodySection{bodySection()}}).Close())
		_, err = c.UIDSearch(&imap.SearchCriteria{Body: []string{"x"}}, &imap.SearchOptions{ReturnAll: true}).Wait()
		rep("UIDSearch", 1, err)
		_, err = c.Store(imap.SeqSetNum(1), &imap.StoreFlags{Op: imap.StoreFlagsAdd, Flags: []imap.Flag{imap.FlagSeen}}, nil).Collect()
		rep("Store.Collect", 1, err)
	}},
	{"copy+move+expunge+unselect", func(c *imapclient.Client, rep func(string, int, error)) {
		rep("Login", 1, c.Login("u", "p").Wait())
		_, err := c.Select("INBOX", nil).Wait()
		rep("Select", 1, err)
		_, err = c.Copy(imap.SeqSetNum(1), "dest").Wait()
		rep("Copy", 1, err)
		_, err = c.Move(imap.SeqSetNum(2), "dest").Wait()
		rep("Move", 1, err)
		_, err = c.Expunge().Collect()
		rep("Expunge.Collect", 1, err)
		rep("Unselect", 1, c.Unselect().Wait())
	}},
	{"append-sync+append-nonsync", func(c *imapclient.Client, rep func(string, int, error)) {
		rep("Login", 1, c.Login("u", "p").Wait())
		payload := bytes.Repeat([]byte("Subject: x\r\n\r\nbody\r\n"), 250) // > 4096: synchronising
		cmd := c.Append("box", int64(len(payload)), &imap.AppendOptions{Flags: []imap.Flag{imap.FlagSeen}})
		_, werr := cmd.Write(payload)
		cerr := cmd.Close()
		_, err := cmd.Wait()
		if err == nil {
			err = werr
		}
		if err == nil {
			err = cerr
		}
		rep("Append(sync)", 1, err)
		small := []byte("tiny message")
		cmd = c.Append("box", int64(len(small)), nil)
		cmd.Write(small)
		cmd.Close()
		_, err = cmd.Wait()
		rep("Append(non-sync)", 1, err)
	}},
	{"idle", func(c *imapclient.Client, rep func(string, int, error)) {
		rep("Login", 1, c.Login("u", "p").Wait())
		_, err := c.Select("INBOX", nil).Wait()
		rep("Select", 1, err)
		idle, err := c.Idle()
		if err != nil {
			rep("Idle", 1, err)
			return
		}
		cerr := idle.Close()
		err = idle.Wait()
		if err == nil {
			err = cerr
		}
		rep("Idle.Close+Wait", 1, err)
		rep("Noop", 1, c.Noop().Wait())
	}},
	{"pipelined", func(c *imapclient.Client, rep func(string, int, error)) {
		rep("Login", 1, c.Login("u", "p").Wait())
		_, err := c.Select("INBOX", nil).Wait()
		rep("Select", 1, err)
		n, s1, s2 := c.Noop(), c.Status("a", &imap.StatusOptions{NumMessages: true}), c.Status("b", &imap.StatusOptions{NumMessages: true})
		f := c.Fetch(imap.SeqSetNum(1), &imap.FetchOptions{BodySection: []*imap.FetchItemBodySection{bodySection()}})
		cp := c.Capability()
		rep("Noop", 1, n.Wait())
		_, err = s1.Wait()
		rep("Status a", 1, err)
		_, err = s2.Wait()
		rep("Status b", 1, err)
		_, err = f.Collect()
		rep("Fetch.Collect", 1, err)
		_, err = cp.Wait()
		rep("Capability", 1, err)
	}},
	{"fetch-many-plain-items", func(c *imapclient.Client, rep func(string, int, error)) {
		// one FETCH response with many data items none of which is a literal
		rep("Login", 1, c.Login("u", "p").Wait())
		_, err := c.Select("INBOX", nil).Wait()
		rep("Select", 1, err)
		opts := &imap.FetchOptions{UID: true, Flags: true, RFC822Size: true, InternalDate: true}
		for i := 1; i <= 10; i++ {
			opts.BinarySectionSize = append(opts.BinarySectionSize, &imap.FetchItemBinarySectionSize{Part: []int{i}})
		}
		_, err = c.Fetch(imap.SeqSetNum(1, 2), opts).Collect()
		rep("Fetch.Collect(14 items)", 1, err)
		opts.Envelope, opts.BodyStructure = true, &imap.FetchItemBodyStructure{Extended: true}
		opts.BodySection = []*imap.FetchItemBodySection{bodySection()}
		cmd := c.Fetch(imap.SeqSetNum(3), opts)
		for msg := cmd.Next(); msg != nil; msg = cmd.Next() {
			for item := msg.Next(); item != nil; item = msg.Next() {
				if bs, ok := item.(imapclient.FetchItemDataBodySection); ok && bs.Literal != nil {
					io.Copy(io.Discard, bs.Literal)
				}
			}
		}
		rep("Fetch.Close(17 items)", 1, cmd.Close())
	}},
	{"fetch-more-messages-than-the-client-buffers", func(c *imapclient.Client, rep func(string, int, error)) {
		rep("Login", 1, c.Login("u", "p").Wait())
		_, err := c.Select("INBOX", nil).Wait()
		rep("Select", 1, err)
		var set imap.SeqSet
		set.AddRange(1, 140)
		_, err = c.Fetch(set, &imap.FetchOptions{UID: true}).Collect()
		rep("Fetch.Collect(140 messages)", 1, err)
		rep("Noop", 1, c.Noop().Wait())
	}},
	{"pipelined-behind-logout", func(c *imapclient.Client, rep func(string, int, error)) {
		// commands sent behind LOGOUT are never answered: the server says BYE,
		// completes LOGOUT and closes. They must fail, whatever happens.
		rep("Login", 1, c.Login("u", "p").Wait())
		lo, n := c.Logout(), c.Noop()
		st := c.Status("a", &imap.StatusOptions{NumMessages: true})
		rep("Logout", 1, lo.Wait())
		rep("?Noop(behind LOGOUT)", 1, n.Wait())
		_, err := st.Wait()
		rep("?Status(behind LOGOUT)", 1, err)
	}},
	{"uid-commands+examine+close", func(c *imapclient.Client, rep func(string, int, error)) {
		rep("Login", 1, c.Login("u", "p").Wait())
		_, err := c.Select("INBOX", &imap.SelectOptions{ReadOnly: true}).Wait()
		rep("Examine", 1, err)
		_, err = c.Fetch(imap.UIDSetNum(101, 102), &imap.FetchOptions{Flags: true, BodySection: []*imap.FetchItemBodySection{{Specifier: imap.PartSpecifierText, Peek: true}}}).Collect()
		rep("UIDFetch.Collect", 1, err)
		_, err = c.Store(imap.UIDSetNum(101), &imap.StoreFlags{Op: imap.StoreFlagsDel, Silent: true, Flags: []imap.Flag{imap.FlagSeen}}, nil).Collect()
		rep("UIDStore.Collect", 1, err)
		_, err = c.Copy(imap.UIDSetNum(101), "dest").Wait()
		rep("UIDCopy", 1, err)
		_, err = c.UIDExpunge(imap.UIDSetNum(101)).Collect()
		rep("UIDExpunge.Collect", 1, err)
		_, err = c.Search(&imap.SearchCriteria{Text: []string{"with \"quote"}}, nil).Wait()
		rep("Search", 1, err)
		_, err = c.List("", "%", nil).Collect()
		rep("List.Collect", 1, err)
		rep("Unsubscribe", 1, c.Unsubscribe("Sent").Wait())
		rep("Close", 1, c.Unselect().Wait())
	}},
	{"create+rename+subscribe+enable+capability", func(c *imapclient.Client, rep func(string, int, error)) {
		rep("Login", 1, c.Login("u", "p").Wait())
		rep("Create", 1, c.Create("new box", nil).Wait())
		rep("Rename", 1, c.Rename("new box", "台北").Wait())
		rep("Subscribe", 1, c.Subscribe("台北").Wait())
		_, err := c.Enable(imap.CapUTF8Accept).Wait()
		rep("Enable", 1, err)
		_, err = c.Capability().Wait()
		rep("Capability", 1, err)
		rep("Delete", 1, c.Delete("台北").Wait())
	}},
}

// ---------------------------------------------------------------- recording

type event struct {
	fromServer bool
	data       []byte
}

type recording struct {
	events []event
	server []byte // concatenated server bytes
	// need[i]: client bytes that must have been written before server byte i becomes available
	need []int
	// completionEnd[tag] = offset just past the tagged completion line of tag
	completionEnd map[string]int
	// boundary[off]: off lies between two complete responses (or before the first)
	boundary map[int]bool
}

func newStub() *stub.Core {
	core := stub.NewCore()
	reps := 6
	if ev.Thorough() {
		reps = 70 // larger literals: many more cut points inside literal data
	}
	body := bytes.Repeat([]byte("Header: value\r\n\r\nbody text line\r\n"), reps)
	core.OnFetch = func(w *imapserver.FetchWriter, set imap.NumSet, o *imap.FetchOptions) error {
		var nums []uint32
		switch ss := set.(type) {
		case imap.SeqSet:
			nums, _ = ss.Nums()
		case imap.UIDSet:
			uids, _ := ss.Nums()
			for _, u := range uids {
				nums = append(nums, uint32(u)-100)
			}
		}
		for _, n := range nums {
			rw := w.CreateMessage(n)
			rw.WriteUID(imap.UID(n + 100))
			if o.Flags {
				rw.WriteFlags([]imap.Flag{imap.FlagSeen})
			}
			if o.RFC822Size {
				rw.WriteRFC822Size(int64(len(body)))
			}
			if o.InternalDate {
				rw.WriteInternalDate(time.Date(2024, 2, 3, 4, 5, 6, 0, time.UTC))
			}
			for _, bs := range o.BinarySectionSize {
				rw.WriteBinarySectionSize(&imap.FetchItemBinarySection{Part: bs.Part}, uint32(100+len(bs.Part)))
			}
			if o.BodyStructure != nil {
				rw.WriteBodyStructure(&imap.BodyStructureSinglePart{Type: "text", Subtype: "plain", Params: map[string]string{"charset": "utf-8"}, Encoding: "7BIT", Size: 42,
					Text: &imap.BodyStructureText{NumLines: 3}, Extended: &imap.BodyStructureSinglePartExt{}})
			}
			if o.Envelope {
				rw.WriteEnvelope(&imap.Envelope{Subject: "hello", From: []imap.Address{{Name: "A", Mailbox: "a", Host: "b"}}})
			}
			for _, bs := range o.BodySection {
				wc := rw.WriteBodySection(bs, int64(len(body)))
				wc.Write(body)
				wc.Close()
			}
			if err := rw.Close(); err != nil {
				return err
			}
		}
		return nil
	}
	core.OnStore = func(w *imapserver.FetchWriter, set imap.NumSet, _ *imap.StoreFlags, _ *imap.StoreOptions) error {
		rw := w.CreateMessage(1)
		rw.WriteFlags([]imap.Flag{imap.FlagSeen})
		return rw.Close()
	}
	core.OnList = func(w *imapserver.ListWriter, _ string, _ []string, o *imap.ListOptions) error {
		three := uint32(3)
		for _, name := range []string{"INBOX", "Sent", "台北"} {
			d := &imap.ListData{Mailbox: name, Delim: '/'}
			if o.ReturnStatus != nil {
				d.Status = &imap.StatusData{Mailbox: name, NumMessages: &three}
			}
			if err := w.WriteList(d); err != nil {
				return err
			}
		}
		return nil
	}
	core.OnExpunge = func(w *imapserver.ExpungeWriter, _ *imap.UIDSet) error {
		w.WriteExpunge(3)
		return w.WriteExpunge(1)
	}
	return core
}

// record runs the program against a real server and captures the traffic.
func record(t *testing.T, p program) *recording {
	core := newStub()
	env := srv.Start(imapserver.Options{
		NewSession: func(*imapserver.Conn) (imapserver.Session, *imapserver.GreetingData, error) {
			return stub.Session(core, stub.FAll&^stub.FSASL), nil, nil
		},
		InsecureAuth: true,
		Caps:         imap.CapSet{imap.CapIMAP4rev1: {}, imap.CapMove: {}, imap.CapUIDPlus: {}, imap.CapNamespace: {}, imap.CapESearch: {}, imap.CapListStatus: {}, imap.CapListExtended: {}, imap.CapBinary: {}},
	})
	defer env.Stop()
	c, s := pipe.New() // hooks are installed before the server sees the connection
	rec := &recording{completionEnd: map[string]int{}}
	var mu sync.Mutex
	clientBytes := 0
	c.OnWrite = func(b []byte) {
		mu.Lock()
		rec.events = append(rec.events, event{false, append([]byte(nil), b...)})
		clientBytes += len(b)
		mu.Unlock()
	}
	s.OnWrite = func(b []byte) {
		mu.Lock()
		rec.events = append(rec.events, event{true, append([]byte(nil), b...)})
		for range b {
			rec.need = append(rec.need, clientBytes)
		}
		rec.server = append(rec.server, b...)
		mu.Unlock()
	}
	env.L.DialConn(s)
	cl := imapclient.New(c, nil)
	done := make(chan struct{})
	go func() {
		defer close(done)
		// the greeting first: what the client writes (literal forms) depends on
		// the advertised capabilities, and the replay must be deterministic
		if err := cl.WaitGreeting(); err != nil {
			t.Errorf("recording %q: greeting: %v", p.name, err)
			return
		}
		p.run(cl, func(name string, tags int, err error) {
			if err != nil && !strings.HasPrefix(name, "?") {
				t.Errorf("recording %q: %s failed without any fault: %v", p.name, name, err)
			}
			if err == nil && strings.HasPrefix(name, "?") {
				t.Errorf("recording %q: %s succeeded although the server never answers it", p.name, name)
			}
		})
	}()
	select {
	case <-done:
	case <-time.After(10 * time.Second):
		t.Fatalf("recording %q did not finish", p.name)
	}
	cl.Close()
	time.Sleep(time.Millisecond)
	mu.Lock()
	defer mu.Unlock()
	// completion offsets from the recorded server stream
	off := 0
	rest := rec.server
	rec.boundary = map[int]bool{0: true}
	for len(rest) > 0 {
		l, n, err := tok.Next(rest, true)
		if err != nil {
			break
		}
		off += n
		rest = rest[n:]
		rec.boundary[off] = true
		if l.Status != "" && l.Tag != "*" {
			rec.completionEnd[l.Tag] = off
		}
	}
	return rec
}

// ---------------------------------------------------------------- fault connection

type faultKind int

const (
	faultEOF faultKind = iota
	faultReadErr
	faultWriteErr
	faultStall
)

func (f faultKind) String() string {
	return [...]string{"EOF", "read-error", "write-error", "stall"}[f]
}

var errInjected = errors.New("injected I/O error (connection reset by peer)")

// faultConn replays the recorded server stream to the client, making byte i
// readable once the client has written rec.need[i] bytes, and injects the
// fault after cut bytes have been delivered.
type faultConn struct {
	rec  *recording
	cut  int
	kind faultKind

	mu        sync.Mutex
	cond      *sync.Cond
	delivered int
	written   int
	closed    bool
	rdeadline time.Time
	stalled   chan struct{} // closed when a Read blocks at the cut without a deadline
	stallOnce sync.Once
}

func newFaultConn(rec *recording, cut int, kind faultKind) *faultConn {
	f := &faultConn{rec: rec, cut: cut, kind: kind, stalled: make(chan struct{})}
	f.cond = sync.NewCond(&f.mu)
	return f
}

func (f *faultConn) Read(p []byte) (int, error) {
	f.mu.Lock()
	defer f.mu.Unlock()
	for {
		if f.closed {
			return 0, net.ErrClosed
		}
		limit := len(f.rec.server)
		if f.kind != faultWriteErr && f.cut < limit {
			limit = f.cut
		}
		// deliver what is causally available
		n := 0
		for f.delivered+n < limit && n < len(p) && f.rec.need[f.delivered+n] <= f.written {
			n++
		}
		if n > 0 {
			copy(p, f.rec.server[f.delivered:f.delivered+n])
			f.delivered += n
			return n, nil
		}
		if f.delivered >= limit && f.kind != faultWriteErr || (f.kind == faultWriteErr && f.delivered >= len(f.rec.server)) {
			switch {
			case f.kind == faultEOF || f.kind == faultWriteErr || f.delivered >= len(f.rec.server) && f.cut >= len(f.rec.server):
				return 0, io.EOF
			case f.kind == faultReadErr:
				return 0, errInjected
			case f.kind == faultStall:
				if !f.rdeadline.IsZero() {
					return 0, os.ErrDeadlineExceeded // virtual time: the armed deadline fires
				}
				f.stallOnce.Do(func() { close(f.stalled) })
			}
		}
		f.cond.Wait()
	}
}

func (f *faultConn) Write(p []byte) (int, error) {
	f.mu.Lock()
	defer f.mu.Unlock()
	if f.closed {
		return 0, net.ErrClosed
	}
	if f.kind == faultWriteErr && f.delivered >= f.cut {
		return 0, errInjected
	}
	f.written += len(p)
	f.cond.Broadcast()
	return len(p), nil
}

func (f *faultConn) Close() error {
	f.mu.Lock()
	f.closed = true
	f.cond.Broadcast()
	f.mu.Unlock()
	return nil
}

func (f *faultConn) LocalAddr() net.Addr  { return pipeAddr{} }
func (f *faultConn) RemoteAddr() net.Addr { return pipeAddr{} }
func (f *faultConn) SetDeadline(t time.Time) error {
	f.SetReadDeadline(t)
	return nil
}
func (f *faultConn) SetReadDeadline(t time.Time) error {
	f.mu.Lock()
	f.rdeadline = t
	f.cond.Broadcast()
	f.mu.Unlock()
	return nil
}
func (f *faultConn) SetWriteDeadline(time.Time) error { return nil }

type pipeAddr struct{}

func (pipeAddr) Network() string { return "mem" }
func (pipeAddr) String() string  { return "fault" }


// ---------------------------------------------------------------- replay with a fault

func clientGoroutines() (int, string) {
	buf := make([]byte, 1<<20)
	buf = buf[:runtime.Stack(buf, true)]
	n := 0
	var keep []string
	for _, g := range strings.Split(string(buf), "\n\n") {
		if strings.Contains(g, "go-imap/v2/imapclient.") {
			n++
			keep = append(keep, g)
		}
	}
	s := strings.Join(keep, "\n\n")
	if len(s) > 4000 {
		s = s[:4000]
	}
	return n, s
}

const bound = 10 * time.Second

func replay(t *testing.T, p program, rec *recording, cut int, kind faultKind) {
	fc := newFaultConn(rec, cut, kind)
	c := imapclient.New(fc, nil)
	var calls []call
	var cmu sync.Mutex
	done := make(chan struct{})
	go func() {
		defer close(done)
		rep := func(name string, tags int, err error) {
			cmu.Lock()
			calls = append(calls, call{name, tags, err})
			cmu.Unlock()
		}
		if err := c.WaitGreeting(); err != nil {
			rep("WaitGreeting", 0, err)
			return
		}
		p.run(c, rep)
	}()
	describe := func() string {
		cmu.Lock()
		defer cmu.Unlock()
		var l []string
		for _, cl := range calls {
			l = append(l, fmt.Sprintf("%s=%v", cl.name, cl.err))
		}
		return strings.Join(l, ", ")
	}
	fail := func(f string, a ...any) {
		_, dump := clientGoroutines()
		t.Fatalf("program %q, fault %s after %d of %d server bytes (…%q|%q…): %s\ncalls so far: %s\nclient goroutines:\n%s", p.name, kind, cut, len(rec.server),
			tailOf(rec.server[:cut], 40), headOf(rec.server[cut:], 40), fmt.Sprintf(f, a...), describe(), dump)
	}
	closedByCaller := false
	select {
	case <-done:
	case <-fc.stalled:
		// nothing is armed to time out: the caller closes the client. Between
		// two responses the client waits without a deadline by design; in the
		// middle of a response (a line, a literal) its own read timeout must be
		// running, otherwise a server that stalls there blocks the caller for ever
		if !rec.boundary[cut] {
			fail("the server stalled in the middle of a response and the client has no read deadline armed: the stall is never resolved by the client's own timeout")
		}
		closedByCaller = true
		cd := make(chan struct{})
		go func() { c.Close(); close(cd) }()
		select {
		case <-cd:
		case <-time.After(bound):
			fail("Client.Close() did not return within %v while the connection was stalled", bound)
		}
		select {
		case <-done:
		case <-time.After(bound):
			fail("after Client.Close() the program's blocking call still did not return within %v", bound)
		}
	case <-time.After(bound):
		fail("a blocking client call did not return within %v", bound)
	}
	// Close must return
	cd := make(chan struct{})
	go func() { c.Close(); close(cd) }()
	select {
	case <-cd:
	case <-time.After(bound):
		fail("Client.Close() did not return within %v", bound)
	}
	// the background reader (and any helper goroutine) must exit
	deadline := time.Now().Add(3 * time.Second)
	for {
		n, dump := clientGoroutines()
		if n == 0 {
			break
		}
		if time.Now().After(deadline) {
			t.Fatalf("program %q, fault %s after %d bytes: %d imapclient goroutine(s) still alive after Close:\n%s", p.name, kind, cut, n, dump)
		}
		time.Sleep(100 * time.Microsecond)
	}
	// a command whose completion was not fully received must report an error
	if kind != faultWriteErr {
		tagN := 0
		cmu.Lock()
		defer cmu.Unlock()
		for _, cl := range calls {
			tagN += cl.tags
			if cl.tags == 0 {
				continue
			}
			end, ok := rec.completionEnd[fmt.Sprintf("T%d", tagN)]
			if ok && cut < end && cl.err == nil {
				t.Fatalf("program %q, fault %s after %d of %d server bytes: %s returned success although its tagged completion (ending at offset %d) was not fully received (closedByCaller=%v)",
					p.name, kind, cut, len(rec.server), cl.name, end, closedByCaller)
			}
			if !ok && cl.err == nil {
				t.Fatalf("program %q, fault %s after %d of %d server bytes: %s returned success although the transcript holds no tagged completion for it at all (closedByCaller=%v)",
					p.name, kind, cut, len(rec.server), cl.name, closedByCaller)
			}
		}
	}
}

func tailOf(b []byte, n int) string {
	if len(b) > n {
		b = b[len(b)-n:]
	}
	return string(b)
}

func headOf(b []byte, n int) string {
	if len(b) > n {
		b = b[:n]
	}
	return string(b)
}

// TestEnumFaults: every byte offset of every program's transcript x 4 faults.
func TestEnumFaults(t *testing.T) {
	shard, nshard := 0, 1
	fmt.Sscan(os.Getenv("VERIF_SHARD"), &shard)
	fmt.Sscan(os.Getenv("VERIF_NSHARD"), &nshard)
	if nshard == 0 {
		nshard = 1
	}
	var total int64
	for pi, p := range programs {
		rec := record(t, p)
		if t.Failed() {
			return
		}
		inside := 0
		inLit := literalOffsets(rec.server)
		for cut := 0; cut <= len(rec.server); cut++ {
			if (cut+pi)%nshard != shard {
				continue
			}
			for _, kind := range []faultKind{faultEOF, faultReadErr, faultWriteErr, faultStall} {
				replay(t, p, rec, cut, kind)
				total++
				// non-trivial: the fault lands strictly inside a literal or inside a
				// line (a response cut in the middle), not on a response boundary
				if inLit[cut] || (cut > 0 && cut < len(rec.server) && rec.server[cut-1] != '\n') {
					ev.NonTrivial(fmt.Sprintf("%s@%d:%s", p.name, cut, kind))
				}
			}
			if inLit[cut] {
				inside++
			}
		}
		ev.ClassN("offset-inside-a-literal", int64(inside))
		ev.Add("transcripts", 1)
		ev.Add("offsets_enumerated", int64((len(rec.server)+1+nshard-1-shard)/nshard))
		ev.Class("program:" + p.name)
		ev.Sample(fmt.Sprintf("program %q: %d server bytes, every offset x {EOF, read error, write error, stall}; transcript head %q", p.name, len(rec.server), headOf(rec.server, 160)))
	}
	ev.EvalN(total)
	ev.Set("exhaustive_per_transcript", true)
}

// literalOffsets returns the set of offsets strictly inside literal payloads.
func literalOffsets(server []byte) map[int]bool {
	out := map[int]bool{}
	for i := 0; i < len(server); i++ {
		if server[i] == '{' {
			j := i + 1
			n := 0
			for j < len(server) && server[j] >= '0' && server[j] <= '9' {
				n = n*10 + int(server[j]-'0')
				j++
			}
			if j+2 < len(server) && server[j] == '}' && server[j+1] == '\r' && server[j+2] == '\n' && j > i+1 {
				for k := j + 4; k < j+3+n && k < len(server); k++ {
					out[k] = true
				}
			}
		}
	}
	return out
}
