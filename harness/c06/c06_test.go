// Package c06 decides property C06: the server survives arbitrary input and
// disconnects, cleaning up exactly once. Real imapserver + recording stub
// sessions over in-memory pipes; the oracle is a set of invariants over each
// connection's history: no panic report in the server log, the connection's
// goroutines (serve loop, IDLE goroutine) are gone after the peer is gone, the
// session is closed exactly once, no literal above 4096 octets is delivered as
// a buffered argument, APPEND never reaches the backend above the append limit.
package c06

import (
	"errors"
	"fmt"
	"os"
	"os/exec"
	"runtime"
	"runtime/debug"
	"strconv"
	"strings"
	"sync"
	"testing"
	"time"

	imap "github.com/emersion/go-imap/v2"
	"github.com/emersion/go-imap/v2/imapserver"
	"github.com/emersion/go-imap/v2/verifh/kit/cmdgen"
	"github.com/emersion/go-imap/v2/verifh/kit/ev"
	"github.com/emersion/go-imap/v2/verifh/kit/srv"
	"github.com/emersion/go-imap/v2/verifh/kit/stub"
	"pgregory.net/rapid"
)

func TestMain(m *testing.M) { ev.Main(m) }

const appendLimit = 100 * 1024 * 1024

type world struct {
	env   *srv.Env
	mu    sync.Mutex
	cores []*stub.Core
}

var (
	wMu    sync.Mutex
	worlds = map[bool]*world{}
	// literalPlus selects the server configuration used by feed.
	literalPlus bool
)

func getWorld() *world {
	wMu.Lock()
	defer wMu.Unlock()
	if w := worlds[literalPlus]; w != nil {
		return w
	}
	w := &world{}
	caps := imap.CapSet{imap.CapIMAP4rev1: {}, imap.CapIMAP4rev2: {}}
	if literalPlus {
		caps[imap.CapLiteralPlus] = struct{}{}
	}
	{
		w.env = srv.Start(imapserver.Options{
			NewSession: func(*imapserver.Conn) (imapserver.Session, *imapserver.GreetingData, error) {
				c := stub.NewCore()
				c.OnFetch = func(fw *imapserver.FetchWriter, _ imap.NumSet, o *imap.FetchOptions) error {
					rw := fw.CreateMessage(1)
					rw.WriteUID(7)
					rw.WriteFlags([]imap.Flag{imap.FlagSeen})
					return rw.Close()
				}
				w.mu.Lock()
				w.cores = append(w.cores, c)
				w.mu.Unlock()
				return stub.Session(c, stub.FAll), nil, nil
			},
			InsecureAuth: true,
			Caps:         caps,
		})
	}
	worlds[literalPlus] = w
	return w
}

func (w *world) lastCore(n int) *stub.Core {
	w.mu.Lock()
	defer w.mu.Unlock()
	if len(w.cores) <= n {
		return nil
	}
	return w.cores[len(w.cores)-1]
}

func (w *world) numCores() int {
	w.mu.Lock()
	defer w.mu.Unlock()
	return len(w.cores)
}

// serverGoroutines counts goroutines running connection code of imapserver.
func serverGoroutines() (int, string) {
	buf := make([]byte, 1<<20)
	n := runtime.Stack(buf, true)
	dump := string(buf[:n])
	count := 0
	for _, g := range strings.Split(dump, "\n\n") {
		if strings.Contains(g, "imapserver.(*Conn).serve") || strings.Contains(g, "imapserver.(*Conn).handleIdle") {
			count++
		}
	}
	return count, dump
}

type fataler interface {
	Fatalf(format string, args ...any)
}

func clip(s string) string {
	if len(s) > 400 {
		return s[:300] + "…" + s[len(s)-80:]
	}
	return s
}

// feed opens a connection, writes input, ends the connection in the given way
// and checks the clean-up invariants. It returns the recorded backend calls.
// lastOutput holds what the server wrote during the last feed (for "close" and
// "reset" endings possibly nothing).
var lastOutput []byte

func feed(t fataler, input []byte, end string, what string) []stub.Call {
	w := getWorld()
	before := w.numCores()
	logBefore := len(w.env.Log.Lines())
	raw := w.env.Dial()
	if _, err := raw.Greeting(); err != nil {
		t.Fatalf("%s: no greeting: %v", what, err)
	}
	raw.C.Write(input)
	switch end {
	case "halfclose":
		raw.C.CloseWrite() // the server reads everything, then sees EOF
	case "close":
		raw.C.Close()
	case "reset":
		raw.C.Reset(errors.New("connection reset by peer"))
	}
	if !raw.WaitServerClosed(10 * time.Second) {
		_, dump := serverGoroutines()
		t.Fatalf("%s: %s after input %q: the server did not close its end within 10s (spinning or stuck); goroutines:\n%s", what, end, clip(string(input)), clipDump(dump))
	}
	lastOutput, _ = raw.C.ReadAvailable(2*time.Millisecond, 2*time.Second)
	raw.C.Close()
	// goroutines of this connection must be gone
	deadline := time.Now().Add(5 * time.Second)
	for {
		n, dump := serverGoroutines()
		if n == 0 {
			break
		}
		if time.Now().After(deadline) {
			t.Fatalf("%s: %d server goroutine(s) still alive after the peer is gone (input %q):\n%s", what, n, clip(string(input)), clipDump(dump))
		}
		time.Sleep(200 * time.Microsecond)
	}
	if w.numCores() != before+1 {
		t.Fatalf("%s: expected exactly one session to be created, got %d", what, w.numCores()-before)
	}
	core := w.lastCore(before)
	if n := core.CloseCount(); n != 1 {
		t.Fatalf("%s: backend session closed %d times (input %q, end %s)", what, n, clip(string(input)), end)
	}
	for _, l := range w.env.Log.Lines()[logBefore:] {
		if strings.Contains(l, "panic") {
			t.Fatalf("%s: server panicked on input %q: %s", what, clip(string(input)), clip(l))
		}
	}
	calls := core.AllCalls()
	for _, c := range calls {
		if c.Method == "Append" {
			if sz, _ := c.Args["size"].(int64); sz > appendLimit {
				t.Fatalf("%s: Append reached the backend with a %d-octet literal (limit %d)", what, sz, appendLimit)
			}
		}
	}
	return calls
}

func clipDump(d string) string {
	var keep []string
	for _, g := range strings.Split(d, "\n\n") {
		if strings.Contains(g, "imapserver") {
			keep = append(keep, g)
		}
	}
	s := strings.Join(keep, "\n\n")
	if len(s) > 6000 {
		s = s[:6000]
	}
	return s
}

// ---------------------------------------------------------------- generators

var hostile = []string{"(", "((((((((", ")", "{", "}", "{5}", "{5+}", "{99999999999999999999}", "{4097}", "{4097+}", "{104857601+}", "{9223372036854775807}", "~{3}",
	"\x00", "\xff\xfe", "\"", "\\", "[", "]", "*", "%", "\r", "\n", "\r\n", " ", "  ", "NIL", "+", "$", "<0.0>", "<9223372036854775807.9223372036854775807>",
	"BODY[", "NOT NOT NOT NOT ", "OR OR OR ", "UID ", "a b\r\n", "DONE\r\n", "=", "==", "*\r\n"}

var prefixes = []string{"", "p1 LOGIN u p\r\n", "p1 LOGIN u p\r\np2 SELECT INBOX\r\n", "p1 LOGIN u p\r\np2 SELECT INBOX\r\n",
	"p1 LOGIN u p\r\np2 ENABLE UTF8=ACCEPT\r\np3 UNAUTHENTICATE\r\np4 LOGIN u p\r\n", "p1 LOGIN u p\r\np2 SELECT INBOX\r\np3 UNAUTHENTICATE\r\np4 AUTHENTICATE PLAIN AHVzZXIAcGFzcw==\r\n"}

func genCommands(t *rapid.T, n int, o cmdgen.Opts) string {
	var sb strings.Builder
	for i := 0; i < n; i++ {
		_, text := cmdgen.Any(t, o)
		fmt.Fprintf(&sb, "c%d %s\r\n", i, text)
	}
	return sb.String()
}

func mutate(t *rapid.T, s string) string {
	b := []byte(s)
	for i, n := 0, rapid.IntRange(1, 4).Draw(t, "nmut"); i < n; i++ {
		pos := 0
		if len(b) > 0 {
			pos = rapid.IntRange(0, len(b)).Draw(t, "pos")
		}
		switch rapid.IntRange(0, 6).Draw(t, "mut") {
		case 0: // insert hostile chunk
			ins := rapid.SampledFrom(hostile).Draw(t, "ins")
			b = append(b[:pos:pos], append([]byte(ins), b[pos:]...)...)
		case 1: // delete a span
			end := pos + rapid.IntRange(1, 8).Draw(t, "dlen")
			if end > len(b) {
				end = len(b)
			}
			b = append(b[:pos:pos], b[end:]...)
		case 2: // flip a byte
			if pos < len(b) {
				b[pos] = rapid.Byte().Draw(t, "byte")
			}
		case 3: // truncate
			b = b[:pos]
		case 4: // duplicate a span
			end := pos + rapid.IntRange(1, 30).Draw(t, "duplen")
			if end > len(b) {
				end = len(b)
			}
			b = append(b[:end:end], append(append([]byte{}, b[pos:end]...), b[end:]...)...)
		case 5: // swap two tokens
			toks := strings.Split(string(b), " ")
			if len(toks) > 2 {
				i1 := rapid.IntRange(0, len(toks)-1).Draw(t, "t1")
				i2 := rapid.IntRange(0, len(toks)-1).Draw(t, "t2")
				toks[i1], toks[i2] = toks[i2], toks[i1]
				b = []byte(strings.Join(toks, " "))
			}
		default: // repeat a hostile chunk many times
			ins := strings.Repeat(rapid.SampledFrom(hostile).Draw(t, "rep"), rapid.IntRange(2, 40).Draw(t, "nrep"))
			b = append(b[:pos:pos], append([]byte(ins), b[pos:]...)...)
		}
	}
	return string(b)
}

func TestPropInput(t *testing.T) {
	rapid.Check(t, func(t *rapid.T) {
		literalPlus = rapid.Bool().Draw(t, "server-literal+")
		mode := rapid.SampledFrom([]string{"grammar", "grammar", "mutated", "mutated", "raw"}).Draw(t, "mode")
		prefix := rapid.SampledFrom(prefixes).Draw(t, "prefix")
		var input string
		switch mode {
		case "grammar":
			input = prefix + genCommands(t, rapid.IntRange(1, 6).Draw(t, "n"), cmdgen.Opts{})
			if rapid.IntRange(0, 4).Draw(t, "biglit") == 3 {
				// a string argument sent as a literal above the buffering limit
				form := rapid.SampledFrom([]string{"{5000}", "{5000+}", "{4097+}", "{70000+}", "{2147483648}", "{1099511627776+}", "{9223372036854775807}", "{9223372036854775807+}"}).Draw(t, "bigform")
				n, _ := strconv.Atoi(strings.Trim(form, "{}+"))
				if n > 70000 {
					n = 100 // only the announcement matters for huge sizes
				}
				cmd := rapid.SampledFrom([]string{"LOGIN ", "SELECT ", "LIST \"\" ", "SEARCH SUBJECT ", "CREATE ", "STATUS "}).Draw(t, "bigcmd")
				input += "big " + cmd + form + "\r\n" + strings.Repeat("A", n) + " pw\r\nafter NOOP\r\n"
			}
			if rapid.IntRange(0, 6).Draw(t, "bigappend") == 3 {
				input += "ba APPEND INBOX " + rapid.SampledFrom([]string{"{104857601}", "{104857601+}", "{9223372036854775807+}"}).Draw(t, "baform") + "\r\nSubject: x\r\n\r\nbody\r\n"
			}
		case "mutated":
			input = prefix + mutate(t, genCommands(t, rapid.IntRange(1, 4).Draw(t, "n"), cmdgen.Opts{}))
		default:
			var sb strings.Builder
			for i, n := 0, rapid.IntRange(1, 12).Draw(t, "nchunks"); i < n; i++ {
				if rapid.Bool().Draw(t, "hostile") {
					sb.WriteString(rapid.SampledFrom(hostile).Draw(t, "h"))
				} else {
					sb.Write(rapid.SliceOfN(rapid.Byte(), 0, 12).Draw(t, "bytes"))
				}
			}
			input = rapid.SampledFrom([]string{"", "", prefixes[2]}).Draw(t, "rawprefix") + sb.String()
		}
		end := rapid.SampledFrom([]string{"halfclose", "halfclose", "halfclose", "close", "reset"}).Draw(t, "end")
		calls := feed(t, []byte(input), end, mode)
		if mode == "grammar" {
			// the generator renders strings above 4096 octets only as literals
			for _, c := range calls {
				for k, v := range c.Args {
					if s, ok := v.(string); ok && len(s) > 4096 {
						t.Fatalf("a %d-octet literal was buffered and delivered to the backend (%s.%s); input %q", len(s), c.Method, k, clip(input))
					}
				}
			}
		}
		ev.Eval()
		reached := false
		for _, c := range calls {
			if c.Method != "Poll" && c.Method != "Login" && c.Method != "Select" {
				reached = true
			}
		}
		if reached || mode != "raw" {
			ev.NonTrivial(end + "|" + input)
		}
		ev.Class("mode:" + mode)
		ev.Class("end:" + end)
		ev.Class(fmt.Sprintf("server-literal+=%v", literalPlus))
		if reached {
			ev.Class("reached-a-handler-beyond-login/select")
		}
		ev.Sample(fmt.Sprintf("[%s,%s] %q -> %d backend calls", mode, end, clip(input), len(calls)))
	})
}

// TestPropDisconnect: for a generated valid transcript (login, select, literal
// append, AUTHENTICATE exchange or IDLE..DONE, several commands) the client
// side is closed / reset after EVERY byte offset.
func TestPropDisconnect(t *testing.T) {
	rapid.Check(t, func(t *rapid.T) {
		o := cmdgen.Opts{MaxLit: 60}
		var sb strings.Builder
		if rapid.Bool().Draw(t, "auth-exchange") {
			sb.WriteString("t1 " + cmdgen.Command(t, "AUTHENTICATE", o) + "\r\n")
		} else {
			sb.WriteString("t1 LOGIN {4}\r\nuser {4+}\r\npass\r\n")
		}
		sb.WriteString("t2 SELECT INBOX\r\n")
		sb.WriteString("t3 " + cmdgen.Command(t, "APPEND", o) + "\r\n")
		kinds := []string{"FETCH", "UID SEARCH", "STORE", "LIST", "STATUS", "IDLE", "COPY", "EXPUNGE", "UID MOVE", "CREATE", "NOOP", "IDLE"}
		for i, n := 0, rapid.IntRange(1, 4).Draw(t, "ncmds"); i < n; i++ {
			k := rapid.SampledFrom(kinds).Draw(t, "kind")
			fmt.Fprintf(&sb, "u%d %s\r\n", i, cmdgen.Command(t, k, o))
		}
		if rapid.Bool().Draw(t, "idle-open") {
			sb.WriteString("v1 IDLE\r\n") // left idling
		} else {
			sb.WriteString("v1 LOGOUT\r\n")
		}
		tr := sb.String()
		maxLen := 450
		if ev.Thorough() {
			maxLen = 2500
		}
		if len(tr) > maxLen {
			tr = tr[:maxLen]
		}
		inside := 0
		for k := 0; k <= len(tr); k++ {
			for _, end := range []string{"close", "reset"} {
				feed(t, []byte(tr[:k]), end, fmt.Sprintf("disconnect at offset %d/%d", k, len(tr)))
			}
		}
		for _, marker := range []string{"{", "AUTHENTICATE PLAIN\r\n", "IDLE\r\n"} {
			if strings.Contains(tr, marker) {
				inside++
			}
		}
		ev.EvalN(int64(2 * (len(tr) + 1)))
		ev.Add("disconnect_transcripts", 1)
		ev.Add("disconnect_offsets_enumerated", int64(len(tr)+1))
		ev.NonTrivial("disc:" + tr)
		ev.Class("disconnect-transcript")
		if strings.Contains(tr, "IDLE") {
			ev.Class("disconnect:transcript-with-idle")
		}
		if strings.Contains(tr, "AUTHENTICATE PLAIN\r\n") {
			ev.Class("disconnect:transcript-with-sasl-exchange")
		}
		ev.Sample(fmt.Sprintf("disconnect sweep over every offset of %q", clip(tr)))
	})
}

// canaryPayload is literal data of exactly n octets that looks like commands.
func canaryPayload(n int) string {
	line := "zz1 DELETE canary\r\n"
	s := strings.Repeat(line, n/len(line)+1)
	return s[:n]
}

// TestPropOversize: literals the server must refuse *before* reading them: an
// APPEND above the append limit in every connection state (also before
// authentication and after UNAUTHENTICATE), and buffered string arguments
// above 4096 octets. A refusal means: no continuation request for the literal,
// and a tagged NO/BAD for the command (or BYE); nothing of that size reaches
// the backend. Also: over-long lines where a line is expected (SASL response,
// DONE), which must end the exchange cleanly.
func TestPropOversize(t *testing.T) {
	rapid.Check(t, func(t *rapid.T) {
		literalPlus = rapid.Bool().Draw(t, "server-literal+")
		prefix := rapid.SampledFrom([]string{"", "p1 LOGIN u p\r\n", "p1 LOGIN u p\r\np2 SELECT INBOX\r\n", "p1 LOGIN u p\r\np2 UNAUTHENTICATE\r\n", "p1 LOGIN wrong {3+}\r\nbad\r\n"}).Draw(t, "state")
		kind := rapid.SampledFrom([]string{"append", "append", "buffered", "longline"}).Draw(t, "kind")
		var input, what string
		expectPlus := 0
		plusSign := ""
		if rapid.IntRange(0, 2).Draw(t, "nonsync") == 0 {
			plusSign = "+" // non-synchronising: refused as well; a few payload octets follow
		}
		switch kind {
		case "append":
			size := rapid.SampledFrom([]string{"104857601", "104857601", "2147483648", "9223372036854775807", "9223372036854775808", "18446744073709551615", "18446744073709551616"}).Draw(t, "size")
			if len(size) > 19 || (len(size) == 19 && size > "9223372036854775807") {
				// not a number64 any more: "{N+}" is then not a literal header
				// by the grammar and what follows is not "announced" data; only
				// the synchronising form is judged (no continuation request)
				plusSign = ""
			}
			flags := rapid.SampledFrom([]string{"", "(\\Seen) ", "(\\Seen) \"01-Jan-2024 00:00:00 +0000\" "}).Draw(t, "flags")
			input = prefix + "big APPEND INBOX " + flags + "{" + size + plusSign + "}\r\n"
			if plusSign != "" {
				input += canaryPayload(5000) // the first octets of the announced data
			}
			what = "APPEND of " + size + " octets (limit 104857600)"
		case "buffered":
			size := rapid.SampledFrom([]string{"4097", "5000", "70000", "2147483648", "9223372036854775808", "18446744073709551615"}).Draw(t, "size")
			if len(size) > 19 || (len(size) == 19 && size > "9223372036854775807") {
				plusSign = ""
			}
			cmd := rapid.SampledFrom([]string{"LOGIN ", "SELECT ", "CREATE ", "LIST \"\" ", "LSUB \"\" ", "SEARCH SUBJECT ", "STATUS ", "RENAME a ", "SEARCH HEADER X-A ", "STORE 1 +FLAGS ", "COPY 1 "}).Draw(t, "cmd")
			input = prefix + "big " + cmd + "{" + size + plusSign + "}\r\n"
			if plusSign != "" {
				n, _ := strconv.Atoi(size)
				if n > 70000 {
					n = 5000 // only the first octets of the announced data
				}
				input += canaryPayload(n) + "\r\nafter NOOP\r\n"
			}
			what = "buffered " + strings.TrimSpace(cmd) + " argument of " + size + " octets (limit 4096)"
		default:
			n := rapid.SampledFrom([]int{4000, 4094, 4095, 4096, 4097, 4200, 8192, 70000}).Draw(t, "linelen")
			if rapid.Bool().Draw(t, "sasl") {
				input = prefix + "big AUTHENTICATE PLAIN\r\n" + strings.Repeat("A", n) + "\r\nafter NOOP\r\n"
				what = fmt.Sprintf("SASL response line of %d octets", n)
			} else {
				input = "p1 LOGIN u p\r\nbig IDLE\r\n" + strings.Repeat("D", n) + "\r\nafter NOOP\r\n"
				what = fmt.Sprintf("line of %d octets instead of DONE", n)
			}
			expectPlus = 1
		}
		end := rapid.SampledFrom([]string{"halfclose", "halfclose", "close"}).Draw(t, "end")
		calls := feed(t, []byte(input), end, "oversize")
		for _, c := range calls {
			for k, v := range c.Args {
				if sv, ok := v.(string); ok && len(sv) > 4096 {
					t.Fatalf("%s: a %d-octet string reached the backend (%s.%s)", what, len(sv), c.Method, k)
				}
			}
			if c.Method == "Delete" {
				t.Fatalf("%s: the payload of the refused literal was executed as a command (Delete reached the backend)", what)
			}
		}
		if end == "halfclose" {
			out := string(lastOutput)
			plus := 0
			for _, l := range strings.Split(out, "\r\n") {
				if strings.HasPrefix(l, "+") {
					plus++
				}
			}
			if plus > expectPlus {
				t.Fatalf("%s in state %q (LITERAL+=%v): the server sent %d continuation request(s), i.e. it agreed to read the data instead of refusing it first; output %q", what, prefix, literalPlus, plus, clip(out))
			}
			if kind != "longline" && !strings.Contains(out, "big NO") && !strings.Contains(out, "big BAD") && !strings.Contains(out, "* BYE") {
				t.Fatalf("%s in state %q: neither a tagged NO/BAD nor BYE in the output %q", what, prefix, clip(out))
			}
		}
		ev.Eval()
		ev.NonTrivial(kind + "|" + prefix + "|" + what)
		ev.Class("oversize:" + kind)
		ev.Sample(fmt.Sprintf("oversize: %s after %q, LITERAL+=%v, end=%s", what, prefix, literalPlus, end))
	})
}

// ---------------------------------------------------------------- nesting / recursion probe

type nestCase struct {
	name  string
	build func(d int) string
}

var nestCases = []nestCase{
	{"LIST select-opts (", func(d int) string { return "a LIST " + strings.Repeat("(", d) + "\r\n" }},
	{"SEARCH (", func(d int) string {
		return "a SEARCH " + strings.Repeat("(", d) + "ALL" + strings.Repeat(")", d) + "\r\n"
	}},
	{"SEARCH NOT", func(d int) string { return "a SEARCH " + strings.Repeat("NOT ", d) + "ALL\r\n" }},
	{"SEARCH OR", func(d int) string {
		return "a SEARCH " + strings.Repeat("OR ", d) + "ALL" + strings.Repeat(" ALL", d) + "\r\n"
	}},
	{"SEARCH NOT (", func(d int) string {
		return "a SEARCH " + strings.Repeat("NOT (", d) + "ALL" + strings.Repeat(")", d) + "\r\n"
	}},
	{"FETCH header list (", func(d int) string { return "a FETCH 1 BODY[HEADER.FIELDS " + strings.Repeat("(", d) + "\r\n" }},
	{"STATUS (", func(d int) string { return "a STATUS x " + strings.Repeat("(", d) + "\r\n" }},
	{"STORE (", func(d int) string { return "a STORE 1 FLAGS " + strings.Repeat("(", d) + "\r\n" }},
	{"APPEND (", func(d int) string { return "a APPEND x " + strings.Repeat("(", d) + "\r\n" }},
	{"CREATE USE (", func(d int) string { return "a CREATE x (USE " + strings.Repeat("(", d) + "\r\n" }},
}

var nestDepths = []int{999, 1000, 1001, 5000, 200000}

// TestChildNesting runs one (construct, depth) with a 32 MiB stack cap: the
// parser needs far less than that for any input it is willing to accept
// (nesting is capped at 1000 levels), so exceeding it is unbounded recursion.
func TestChildNesting(t *testing.T) {
	if os.Getenv("VERIF_CHILD") != "1" {
		t.Skip("child-process helper")
	}
	debug.SetMaxStack(32 << 20)
	ci, _ := strconv.Atoi(os.Getenv("VERIF_CASE"))
	d, _ := strconv.Atoi(os.Getenv("VERIF_DEPTH"))
	pre := os.Getenv("VERIF_PRE")
	// history of the connection: commands carrying empty lists (the cap must
	// not depend on what was parsed before)
	if n, _ := strconv.Atoi(os.Getenv("VERIF_EMPTYLISTS")); n > 0 && pre != "" {
		var b strings.Builder
		for i := 0; i < n; i++ {
			switch i % 3 {
			case 0:
				fmt.Fprintf(&b, "e%d STORE 1 +FLAGS.SILENT ()\r\n", i)
			case 1:
				fmt.Fprintf(&b, "e%d LIST () \"\" \"%%\"\r\n", i)
			default:
				fmt.Fprintf(&b, "e%d STATUS INBOX ()\r\n", i)
			}
		}
		pre += b.String()
	}
	input := pre + nestCases[ci].build(d)
	calls := feed(t, []byte(input), "halfclose", fmt.Sprintf("%s x %d", nestCases[ci].name, d))
	// "list nesting is bounded": nothing nested deeper than the cap may be
	// accepted and handed to the backend
	if d > 1000 && strings.HasPrefix(nestCases[ci].name, "SEARCH") && strings.Contains(nestCases[ci].name, "(") {
		nested := 0
		for _, c := range calls {
			if c.Method == "Search" {
				nested++
			}
		}
		if nested > 0 {
			t.Fatalf("%s: a SEARCH nested %d levels deep (cap 1000) was accepted and reached the backend", nestCases[ci].name, d)
		}
	}
	var ms runtime.MemStats
	runtime.ReadMemStats(&ms)
	fmt.Printf("CHILD-OK total_alloc=%d input=%d\n", ms.TotalAlloc, len(input))
}

func TestReplayNesting(t *testing.T) {
	depths := nestDepths
	for ci, nc := range nestCases {
		for _, d := range depths {
			for pi, pre := range []string{"", "p1 LOGIN u p\r\np2 SELECT INBOX\r\n", "p1 LOGIN u p\r\np2 SELECT INBOX\r\n"} {
				emptyLists := 0
				if pi == 2 {
					if d != 1001 && d != 5000 {
						continue
					}
					emptyLists = 9000
				}
				cmd := exec.Command(os.Args[0], "-test.run", "^TestChildNesting$", "-test.v")
				cmd.Env = append(os.Environ(), "VERIF_CHILD=1", "VERIF_CASE="+strconv.Itoa(ci), "VERIF_DEPTH="+strconv.Itoa(d), "VERIF_PRE="+pre, "VERIF_EMPTYLISTS="+strconv.Itoa(emptyLists), "VERIF_OUT=")
				out, err := cmd.CombinedOutput()
				ev.Eval()
				ev.NonTrivial(fmt.Sprint("nest", nc.name, d, pre != "", emptyLists))
				ev.Class("nesting-probe")
				if err != nil || !strings.Contains(string(out), "CHILD-OK") {
					s := string(out)
					head := s
					if len(head) > 1500 {
						head = head[:1500]
					}
					t.Fatalf("nesting probe %q at depth %d (authenticated=%v, after %d commands with empty lists): the server process failed (%v):\n%s", nc.name, d, pre != "", emptyLists, err, head)
				}
			}
		}
	}
	ev.Sample("nesting probe: " + fmt.Sprint(len(nestCases)) + " constructs x depths " + fmt.Sprint(depths) + " x {pre-auth, selected}, child process with 32MiB stack cap")
}

// FuzzServerBytes (thorough tier): coverage-guided client byte streams with the
// oracles of feed (no panic, no goroutine left, session closed exactly once,
// append limit) on top of the generated campaigns.
func FuzzServerBytes(f *testing.F) {
	for _, s := range []string{"a NOOP\r\n", "a LOGIN u p\r\nb SELECT INBOX\r\nc FETCH 1:* (FLAGS BODY[HEADER.FIELDS (A B)]<0.5>)\r\n", "a LOGIN {1+}\r\nu p\r\n", "a AUTHENTICATE PLAIN\r\nAHUAcA==\r\n",
		"a LOGIN u p\r\nb IDLE\r\nDONE\r\n", "a APPEND x (\\Seen) {5}\r\nhello\r\n", "a SEARCH OR NOT (ALL) HEADER x {1}\r\ny\r\n", "a LIST (SUBSCRIBED) \"\" (\"%\" \"*\") RETURN (STATUS (MESSAGES))\r\n",
		"a STARTTLS\r\n", "a UID MOVE 1:* x\r\n", "a STORE 1 +FLAGS.SILENT (\\Seen)\r\n", "a ENABLE IMAP4rev2\r\nb LOGOUT\r\n", "((((", "a FETCH 1 BINARY.SIZE[1.2]\r\n", "{9223372036854775807+}\r\n"} {
		f.Add([]byte(s), false)
		f.Add([]byte("p1 LOGIN u p\r\np2 SELECT INBOX\r\n"+s), true)
	}
	f.Fuzz(func(t *testing.T, data []byte, lp bool) {
		if len(data) > 3000 {
			return
		}
		literalPlus = lp
		feed(t, data, "halfclose", "fuzz")
	})
}
