package c06

// Disconnect points with the repository's own in-memory backend behind the
// server (the stub session of the other tests writes its responses "by the
// book"; a real backend streams body literals and may bail out half-way).
// For every cut point of a transcript the client disappears (close or reset)
// without reading anything; afterwards the connection's goroutines must be
// gone and the session must have been closed exactly once.

import (
	"errors"
	"fmt"
	"strings"
	"sync"
	"sync/atomic"
	"testing"
	"time"

	imap "github.com/emersion/go-imap/v2"
	"github.com/emersion/go-imap/v2/imapserver"
	"github.com/emersion/go-imap/v2/imapserver/imapmemserver"
	"github.com/emersion/go-imap/v2/verifh/kit/ev"
	"github.com/emersion/go-imap/v2/verifh/kit/srv"
	"github.com/emersion/go-imap/v2/verifh/kit/tok"
	"pgregory.net/rapid"
)

// countedSession wraps the backend session to count Close calls.
type countedSession struct {
	imapserver.SessionIMAP4rev2
	closes *int64
}

func (s countedSession) Close() error {
	atomic.AddInt64(s.closes, 1)
	return s.SessionIMAP4rev2.Close()
}

type memWorld struct {
	env    *srv.Env
	mu     sync.Mutex
	closes []*int64
}

var (
	memOnce sync.Once
	memW    *memWorld
)

func getMemWorld(t fataler) *memWorld {
	memOnce.Do(func() {
		mem := imapmemserver.New()
		user := imapmemserver.NewUser("u", "p")
		user.Create("INBOX", nil)
		user.Create("Other", nil)
		mem.AddUser(user)
		w := &memWorld{}
		w.env = srv.Start(imapserver.Options{
			NewSession: func(*imapserver.Conn) (imapserver.Session, *imapserver.GreetingData, error) {
				n := new(int64)
				w.mu.Lock()
				w.closes = append(w.closes, n)
				w.mu.Unlock()
				return countedSession{mem.NewSession().(imapserver.SessionIMAP4rev2), n}, nil, nil
			},
			InsecureAuth: true,
			Caps:         imap.CapSet{imap.CapIMAP4rev1: {}, imap.CapIMAP4rev2: {}, imap.CapLiteralPlus: {}, imap.CapMove: {}, imap.CapUIDPlus: {}},
		})
		// a few messages, some with a body larger than any socket buffer
		raw := w.env.Dial()
		raw.Greeting()
		raw.Cmd("l", "LOGIN u p")
		for i := 0; i < 6; i++ {
			body := "From: a@example.org\r\nSubject: m" + fmt.Sprint(i) + "\r\n\r\n" + strings.Repeat("line of text in the body of the message\r\n", 5+i*400)
			raw.Cmd(fmt.Sprintf("a%d", i), fmt.Sprintf("APPEND INBOX {%d+}\r\n%s", len(body), body))
		}
		raw.Close()
		memW = w
	})
	return memW
}

// feedMemBreak: the client sends the whole input and vanishes when it has
// received breakAt-1 bytes of the server's output (the server's write fails
// there, as on a reset socket); breakAt == 0 runs without a fault and returns
// the length of the server's complete output.
func feedMemBreak(t fataler, input string, breakAt int64) int64 {
	w := getMemWorld(t)
	w.mu.Lock()
	before := len(w.closes)
	w.mu.Unlock()
	raw := w.env.Dial()
	what := fmt.Sprintf("in-memory backend, client gone after %d bytes of server output, input %q", breakAt-1, clip(input))
	if breakAt > 0 {
		raw.C.BreakPeerWritesAt(breakAt, errors.New("write: broken pipe"), func() { raw.C.Reset(errors.New("connection reset by peer")) })
	} else {
		what = fmt.Sprintf("in-memory backend, no fault, input %q", clip(input))
	}
	raw.C.Write([]byte(input))
	if breakAt == 0 {
		raw.C.CloseWrite()
	}
	if !raw.WaitServerClosed(10 * time.Second) {
		_, dump := serverGoroutines()
		t.Fatalf("%s: the server did not close its end within 10s; goroutines:\n%s", what, clipDump(dump))
	}
	total := raw.S.TotalWritten()
	raw.C.Close()
	deadline := time.Now().Add(5 * time.Second)
	for {
		n, dump := serverGoroutines()
		if n == 0 {
			break
		}
		if time.Now().After(deadline) {
			t.Fatalf("%s: %d server goroutine(s) still alive after the peer is gone:\n%s", what, n, clipDump(dump))
		}
		time.Sleep(200 * time.Microsecond)
	}
	w.mu.Lock()
	defer w.mu.Unlock()
	if len(w.closes) != before+1 {
		t.Fatalf("%s: expected one session, got %d", what, len(w.closes)-before)
	}
	if n := atomic.LoadInt64(w.closes[len(w.closes)-1]); n != 1 {
		t.Fatalf("%s: session closed %d times", what, n)
	}
	return total
}

func feedMem(t fataler, input string, end string) {
	w := getMemWorld(t)
	w.mu.Lock()
	before := len(w.closes)
	w.mu.Unlock()
	raw := w.env.Dial()
	if _, err := raw.Greeting(); err != nil {
		t.Fatalf("mem backend: no greeting: %v", err)
	}
	raw.C.Write([]byte(input))
	switch end {
	case "close":
		raw.C.Close()
	case "reset":
		// the peer is gone for good: what the server still writes fails
		raw.C.BreakPeerWrites(errors.New("write: broken pipe"))
		raw.C.Reset(errors.New("connection reset by peer"))
	case "halfclose":
		raw.C.CloseWrite()
	}
	if !raw.WaitServerClosed(10 * time.Second) {
		_, dump := serverGoroutines()
		t.Fatalf("in-memory backend, %s after input %q: the server did not close its end within 10s; goroutines:\n%s", end, clip(input), clipDump(dump))
	}
	raw.C.Close()
	deadline := time.Now().Add(5 * time.Second)
	for {
		n, dump := serverGoroutines()
		if n == 0 {
			break
		}
		if time.Now().After(deadline) {
			t.Fatalf("in-memory backend, %s after input %q: %d server goroutine(s) still alive after the peer is gone:\n%s", end, clip(input), n, clipDump(dump))
		}
		time.Sleep(200 * time.Microsecond)
	}
	w.mu.Lock()
	defer w.mu.Unlock()
	if len(w.closes) != before+1 {
		t.Fatalf("in-memory backend: expected one session, got %d", len(w.closes)-before)
	}
	if n := atomic.LoadInt64(w.closes[len(w.closes)-1]); n != 1 {
		t.Fatalf("in-memory backend, %s after input %q: session closed %d times", end, clip(input), n)
	}
}

var memCommands = []string{"FETCH 1:* (FLAGS UID)", "FETCH 1:* (BODY[])", "FETCH 2:3 (BODY.PEEK[TEXT] ENVELOPE BODYSTRUCTURE)", "UID FETCH 1:* (BODY.PEEK[HEADER])", "STORE 1:* +FLAGS (kw)",
	"SEARCH TEXT line", "COPY 1:2 Other", "NOOP", "LIST \"\" \"*\"", "STATUS Other (MESSAGES)", "IDLE", "UID SEARCH RETURN (ALL) ALL", "EXPUNGE"}

// TestPropDisconnectMem: generated transcripts against the in-memory backend,
// the client gone at every offset (quick: every 3rd) without reading a byte.
func TestPropDisconnectMem(t *testing.T) {
	rapid.Check(t, func(t *rapid.T) {
		var sb strings.Builder
		sb.WriteString("p1 LOGIN u p\r\np2 SELECT INBOX\r\n")
		for i, n := 0, rapid.IntRange(1, 4).Draw(t, "ncmds"); i < n; i++ {
			fmt.Fprintf(&sb, "c%d %s\r\n", i, rapid.SampledFrom(memCommands).Draw(t, "cmd"))
		}
		tr := sb.String()
		step := 3
		if ev.Thorough() {
			step = 1
		}
		off := rapid.IntRange(0, step-1).Draw(t, "phase")
		n := 0
		for k := off; k <= len(tr); k += step {
			for _, end := range []string{"close", "reset"} {
				feedMem(t, tr[:k], end)
				n++
			}
		}
		feedMem(t, tr, "close")
		feedMem(t, tr, "halfclose")
		// the other direction: the client is gone after having received k bytes
		// of the responses (k sampled over the whole output, dense at the start
		// and around drawn points inside large literals)
		total := feedMemBreak(t, tr+"zz LOGOUT\r\n", 0)
		points := map[int64]bool{}
		for k := int64(1); k <= total && k <= 400; k += int64(step) {
			points[k] = true
		}
		for i := 0; i < 24; i++ {
			points[1+rapid.Int64Range(0, total-1).Draw(t, "breakAt")] = true
		}
		for k := range points {
			feedMemBreak(t, tr+"zz LOGOUT\r\n", k)
			n++
		}
		ev.ClassN("disconnect:server-output-offsets", int64(len(points)))
		ev.EvalN(int64(n + 3))
		ev.NonTrivial("discmem:" + tr)
		ev.Class("disconnect-transcript:in-memory-backend")
		ev.Sample("disconnect sweep (in-memory backend) over " + clip(tr))
	})
}

// TestReplayMemDisconnect: the client vanishes in the middle of a FETCH body
// literal served by the in-memory backend (F-C06b: the failed body section
// write used to leave the response encoder locked; the connection's goroutine
// never ended and the session was never closed).
func TestReplayMemDisconnect(t *testing.T) {
	in := "p1 LOGIN u p\r\np2 SELECT INBOX\r\nc0 FETCH 2:3 (BODY.PEEK[TEXT] ENVELOPE BODYSTRUCTURE)\r\nc1 FETCH 1:* (BODY[])\r\nzz LOGOUT\r\n"
	total := feedMemBreak(t, in, 0)
	n := 0
	for _, k := range []int64{total / 7, total / 3, total / 2, total*2/3 + 1, total - 40} {
		if k > 0 {
			feedMemBreak(t, in, k)
			n++
		}
	}
	ev.EvalN(int64(n + 1))
	ev.NonTrivial("replay:mem-backend-client-gone-inside-body-literal")
}

// TestPropIdlePeerStalls: a peer idles on a mailbox, stops reading (the
// server's writes to it block, as on a socket whose buffers are full) and
// later vanishes, while a second, well-behaved connection keeps changing the
// same mailbox. Every command of the second connection completes, and once
// the first peer is gone its connection is closed, its session is closed
// exactly once and no server goroutine is left.
func TestPropIdlePeerStalls(t *testing.T) {
	rapid.Check(t, func(t *rapid.T) {
		w := getMemWorld(t)
		w.mu.Lock()
		before := len(w.closes)
		w.mu.Unlock()
		nBefore := rapid.SampledFrom([]int{0, 0, 1, 5}).Draw(t, "updatesBeforeStall")
		nStalled := rapid.SampledFrom([]int{1, 10, 63, 64, 65, 66, 67, 70, 100, 150}).Draw(t, "updatesWhileStalled")
		idle := rapid.IntRange(0, 5).Draw(t, "idle") != 0 // otherwise the peer just sits in the selected state
		// or: the peer stops reading and then asks for message data; the
		// server's writes to it block and may only do so until its write
		// timeouts (30 s per response, 5 min per literal; shortened 1000 times
		// by the transport here) have passed - other connections on the same
		// mailbox must not be held up any longer than that
		stalledFetch := ""
		if rapid.IntRange(0, 2).Draw(t, "stalledFetch") == 0 {
			idle = false
			stalledFetch = rapid.SampledFrom([]string{"FETCH 1:* (BODY.PEEK[HEADER])", "FETCH 1:2 (FLAGS BODY.PEEK[HEADER.FIELDS (Subject)])", "FETCH 1:* (BODY.PEEK[])", "FETCH 1:* (FLAGS INTERNALDATE)", "UID FETCH 1:* (BODY.PEEK[TEXT]<0.10>)"}).Draw(t, "fetch")
		}
		end := rapid.SampledFrom([]string{"reset", "reset", "close", "resume-logout"}).Draw(t, "end")
		kind := rapid.SampledFrom([]string{"store", "store", "append-expunge"}).Draw(t, "changes")
		what := fmt.Sprintf("peer A %s on INBOX, stops reading, peer B makes %d+%d %s changes, A ends with %s",
			map[bool]string{true: "idles", false: "selected"}[idle], nBefore, nStalled, kind, end)
		if stalledFetch != "" {
			what = fmt.Sprintf("peer A has INBOX selected, stops reading and sends %q, peer B makes %d+%d %s changes, A ends with %s", stalledFetch, nBefore, nStalled, kind, end)
		}

		a, b := w.env.Dial(), w.env.Dial()
		defer a.C.Close()
		defer b.C.Close()
		for _, r := range []*srv.Raw{a, b} {
			if _, err := r.Greeting(); err != nil {
				t.Fatalf("%s: no greeting: %v", what, err)
			}
			for i, c := range []string{"LOGIN u p", "SELECT INBOX"} {
				if _, st, err := r.Cmd(fmt.Sprintf("p%d", i), c); err != nil || st.Status != "OK" {
					t.Fatalf("%s: %s: %v %v", what, c, st, err)
				}
			}
		}
		if idle {
			a.Send("i1 IDLE\r\n")
			if _, err := a.Until(func(l *tok.Line) bool { return l.IsCont }); err != nil {
				t.Fatalf("%s: IDLE: no continuation request: %v", what, err)
			}
		}
		n := 0
		change := func(phase string) {
			n++
			var cmds []string
			if kind == "store" {
				op := "+"
				if n%2 == 0 {
					op = "-"
				}
				cmds = []string{fmt.Sprintf("STORE 1 %sFLAGS (stalltest)", op)}
			} else {
				cmds = []string{"APPEND INBOX (\\Deleted) {3+}\r\nx\r\n", "EXPUNGE"}
			}
			for _, c := range cmds {
				tag := fmt.Sprintf("b%d", n)
				if _, st, err := b.Cmd(tag, c); err != nil || st.Status != "OK" {
					_, dump := serverGoroutines()
					t.Fatalf("%s: B's command %d (%s, %s) did not complete: %v %v; goroutines:\n%s", what, n, strings.Fields(c)[0], phase, st, err, clipDump(dump))
				}
			}
		}
		for i := 0; i < nBefore; i++ {
			change("A reading")
		}
		a.C.StallPeerWrites(true)
		if stalledFetch != "" {
			a.S.ScaleWriteDeadlines(1000)
			a.Send("f1 " + stalledFetch + "\r\n")
			ev.Class("idle-peer-stalls:stalled FETCH")
		}
		for i := 0; i < nStalled; i++ {
			change("A not reading")
		}
		switch end {
		case "reset":
			a.C.BreakPeerWrites(errors.New("write: broken pipe"))
			a.C.Reset(errors.New("connection reset by peer"))
		case "close":
			a.C.Close()
		case "resume-logout":
			a.C.StallPeerWrites(false)
			if idle {
				a.Send("DONE\r\n")
			}
			a.Send("z LOGOUT\r\n")
		}
		if !a.WaitServerClosed(10 * time.Second) {
			_, dump := serverGoroutines()
			t.Fatalf("%s: the server did not close A's connection within 10s; goroutines:\n%s", what, clipDump(dump))
		}
		// B is still served
		change("A gone")
		if _, st, err := b.Cmd("bz", "LOGOUT"); err != nil || st.Status != "OK" {
			t.Fatalf("%s: B's LOGOUT: %v %v", what, st, err)
		}
		if !b.WaitServerClosed(10 * time.Second) {
			t.Fatalf("%s: the server did not close B's connection after LOGOUT", what)
		}
		deadline := time.Now().Add(5 * time.Second)
		for {
			g, dump := serverGoroutines()
			if g == 0 {
				break
			}
			if time.Now().After(deadline) {
				t.Fatalf("%s: %d server goroutine(s) still alive after both peers are gone:\n%s", what, g, clipDump(dump))
			}
			time.Sleep(200 * time.Microsecond)
		}
		w.mu.Lock()
		defer w.mu.Unlock()
		if len(w.closes) != before+2 {
			t.Fatalf("%s: expected two sessions, got %d", what, len(w.closes)-before)
		}
		for _, c := range w.closes[before:] {
			if k := atomic.LoadInt64(c); k != 1 {
				t.Fatalf("%s: a session was closed %d times", what, k)
			}
		}
		ev.Eval()
		ev.NonTrivial("idlestall:" + what)
		ev.Class("idle-peer-stalls:end=" + end)
		if nStalled > 64 {
			ev.Class("idle-peer-stalls:more than 64 updates while not reading")
		}
		ev.Sample(what)
	})
}
