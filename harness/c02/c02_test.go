// Package c02 decides property C02: client commands reach the server backend
// with the caller's arguments intact. A real imapclient.Client drives a real
// imapserver whose session is the recording stub; after every command the
// recorded backend call is compared (semantic equality) with the API call.
package c02

import (
	"bytes"
	"fmt"
	"sort"
	"strings"
	"testing"
	"time"

	"github.com/emersion/go-sasl"

	imap "github.com/emersion/go-imap/v2"
	"github.com/emersion/go-imap/v2/imapserver"
	"github.com/emersion/go-imap/v2/verifh/kit/cs"
	"github.com/emersion/go-imap/v2/verifh/kit/ev"
	"github.com/emersion/go-imap/v2/verifh/kit/gen"
	"github.com/emersion/go-imap/v2/verifh/kit/refutf7"
	"github.com/emersion/go-imap/v2/verifh/kit/stub"
	"pgregory.net/rapid"
)

func TestMain(m *testing.M) { ev.Main(m) }

type config struct {
	rev2, literalPlus, move, uidplus bool
	enable                           string // "", "UTF8=ACCEPT", "IMAP4rev2"
}

func (c config) String() string {
	return fmt.Sprintf("rev2=%v literal+=%v move=%v uidplus=%v enable=%q", c.rev2, c.literalPlus, c.move, c.uidplus, c.enable)
}

func (c config) caps() imap.CapSet {
	caps := imap.CapSet{imap.CapIMAP4rev1: {}}
	if c.rev2 {
		caps[imap.CapIMAP4rev2] = struct{}{}
	}
	if c.literalPlus {
		caps[imap.CapLiteralPlus] = struct{}{}
	}
	if c.move {
		caps[imap.CapMove] = struct{}{}
	}
	if c.uidplus {
		caps[imap.CapUIDPlus] = struct{}{}
	}
	caps[imap.CapNamespace] = struct{}{}
	return caps
}

type fataler interface {
	Fatalf(format string, args ...any)
}

type run struct {
	cfg  config
	p    *cs.Pair
	hist []string
	t    fataler
}

func (r *run) fail(f string, a ...any) {
	wire := string(r.p.ClientBytes.Bytes())
	if len(wire) > 1500 {
		wire = "…" + wire[len(wire)-1500:]
	}
	r.t.Fatalf("[%s] %s\nhistory: %s\nclient wire (tail): %q\nserver log: %v", r.cfg, fmt.Sprintf(f, a...), strings.Join(r.hist, " | "), wire, r.p.Env.Log.Lines())
}

func (r *run) wait(what string, f func() error) {
	if err := cs.Within(10*time.Second, what, f); err != nil {
		r.fail("%s failed: %v", what, err)
	}
}

// one returns the single non-Poll backend call recorded since the last reset.
func (r *run) calls(n int, what string) []stub.Call {
	calls := r.p.Core.Calls()
	if len(calls) != n {
		r.fail("%s: expected %d backend call(s), recorded %v", what, n, calls)
	}
	r.p.Core.Reset()
	return calls
}

func canonMailbox(s string) string {
	if strings.EqualFold(s, "INBOX") {
		return "INBOX"
	}
	return s
}

func clip(s string) string {
	if len(s) > 80 {
		return s[:50] + "…" + s[len(s)-20:]
	}
	return s
}

func (r *run) eqStr(what, got, want string) {
	if got != want {
		r.fail("%s: backend received %q (%d bytes), the caller passed %q (%d bytes)", what, clip(got), len(got), clip(want), len(want))
	}
}

func numSetString(s imap.NumSet) string {
	if imap.IsSearchRes(s) {
		return "$"
	}
	return fmt.Sprintf("%T:%s", s, s.String())
}

func flagsKey(fl []imap.Flag) string {
	var l []string
	for _, f := range fl {
		l = append(l, strings.ToLower(string(f)))
	}
	sort.Strings(l)
	return strings.Join(l, " ")
}

func ymd(t time.Time) string {
	if t.IsZero() {
		return "-"
	}
	y, m, d := t.Date()
	return fmt.Sprintf("%04d-%02d-%02d", y, m, d)
}

// critKey renders search criteria in the semantic normal form used for
// comparison (dates by calendar day, header/flag names case-folded).
func critKey(c *imap.SearchCriteria) string {
	var sb strings.Builder
	for _, s := range c.SeqNum {
		fmt.Fprintf(&sb, "SEQ(%s) ", s.String())
	}
	for _, s := range c.UID {
		fmt.Fprintf(&sb, "UID(%s) ", numSetString(s))
	}
	fmt.Fprintf(&sb, "since=%s before=%s sentsince=%s sentbefore=%s ", ymd(c.Since), ymd(c.Before), ymd(c.SentSince), ymd(c.SentBefore))
	for _, h := range c.Header {
		fmt.Fprintf(&sb, "HDR(%q=%q) ", strings.ToLower(h.Key), h.Value)
	}
	for _, s := range c.Body {
		fmt.Fprintf(&sb, "BODY(%q) ", s)
	}
	for _, s := range c.Text {
		fmt.Fprintf(&sb, "TEXT(%q) ", s)
	}
	for _, f := range c.Flag {
		fmt.Fprintf(&sb, "FLAG(%s) ", strings.ToLower(string(f)))
	}
	for _, f := range c.NotFlag {
		fmt.Fprintf(&sb, "NOTFLAG(%s) ", strings.ToLower(string(f)))
	}
	fmt.Fprintf(&sb, "larger=%d smaller=%d ", c.Larger, c.Smaller)
	for i := range c.Not {
		fmt.Fprintf(&sb, "NOT[%s] ", critKey(&c.Not[i]))
	}
	for i := range c.Or {
		fmt.Fprintf(&sb, "OR[%s][%s] ", critKey(&c.Or[i][0]), critKey(&c.Or[i][1]))
	}
	return sb.String()
}

func sectionKey(s *imap.FetchItemBodySection) string {
	p := "-"
	if s.Partial != nil {
		p = fmt.Sprintf("%d.%d", s.Partial.Offset, s.Partial.Size)
	}
	return fmt.Sprintf("BODY{spec=%s part=%v fields=%q not=%q partial=%s peek=%v}", s.Specifier, s.Part, s.HeaderFields, s.HeaderFieldsNot, p, s.Peek)
}

func fetchKey(o *imap.FetchOptions) string {
	var items []string
	if o.BodyStructure != nil {
		items = append(items, fmt.Sprintf("BODYSTRUCTURE(ext=%v)", o.BodyStructure.Extended))
	}
	for _, kv := range []struct {
		k string
		v bool
	}{{"ENVELOPE", o.Envelope}, {"FLAGS", o.Flags}, {"INTERNALDATE", o.InternalDate}, {"RFC822.SIZE", o.RFC822Size}, {"UID", o.UID}} {
		if kv.v {
			items = append(items, kv.k)
		}
	}
	sort.Strings(items)
	for _, s := range o.BodySection {
		items = append(items, sectionKey(s))
	}
	for _, s := range o.BinarySection {
		p := "-"
		if s.Partial != nil {
			p = fmt.Sprintf("%d.%d", s.Partial.Offset, s.Partial.Size)
		}
		items = append(items, fmt.Sprintf("BINARY{part=%v partial=%s peek=%v}", s.Part, p, s.Peek))
	}
	for _, s := range o.BinarySectionSize {
		items = append(items, fmt.Sprintf("BINARY.SIZE{part=%v}", s.Part))
	}
	return strings.Join(items, " ")
}

// ---------------------------------------------------------------- generators

// The server buffers string arguments of at most 4096 octets (longer literals
// are refused by design), so generated arguments stay within that bound; the
// boundary itself (4095, 4096) is kept.
func genStr(t *rapid.T, label string) string {
	s := gen.Bytes(t, label, true).S
	if len(s) > 4096 {
		s = s[:4096]
	}
	return s
}

func genMailbox(t *rapid.T, label string) string {
	s := gen.Mailbox(t, label).S
	for len(refutf7.Encode(s)) > 4096 {
		r := []rune(s)
		s = string(r[:len(r)-len(r)/8-1])
	}
	return s
}

func genSeqSet(t *rapid.T, label string) imap.SeqSet {
	var s imap.SeqSet
	for i, n := 0, rapid.IntRange(1, 3).Draw(t, label+".n"); i < n; i++ {
		a := rapid.SampledFrom([]uint32{1, 2, 3, 7, 10, 100, 4294967295, 0}).Draw(t, label+".a")
		if rapid.Bool().Draw(t, label+".range") {
			b := rapid.SampledFrom([]uint32{1, 5, 9, 50, 4294967294, 0}).Draw(t, label+".b")
			s.AddRange(a, b)
		} else {
			s.AddNum(a)
		}
	}
	return s
}

func genNumSet(t *rapid.T, label string, allowSearchRes bool) imap.NumSet {
	seq := genSeqSet(t, label)
	switch rapid.IntRange(0, 5).Draw(t, label+".kind") {
	case 0, 1, 2:
		return seq
	case 5:
		if allowSearchRes {
			return imap.SearchRes()
		}
		fallthrough
	default:
		var u imap.UIDSet
		for _, r := range seq {
			u.AddRange(imap.UID(r.Start), imap.UID(r.Stop))
		}
		return u
	}
}

func genFlags(t *rapid.T, label string, min int) []imap.Flag {
	var fl []imap.Flag
	for i, n := 0, rapid.IntRange(min, 3).Draw(t, label+".n"); i < n; i++ {
		if rapid.IntRange(0, 5).Draw(t, label+".lookalike") == 0 {
			// keywords spelled like a system flag, without the backslash
			fl = append(fl, imap.Flag(rapid.SampledFrom([]string{"Seen", "deleted", "ANSWERED", "Flagged", "draft", "Recent"}).Draw(t, label+".kw")))
			continue
		}
		fl = append(fl, imap.Flag(gen.ValidFlag(t, label)))
	}
	return fl
}

// genSparseCriteria: one to three keys only (the operands of NOT and OR that
// invite "simplifications": a single flag, a flag and a size, a date range...).
func genSparseCriteria(t *rapid.T) imap.SearchCriteria {
	var c imap.SearchCriteria
	for i, n := 0, rapid.IntRange(1, 3).Draw(t, "sparse.n"); i < n; i++ {
		switch rapid.SampledFrom([]string{"flag", "flag", "notflag", "larger", "smaller", "since", "before", "body", "uid", "seq", "header"}).Draw(t, "sparse.key") {
		case "flag":
			c.Flag = append(c.Flag, imap.Flag(rapid.SampledFrom([]string{"\\Seen", "\\Deleted", "\\Answered", "\\Flagged", "\\Draft", "$Junk", "kw", "Seen"}).Draw(t, "sparse.flag")))
		case "notflag":
			c.NotFlag = append(c.NotFlag, imap.Flag(rapid.SampledFrom([]string{"\\Seen", "\\Deleted", "\\Flagged", "kw", "deleted"}).Draw(t, "sparse.notflag")))
		case "larger":
			c.Larger = rapid.SampledFrom([]int64{1, 100, 4096}).Draw(t, "sparse.larger")
		case "smaller":
			c.Smaller = rapid.SampledFrom([]int64{1, 100, 4096}).Draw(t, "sparse.smaller")
		case "since":
			c.Since = genTime(t, "sparse.since")
		case "before":
			c.Before = genTime(t, "sparse.before")
		case "body":
			c.Body = append(c.Body, genStr(t, "sparse.body"))
		case "uid":
			var u imap.UIDSet
			u.AddNum(imap.UID(rapid.IntRange(1, 9).Draw(t, "sparse.uid")))
			c.UID = append(c.UID, u)
		case "seq":
			c.SeqNum = append(c.SeqNum, genSeqSet(t, "sparse.seq"))
		case "header":
			c.Header = append(c.Header, imap.SearchCriteriaHeaderField{Key: "Subject", Value: genStr(t, "sparse.hval")})
		}
	}
	return c
}

var zones = []*time.Location{time.UTC, time.FixedZone("", 5*3600+1800), time.FixedZone("", -8*3600), time.FixedZone("", 14*3600), time.FixedZone("PDT", -7*3600), time.FixedZone("CEST", 2*3600)}

func genTime(t *rapid.T, label string) time.Time {
	loc := rapid.SampledFrom(zones).Draw(t, label+".zone")
	return time.Date(rapid.IntRange(1990, 2037).Draw(t, label+".y"), time.Month(rapid.IntRange(1, 12).Draw(t, label+".mo")), rapid.IntRange(1, 28).Draw(t, label+".d"),
		rapid.IntRange(0, 23).Draw(t, label+".h"), rapid.IntRange(0, 59).Draw(t, label+".mi"), rapid.IntRange(0, 59).Draw(t, label+".s"), 0, loc)
}

func some(t *rapid.T, label string) bool {
	v := rapid.IntRange(0, 9).Draw(t, label+"?")
	return v == 4 || v == 5 || v == 6
}

func genCriteria(t *rapid.T, depth int) imap.SearchCriteria {
	var c imap.SearchCriteria
	if rapid.IntRange(0, 3).Draw(t, "sparse?") == 0 {
		c = genSparseCriteria(t)
		if depth > 0 && rapid.Bool().Draw(t, "sparse.nest") {
			c.Not = append(c.Not, genSparseCriteria(t))
			if rapid.Bool().Draw(t, "sparse.or") {
				c.Or = append(c.Or, [2]imap.SearchCriteria{genSparseCriteria(t), genSparseCriteria(t)})
			}
		}
		return c
	}
	if some(t, "seq") {
		for i, n := 0, rapid.IntRange(1, 2).Draw(t, "nseq"); i < n; i++ {
			c.SeqNum = append(c.SeqNum, genSeqSet(t, "cseq"))
		}
	}
	if some(t, "uid") {
		for i, n := 0, rapid.IntRange(1, 2).Draw(t, "nuid"); i < n; i++ {
			s := genSeqSet(t, "cuid")
			var u imap.UIDSet
			for _, r := range s {
				u.AddRange(imap.UID(r.Start), imap.UID(r.Stop))
			}
			if rapid.IntRange(0, 7).Draw(t, "searchres") == 3 {
				u = imap.SearchRes()
			}
			c.UID = append(c.UID, u)
		}
	}
	if some(t, "since") {
		c.Since = genTime(t, "since")
		if rapid.IntRange(0, 3).Draw(t, "on") == 2 {
			c.Before = c.Since.Add(24 * time.Hour) // the ON form
		}
	}
	if some(t, "before") && c.Before.IsZero() {
		c.Before = genTime(t, "before")
	}
	if some(t, "sentsince") {
		c.SentSince = genTime(t, "sentsince")
		if rapid.IntRange(0, 3).Draw(t, "senton") == 2 {
			c.SentBefore = c.SentSince.Add(24 * time.Hour)
		}
	}
	if some(t, "sentbefore") && c.SentBefore.IsZero() {
		c.SentBefore = genTime(t, "sentbefore")
	}
	if some(t, "header") {
		for i, n := 0, rapid.IntRange(1, 2).Draw(t, "nhdr"); i < n; i++ {
			k := rapid.SampledFrom([]string{"Subject", "FROM", "to", "Cc", "bcc", "X-Custom", "Message-ID", "x y", "é"}).Draw(t, "hkey")
			c.Header = append(c.Header, imap.SearchCriteriaHeaderField{Key: k, Value: genStr(t, "hval")})
		}
	}
	if some(t, "body") {
		for i, n := 0, rapid.IntRange(1, 2).Draw(t, "nbody"); i < n; i++ {
			c.Body = append(c.Body, genStr(t, "body"))
		}
	}
	if some(t, "text") {
		for i, n := 0, rapid.IntRange(1, 2).Draw(t, "ntext"); i < n; i++ {
			c.Text = append(c.Text, genStr(t, "text"))
		}
	}
	if some(t, "flag") {
		c.Flag = genFlags(t, "cflag", 1)
	}
	if some(t, "notflag") {
		c.NotFlag = genFlags(t, "cnotflag", 1)
	}
	if some(t, "larger") {
		c.Larger = rapid.SampledFrom([]int64{1, 4096, 1<<32 - 1, 1 << 32, 1<<63 - 1}).Draw(t, "larger")
	}
	if some(t, "smaller") {
		c.Smaller = rapid.SampledFrom([]int64{1, 4096, 1<<32 - 1, 1 << 32, 1<<63 - 1}).Draw(t, "smaller")
	}
	if depth > 0 {
		if some(t, "not") {
			for i, n := 0, rapid.IntRange(1, 2).Draw(t, "nnot"); i < n; i++ {
				c.Not = append(c.Not, genCriteria(t, depth-1))
			}
		}
		if some(t, "or") {
			for i, n := 0, rapid.IntRange(1, 2).Draw(t, "nor"); i < n; i++ {
				c.Or = append(c.Or, [2]imap.SearchCriteria{genCriteria(t, depth-1), genCriteria(t, depth-1)})
			}
		}
	}
	return c
}

func genPart(t *rapid.T, label string, min int) []int {
	var p []int
	for i, n := 0, rapid.IntRange(min, 3).Draw(t, label+".n"); i < n; i++ {
		p = append(p, rapid.SampledFrom([]int{1, 2, 3, 10, 4294967295}).Draw(t, label+".p"))
	}
	return p
}

func genPartial(t *rapid.T, label string) *imap.SectionPartial {
	if rapid.IntRange(0, 2).Draw(t, label+"?") != 1 {
		return nil
	}
	return &imap.SectionPartial{
		Offset: rapid.SampledFrom([]int64{0, 1, 100, 1<<32 - 1, 1 << 32, 1<<63 - 1}).Draw(t, label+".off"),
		Size:   rapid.SampledFrom([]int64{1, 10, 4096, 1<<32 - 1, 1 << 32, 1<<63 - 1}).Draw(t, label+".size"),
	}
}

func genFetchOptions(t *rapid.T) *imap.FetchOptions {
	o := &imap.FetchOptions{}
	if some(t, "bs") {
		o.BodyStructure = &imap.FetchItemBodyStructure{Extended: rapid.Bool().Draw(t, "ext")}
	}
	o.Envelope, o.Flags, o.InternalDate, o.RFC822Size, o.UID = some(t, "env"), some(t, "fl"), some(t, "idate"), some(t, "size"), some(t, "uid")
	for i, n := 0, rapid.IntRange(0, 3).Draw(t, "nsect"); i < n; i++ {
		s := &imap.FetchItemBodySection{Peek: rapid.Bool().Draw(t, "peek"), Partial: genPartial(t, "partial")}
		switch rapid.IntRange(0, 6).Draw(t, "spec") {
		case 0: // whole
			s.Part = genPart(t, "part", 0)
		case 1:
			s.Specifier, s.Part = imap.PartSpecifierHeader, genPart(t, "part", 0)
		case 2:
			s.Specifier, s.Part = imap.PartSpecifierText, genPart(t, "part", 0)
		case 3:
			s.Specifier, s.Part = imap.PartSpecifierMIME, genPart(t, "part", 1)
		case 4, 5:
			s.Specifier, s.Part = imap.PartSpecifierHeader, genPart(t, "part", 0)
			var names []string
			for j, m := 0, rapid.IntRange(1, 3).Draw(t, "nfields"); j < m; j++ {
				if rapid.IntRange(0, 3).Draw(t, "weird") == 2 {
					names = append(names, genStr(t, "field"))
				} else {
					names = append(names, rapid.SampledFrom([]string{"From", "To", "Subject", "X-Spam", "Message-ID"}).Draw(t, "field"))
				}
			}
			if rapid.Bool().Draw(t, "fieldsnot") {
				s.HeaderFieldsNot = names
			} else {
				s.HeaderFields = names
			}
		default:
			s.Part = genPart(t, "part", 1)
		}
		o.BodySection = append(o.BodySection, s)
	}
	for i, n := 0, rapid.IntRange(0, 2).Draw(t, "nbin"); i < n; i++ {
		o.BinarySection = append(o.BinarySection, &imap.FetchItemBinarySection{Part: genPart(t, "bpart", 0), Peek: rapid.Bool().Draw(t, "bpeek"), Partial: genPartial(t, "bpartial")})
	}
	for i, n := 0, rapid.IntRange(0, 2).Draw(t, "nbsize"); i < n; i++ {
		o.BinarySectionSize = append(o.BinarySectionSize, &imap.FetchItemBinarySectionSize{Part: genPart(t, "bspart", 0)})
	}
	return o
}

func genStatusOptions(t *rapid.T) *imap.StatusOptions {
	return &imap.StatusOptions{NumMessages: rapid.Bool().Draw(t, "s.msgs"), UIDNext: rapid.Bool().Draw(t, "s.uidnext"), UIDValidity: rapid.Bool().Draw(t, "s.uidv"),
		NumUnseen: rapid.Bool().Draw(t, "s.unseen"), NumDeleted: rapid.Bool().Draw(t, "s.del"), Size: rapid.Bool().Draw(t, "s.size"),
		AppendLimit: rapid.Bool().Draw(t, "s.al"), DeletedStorage: rapid.Bool().Draw(t, "s.ds")}
}

// ---------------------------------------------------------------- steps

var steps = []string{"Create", "Delete", "Rename", "Subscribe", "Unsubscribe", "List", "Status", "Append", "Select", "Fetch", "Store", "Copy", "Move", "Search", "Expunge", "UIDExpunge",
	"Unselect", "Namespace", "Idle", "Fetch", "Search", "Search", "Store", "List", "Append"}

func (r *run) step(t *rapid.T, name string, selected *bool) (nontrivial bool) {
	c := r.p.Client
	needSel := map[string]bool{"Fetch": true, "Store": true, "Copy": true, "Move": true, "Search": true, "Expunge": true, "UIDExpunge": true, "Unselect": true}
	if needSel[name] && !*selected {
		name = "Select"
	}
	switch name {
	case "Create":
		mb := genMailbox(t, "mbox")
		var opts *imap.CreateOptions
		if rapid.Bool().Draw(t, "withuse") {
			opts = &imap.CreateOptions{}
			for i, n := 0, rapid.IntRange(1, 2).Draw(t, "nuse"); i < n; i++ {
				opts.SpecialUse = append(opts.SpecialUse, imap.MailboxAttr(gen.ValidAttr(t, "use")))
			}
		}
		r.hist = append(r.hist, fmt.Sprintf("Create(%q,%v)", clip(mb), opts))
		r.wait("Create", func() error { return c.Create(mb, opts).Wait() })
		call := r.calls(1, "Create")[0]
		r.eqStr("Create mailbox", call.Args["mailbox"].(string), canonMailbox(mb))
		got := call.Args["options"].(imap.CreateOptions)
		var want []string
		if opts != nil {
			for _, a := range opts.SpecialUse {
				want = append(want, gen.CanonAttr(string(a)))
			}
		}
		var gotS []string
		for _, a := range got.SpecialUse {
			gotS = append(gotS, string(a))
		}
		if fmt.Sprint(gotS) != fmt.Sprint(want) {
			r.fail("Create special-use: backend received %v, caller passed %v", gotS, want)
		}
		return mb != "" && !isPlain(mb)
	case "Delete", "Subscribe", "Unsubscribe":
		mb := genMailbox(t, "mbox")
		r.hist = append(r.hist, fmt.Sprintf("%s(%q)", name, clip(mb)))
		r.wait(name, func() error {
			switch name {
			case "Delete":
				return c.Delete(mb).Wait()
			case "Subscribe":
				return c.Subscribe(mb).Wait()
			}
			return c.Unsubscribe(mb).Wait()
		})
		call := r.calls(1, name)[0]
		if call.Method != name {
			r.fail("%s reached backend method %s", name, call.Method)
		}
		r.eqStr(name+" mailbox", call.Args["mailbox"].(string), canonMailbox(mb))
		return !isPlain(mb)
	case "Rename":
		a, b := genMailbox(t, "old"), genMailbox(t, "new")
		r.hist = append(r.hist, fmt.Sprintf("Rename(%q,%q)", clip(a), clip(b)))
		r.wait("Rename", func() error { return c.Rename(a, b).Wait() })
		call := r.calls(1, "Rename")[0]
		r.eqStr("Rename old name", call.Args["mailbox"].(string), canonMailbox(a))
		r.eqStr("Rename new name", call.Args["newName"].(string), canonMailbox(b))
		return !isPlain(a) || !isPlain(b)
	case "List":
		ref := genMailbox(t, "ref")
		if rapid.Bool().Draw(t, "emptyref") {
			ref = ""
		}
		pattern := rapid.SampledFrom([]string{"*", "%", "a/%", "INBOX", "x*y", "é*", "a&b%", "台北/*", "with space/%", "q\"uote*", ""}).Draw(t, "pattern")
		var opts *imap.ListOptions
		if rapid.Bool().Draw(t, "withopts") {
			opts = &imap.ListOptions{SelectSubscribed: rapid.Bool().Draw(t, "l.selsub"), SelectRemote: rapid.Bool().Draw(t, "l.selrem"),
				ReturnSubscribed: rapid.Bool().Draw(t, "l.retsub"), ReturnChildren: rapid.Bool().Draw(t, "l.retch")}
			if opts.SelectSubscribed {
				opts.SelectRecursiveMatch = rapid.Bool().Draw(t, "l.recmatch")
			}
			if rapid.Bool().Draw(t, "l.status") {
				opts.ReturnStatus = genStatusOptions(t)
			}
		}
		r.hist = append(r.hist, fmt.Sprintf("List(%q,%q,%+v)", clip(ref), pattern, opts))
		r.wait("List", func() error { _, err := c.List(ref, pattern, opts).Collect(); return err })
		call := r.calls(1, "List")[0]
		r.eqStr("List reference", call.Args["ref"].(string), canonMailbox(ref))
		gotPat := call.Args["patterns"].([]string)
		wantPat := []string{pattern}
		if pattern == "" {
			wantPat = nil
		}
		if fmt.Sprintf("%q", gotPat) != fmt.Sprintf("%q", wantPat) {
			r.fail("List pattern: backend received %q, caller passed %q", gotPat, wantPat)
		}
		got := call.Args["options"].(imap.ListOptions)
		want := imap.ListOptions{}
		if opts != nil {
			want = *opts
		}
		gs, ws := got.ReturnStatus, want.ReturnStatus
		got.ReturnStatus, want.ReturnStatus = nil, nil
		if got != want || (gs == nil) != (ws == nil) || (gs != nil && *gs != *ws) {
			r.fail("List options: backend received %+v status=%+v, caller passed %+v status=%+v", got, gs, want, ws)
		}
		return true
	case "Status":
		mb := genMailbox(t, "mbox")
		opts := genStatusOptions(t)
		r.hist = append(r.hist, fmt.Sprintf("Status(%q,%+v)", clip(mb), *opts))
		r.wait("Status", func() error { _, err := c.Status(mb, opts).Wait(); return err })
		call := r.calls(1, "Status")[0]
		r.eqStr("Status mailbox", call.Args["mailbox"].(string), canonMailbox(mb))
		if got := call.Args["options"].(imap.StatusOptions); got != *opts {
			r.fail("Status items: backend received %+v, caller passed %+v", got, *opts)
		}
		return true
	case "Append":
		mb := genMailbox(t, "mbox")
		size := rapid.SampledFrom([]int{0, 1, 50, 4095, 4096, 4097, 70000}).Draw(t, "size")
		payload := bytes.Repeat([]byte("Subject: x\r\n\r\nbody \x00\xff line\r\n"), size/20+1)[:size]
		var opts *imap.AppendOptions
		if rapid.Bool().Draw(t, "withopts") {
			opts = &imap.AppendOptions{Flags: genFlags(t, "aflags", 0)}
			if rapid.Bool().Draw(t, "withtime") {
				opts.Time = genTime(t, "atime")
			}
		}
		r.hist = append(r.hist, fmt.Sprintf("Append(%q,%d,%+v)", clip(mb), size, opts))
		r.wait("Append", func() error {
			cmd := c.Append(mb, int64(size), opts)
			if _, err := cmd.Write(payload); err != nil {
				return err
			}
			if err := cmd.Close(); err != nil {
				return err
			}
			_, err := cmd.Wait()
			return err
		})
		call := r.calls(1, "Append")[0]
		r.eqStr("Append mailbox", call.Args["mailbox"].(string), canonMailbox(mb))
		if got := call.Args["payload"].([]byte); !bytes.Equal(got, payload) {
			r.fail("Append payload: backend received %d bytes, caller wrote %d bytes (equal=%v)", len(got), len(payload), bytes.Equal(got, payload))
		}
		got := call.Args["options"].(imap.AppendOptions)
		var wantFlags []imap.Flag
		var wantTime time.Time
		if opts != nil {
			wantFlags, wantTime = opts.Flags, opts.Time
		}
		if flagsKey(got.Flags) != flagsKey(wantFlags) {
			r.fail("Append flags: backend received %v, caller passed %v", got.Flags, wantFlags)
		}
		_, gotOff := got.Time.Zone()
		_, wantOff := wantTime.Zone()
		if got.Time.IsZero() != wantTime.IsZero() || (!wantTime.IsZero() && (got.Time.Unix() != wantTime.Unix() || gotOff != wantOff)) {
			r.fail("Append date: backend received %v, caller passed %v", got.Time, wantTime)
		}
		return true
	case "Select":
		mb := genMailbox(t, "mbox")
		ro := rapid.Bool().Draw(t, "readonly")
		r.hist = append(r.hist, fmt.Sprintf("Select(%q,ro=%v)", clip(mb), ro))
		var opts *imap.SelectOptions
		if ro || rapid.Bool().Draw(t, "withopts") {
			opts = &imap.SelectOptions{ReadOnly: ro}
		}
		r.wait("Select", func() error { _, err := c.Select(mb, opts).Wait(); return err })
		n := 1
		if *selected {
			n = 2 // Unselect of the previous mailbox, then Select
		}
		calls := r.calls(n, "Select")
		call := calls[n-1]
		if n == 2 && calls[0].Method != "Unselect" {
			r.fail("re-SELECT: expected Unselect then Select, got %v", calls)
		}
		r.eqStr("Select mailbox", call.Args["mailbox"].(string), canonMailbox(mb))
		if got := call.Args["options"].(imap.SelectOptions); got.ReadOnly != ro {
			r.fail("Select read-only: backend received %v, caller passed %v", got.ReadOnly, ro)
		}
		*selected = true
		return !isPlain(mb)
	case "Unselect":
		close := rapid.Bool().Draw(t, "expunge")
		r.hist = append(r.hist, fmt.Sprintf("Unselect(close=%v)", close))
		if close {
			r.wait("UnselectAndExpunge", func() error { return c.UnselectAndExpunge().Wait() })
			calls := r.calls(2, "CLOSE")
			if calls[0].Method != "Expunge" || calls[1].Method != "Unselect" || calls[0].Args["uids"] != nil {
				r.fail("CLOSE: expected Expunge(nil) then Unselect, got %v", calls)
			}
		} else {
			r.wait("Unselect", func() error { return c.Unselect().Wait() })
			if call := r.calls(1, "UNSELECT")[0]; call.Method != "Unselect" {
				r.fail("UNSELECT reached %s", call.Method)
			}
		}
		*selected = false
		return false
	case "Fetch":
		set := genNumSet(t, "fset", true)
		opts := genFetchOptions(t)
		r.hist = append(r.hist, fmt.Sprintf("Fetch(%s,%s)", numSetString(set), fetchKey(opts)))
		r.wait("Fetch", func() error { return c.Fetch(set, opts).Close() })
		call := r.calls(1, "Fetch")[0]
		if got := numSetString(call.Args["set"].(imap.NumSet)); got != numSetString(set) {
			r.fail("Fetch set: backend received %s, caller passed %s", got, numSetString(set))
		}
		want := *opts
		if _, isUID := set.(imap.UIDSet); isUID {
			want.UID = true // UID FETCH implies UID
		}
		got := call.Args["options"].(imap.FetchOptions)
		if fetchKey(&got) != fetchKey(&want) {
			r.fail("Fetch items:\n backend received %s\n caller passed    %s", fetchKey(&got), fetchKey(&want))
		}
		return true
	case "Store":
		set := genNumSet(t, "sset", true)
		sf := &imap.StoreFlags{Op: rapid.SampledFrom([]imap.StoreFlagsOp{imap.StoreFlagsSet, imap.StoreFlagsAdd, imap.StoreFlagsDel}).Draw(t, "op"),
			Silent: rapid.Bool().Draw(t, "silent"), Flags: genFlags(t, "sflags", 0)}
		r.hist = append(r.hist, fmt.Sprintf("Store(%s,%+v)", numSetString(set), *sf))
		r.wait("Store", func() error { return c.Store(set, sf, nil).Close() })
		call := r.calls(1, "Store")[0]
		if got := numSetString(call.Args["set"].(imap.NumSet)); got != numSetString(set) {
			r.fail("Store set: backend received %s, caller passed %s", got, numSetString(set))
		}
		got := call.Args["flags"].(imap.StoreFlags)
		if got.Op != sf.Op || got.Silent != sf.Silent || flagsKey(got.Flags) != flagsKey(sf.Flags) || len(got.Flags) != len(sf.Flags) {
			r.fail("Store: backend received %+v, caller passed %+v", got, *sf)
		}
		return true
	case "Copy":
		set := genNumSet(t, "cset", true)
		dest := genMailbox(t, "dest")
		r.hist = append(r.hist, fmt.Sprintf("Copy(%s,%q)", numSetString(set), clip(dest)))
		r.wait("Copy", func() error { _, err := c.Copy(set, dest).Wait(); return err })
		call := r.calls(1, "Copy")[0]
		if got := numSetString(call.Args["set"].(imap.NumSet)); got != numSetString(set) || call.Method != "Copy" {
			r.fail("Copy set: backend %s received %s, caller passed %s", call.Method, got, numSetString(set))
		}
		r.eqStr("Copy destination", call.Args["dest"].(string), canonMailbox(dest))
		return true
	case "Move":
		set := genNumSet(t, "mset", false)
		dest := genMailbox(t, "dest")
		r.hist = append(r.hist, fmt.Sprintf("Move(%s,%q)", numSetString(set), clip(dest)))
		r.wait("Move", func() error { _, err := c.Move(set, dest).Wait(); return err })
		if r.cfg.move || r.cfg.rev2 {
			call := r.calls(1, "Move")[0]
			if got := numSetString(call.Args["set"].(imap.NumSet)); got != numSetString(set) || call.Method != "Move" {
				r.fail("Move: backend %s received %s, caller passed %s", call.Method, got, numSetString(set))
			}
			r.eqStr("Move destination", call.Args["dest"].(string), canonMailbox(dest))
		} else {
			calls := r.calls(3, "Move fallback")
			if calls[0].Method != "Copy" || calls[1].Method != "Store" || calls[2].Method != "Expunge" {
				r.fail("Move fallback: expected Copy, Store, Expunge; got %v", calls)
			}
			for _, cl := range calls[:2] {
				if got := numSetString(cl.Args["set"].(imap.NumSet)); got != numSetString(set) {
					r.fail("Move fallback %s set: backend received %s, caller passed %s", cl.Method, got, numSetString(set))
				}
			}
			r.eqStr("Move fallback destination", calls[0].Args["dest"].(string), canonMailbox(dest))
			sf := calls[1].Args["flags"].(imap.StoreFlags)
			if sf.Op != imap.StoreFlagsAdd || !sf.Silent || flagsKey(sf.Flags) != "\\deleted" {
				r.fail("Move fallback STORE: %+v", sf)
			}
			_, isUID := set.(imap.UIDSet)
			if isUID && r.cfg.uidplus {
				if got, ok := calls[2].Args["uids"].(imap.UIDSet); !ok || numSetString(got) != numSetString(set) {
					r.fail("Move fallback UID EXPUNGE: backend received %v, want %s", calls[2].Args["uids"], numSetString(set))
				}
			} else if calls[2].Args["uids"] != nil {
				r.fail("Move fallback EXPUNGE carried a UID set: %v", calls[2].Args["uids"])
			}
		}
		return true
	case "Search":
		crit := genCriteria(t, 2)
		uid := rapid.Bool().Draw(t, "uidsearch")
		var opts *imap.SearchOptions
		if rapid.Bool().Draw(t, "withopts") {
			opts = &imap.SearchOptions{ReturnMin: rapid.Bool().Draw(t, "r.min"), ReturnMax: rapid.Bool().Draw(t, "r.max"), ReturnAll: rapid.Bool().Draw(t, "r.all"),
				ReturnCount: rapid.Bool().Draw(t, "r.count"), ReturnSave: rapid.Bool().Draw(t, "r.save")}
		}
		wantKey := critKey(&crit)
		r.hist = append(r.hist, fmt.Sprintf("Search(uid=%v,%s,%+v)", uid, clip(wantKey), opts))
		r.wait("Search", func() error {
			var err error
			if uid {
				_, err = c.UIDSearch(&crit, opts).Wait()
			} else {
				_, err = c.Search(&crit, opts).Wait()
			}
			return err
		})
		call := r.calls(1, "Search")[0]
		wantKind := imapserver.NumKindSeq
		if uid {
			wantKind = imapserver.NumKindUID
		}
		if call.Args["kind"].(imapserver.NumKind) != wantKind {
			r.fail("Search kind: backend received %v", call.Args["kind"])
		}
		got := call.Args["criteria"].(imap.SearchCriteria)
		if gk := critKey(&got); gk != wantKey {
			r.fail("Search criteria:\n backend received %s\n caller passed    %s", gk, wantKey)
		}
		gotOpts := call.Args["options"].(imap.SearchOptions)
		want := imap.SearchOptions{}
		if opts != nil {
			want = *opts
		}
		if !want.ReturnMin && !want.ReturnMax && !want.ReturnAll && !want.ReturnCount {
			want.ReturnAll = true // documented: no return option means ALL
		}
		if gotOpts != want {
			r.fail("Search return options: backend received %+v, caller passed %+v", gotOpts, want)
		}
		return true
	case "Expunge":
		r.hist = append(r.hist, "Expunge()")
		r.wait("Expunge", func() error { return c.Expunge().Close() })
		call := r.calls(1, "Expunge")[0]
		if call.Method != "Expunge" || call.Args["uids"] != nil {
			r.fail("Expunge: backend call %v", call)
		}
		return false
	case "UIDExpunge":
		set := genNumSet(t, "eset", true)
		uids, ok := set.(imap.UIDSet)
		if !ok {
			for _, rg := range set.(imap.SeqSet) {
				uids.AddRange(imap.UID(rg.Start), imap.UID(rg.Stop))
			}
		}
		r.hist = append(r.hist, fmt.Sprintf("UIDExpunge(%s)", numSetString(uids)))
		r.wait("UIDExpunge", func() error { return c.UIDExpunge(uids).Close() })
		call := r.calls(1, "UIDExpunge")[0]
		got, isSet := call.Args["uids"].(imap.UIDSet)
		if !isSet || numSetString(got) != numSetString(uids) {
			r.fail("UID EXPUNGE: backend received %v, caller passed %s", call.Args["uids"], numSetString(uids))
		}
		return true
	case "Namespace":
		r.hist = append(r.hist, "Namespace()")
		r.wait("Namespace", func() error { _, err := c.Namespace().Wait(); return err })
		if call := r.calls(1, "Namespace")[0]; call.Method != "Namespace" {
			r.fail("Namespace reached %s", call.Method)
		}
		return false
	case "Idle":
		r.hist = append(r.hist, "Idle()")
		r.wait("Idle", func() error {
			idle, err := c.Idle()
			if err != nil {
				return err
			}
			if err := idle.Close(); err != nil {
				return err
			}
			return idle.Wait()
		})
		if call := r.calls(1, "Idle")[0]; call.Method != "Idle" {
			r.fail("Idle reached %s", call.Method)
		}
		return false
	}
	return false
}

func isPlain(s string) bool {
	for i := 0; i < len(s); i++ {
		ch := s[i]
		if !(ch >= 'a' && ch <= 'z' || ch >= 'A' && ch <= 'Z' || ch >= '0' && ch <= '9') {
			return false
		}
	}
	return s != ""
}

func startRun(t fataler, cfg config, login func(r *run)) *run {
	r := &run{cfg: cfg, t: t}
	r.p = cs.New(cs.Config{Caps: cfg.caps(), Features: stub.FAll &^ stub.FSASL})
	return r
}

func genConfig(t *rapid.T) config {
	c := config{rev2: rapid.Bool().Draw(t, "rev2"), literalPlus: rapid.Bool().Draw(t, "literalPlus"), move: rapid.Bool().Draw(t, "move"), uidplus: rapid.Bool().Draw(t, "uidplus")}
	c.enable = rapid.SampledFrom([]string{"", "", "UTF8=ACCEPT", "IMAP4rev2"}).Draw(t, "enable")
	return c
}

func TestPropCommands(t *testing.T) {
	rapid.Check(t, func(t *rapid.T) {
		cfg := genConfig(t)
		r := startRun(t, cfg, nil)
		defer r.p.Close()
		c := r.p.Client
		// credentials
		user, pass := genStr(t, "user"), genStr(t, "pass")
		if rapid.IntRange(0, 3).Draw(t, "sasl") == 2 {
			r.hist = append(r.hist, fmt.Sprintf("Authenticate(PLAIN %q %q)", clip(user), clip(pass)))
			if strings.ContainsRune(user, 0) || strings.ContainsRune(pass, 0) {
				user, pass = strings.ReplaceAll(user, "\x00", "0"), strings.ReplaceAll(pass, "\x00", "0")
			}
			r.wait("Authenticate", func() error { return c.Authenticate(sasl.NewPlainClient("", user, pass)) })
		} else {
			r.hist = append(r.hist, fmt.Sprintf("Login(%q,%q)", clip(user), clip(pass)))
			r.wait("Login", func() error { return c.Login(user, pass).Wait() })
		}
		call := r.calls(1, "Login")[0]
		r.eqStr("username", call.Args["username"].(string), user)
		r.eqStr("password", call.Args["password"].(string), pass)
		if cfg.enable != "" {
			r.wait("Enable", func() error { _, err := c.Enable(imap.Cap(cfg.enable)).Wait(); return err })
			r.hist = append(r.hist, "Enable("+cfg.enable+")")
		}
		selected := false
		nt := !isPlain(user) || !isPlain(pass)
		n := rapid.IntRange(1, 6).Draw(t, "nsteps")
		for i := 0; i < n; i++ {
			name := rapid.SampledFrom(steps).Draw(t, "step")
			if r.step(t, name, &selected) {
				nt = true
			}
			ev.Class("cmd:" + name)
		}
		ev.Eval()
		if nt {
			ev.NonTrivial(cfg.String() + strings.Join(r.hist, ";"))
		}
		ev.Class("cfg:" + cfg.String())
		wire := r.p.ClientBytes.Bytes()
		if bytes.Contains(wire, []byte("+}\r\n")) {
			ev.Class("wire:non-sync-literal")
		}
		if bytes.Contains(wire, []byte("}\r\n")) && !bytes.Contains(wire, []byte("+}\r\n")) {
			ev.Class("wire:sync-literal")
		}
		ev.Sample(cfg.String() + " :: " + strings.Join(r.hist, " | "))
	})
}
