package c16

// The third user of the codec named by the property: LIST/LSUB patterns and
// references, which the server decodes with its own call of the transformer
// (imapserver/list.go), and all other mailbox arguments (Decoder.ExpectMailbox).
// A real server with a recording session receives the reference encoding of a
// generated name as LIST reference + pattern and as a CREATE argument; what
// reaches the session must be the name.

import (
	"fmt"
	"strings"
	"sync"
	"testing"
	"unicode/utf8"

	imap "github.com/emersion/go-imap/v2"
	"github.com/emersion/go-imap/v2/imapserver"
	"github.com/emersion/go-imap/v2/verifh/kit/ev"
	"github.com/emersion/go-imap/v2/verifh/kit/refutf7"
	"github.com/emersion/go-imap/v2/verifh/kit/srv"
	"github.com/emersion/go-imap/v2/verifh/kit/stub"
	"pgregory.net/rapid"
)

var (
	lsOnce sync.Once
	lsEnv  *srv.Env
	lsCore *stub.Core
	lsRaw  *srv.Raw
	lsMu   sync.Mutex
	lsN    int
)

func listServer(t fataler) {
	lsOnce.Do(func() {
		lsCore = stub.NewCore()
		lsEnv = srv.Start(imapserver.Options{
			NewSession: func(*imapserver.Conn) (imapserver.Session, *imapserver.GreetingData, error) {
				return stub.Session(lsCore, stub.FAll), &imapserver.GreetingData{PreAuth: true}, nil
			},
			InsecureAuth: true,
			Caps:         imap.CapSet{imap.CapIMAP4rev1: {}, imap.CapLiteralPlus: {}},
		})
		lsRaw = lsEnv.Dial()
		if _, err := lsRaw.Greeting(); err != nil {
			t.Fatalf("HARNESS: greeting: %v", err)
		}
	})
}

// checkServerDecode sends the encoded form of name through LIST (reference and
// pattern) and CREATE and compares what the session receives.
func checkServerDecode(t fataler, name string) {
	if name == "" || strings.EqualFold(name, "INBOX") || !utf8.ValidString(name) {
		return
	}
	listServer(t)
	lsMu.Lock()
	defer lsMu.Unlock()
	wire := refutf7.Encode(name)
	lsCore.Reset()
	lsN++
	lit := fmt.Sprintf("{%d+}\r\n%s", len(wire), wire)
	_, st, err := lsRaw.Cmd(fmt.Sprintf("l%d", lsN), "LIST "+lit+" "+lit)
	if err != nil {
		t.Fatalf("LIST with the encoded name %q: %v", wire, err)
	}
	if st.Status != "OK" {
		t.Fatalf("LIST reference/pattern %q (the valid modified UTF-7 form of %+q) was rejected: %s %s", wire, name, st.Status, st.Text)
	}
	calls := lsCore.Calls()
	if len(calls) != 1 || calls[0].Method != "List" {
		t.Fatalf("LIST %q: backend calls %v", wire, calls)
	}
	ref, _ := calls[0].Args["ref"].(string)
	pats, _ := calls[0].Args["patterns"].([]string)
	if ref != name || len(pats) != 1 || pats[0] != name {
		t.Fatalf("LIST reference/pattern %q reached the backend as ref=%+q patterns=%+q, want %+q", wire, ref, pats, name)
	}
	lsCore.Reset()
	lsN++
	_, st, err = lsRaw.Cmd(fmt.Sprintf("c%d", lsN), "CREATE "+lit)
	if err != nil || st.Status != "OK" {
		t.Fatalf("CREATE %q (the valid modified UTF-7 form of %+q): %v %v", wire, name, st, err)
	}
	calls = lsCore.Calls()
	if len(calls) != 1 || calls[0].Method != "Create" {
		t.Fatalf("CREATE %q: backend calls %v", wire, calls)
	}
	if got, _ := calls[0].Args["mailbox"].(string); got != name {
		t.Fatalf("CREATE %q reached the backend as %+q, want %+q", wire, got, name)
	}
}

// runs of one class of code points: the encoded and decoded lengths diverge most
func genRuns(t *rapid.T) string {
	var sb strings.Builder
	for i, n := 0, rapid.IntRange(1, 4).Draw(t, "nruns"); i < n; i++ {
		r := rapid.SampledFrom([]rune{'a', '&', 0xe9, 0x3042, 0x53f0, 0xffff, 0x1f60a, 0x7f, '/', '*', '%'}).Draw(t, "r")
		k := rapid.SampledFrom([]int{1, 2, 8, 9, 10, 20, 43, 44, 128, 129}).Draw(t, "k")
		sb.WriteString(strings.Repeat(string(r), k))
	}
	return sb.String()
}

func TestPropServerEntryPoints(t *testing.T) {
	rapid.Check(t, func(t *rapid.T) {
		var s string
		if rapid.Bool().Draw(t, "runs") {
			s = genRuns(t)
		} else {
			s = genUTF8(t)
		}
		// names with CR/LF/NUL cannot be put into a literal-free position anyway;
		// here they travel inside a literal, which may carry anything but NUL
		s = strings.ReplaceAll(s, "\x00", "")
		checkServerDecode(t, s)
		checkEncode(t, s, [][2]int{{4096, 4096}})
		ev.Eval()
		if strings.Contains(refutf7.Encode(s), "&") {
			ev.NonTrivial("srv:" + s)
		}
		ev.Class("server-entry-points:LIST+CREATE")
		ev.Sample(fmt.Sprintf("LIST/CREATE %q", refutf7.Encode(s)))
	})
}
