// Package c16 decides property C16: modified UTF-7 mailbox-name encoding is
// lossless and safe. Oracles: round-trip; differential against an independent
// reference codec written from RFC 3501 section 5.1.3; chunking invariance of
// the streaming transformer under a conforming driver.
package c16

import (
	"bufio"
	"bytes"
	"errors"
	"fmt"
	"os"
	"strconv"
	"strings"
	"testing"
	"unicode/utf8"

	"github.com/emersion/go-imap/v2/internal/imapwire"
	"github.com/emersion/go-imap/v2/internal/utf7"
	"github.com/emersion/go-imap/v2/verifh/kit/ev"
	"github.com/emersion/go-imap/v2/verifh/kit/refutf7"
	"golang.org/x/text/transform"
	"pgregory.net/rapid"
)

func TestMain(m *testing.M) { ev.Main(m) }

// ---------------------------------------------------------------- reference codec

// ---------------------------------------------------------------- conforming streaming driver

var errDriver = errors.New("driver: transformer violated the Transformer contract")

// drive feeds src to tr in windows of srcChunk bytes with a destination buffer
// of dstCap bytes, growing a window/buffer only when the transformer reports
// ErrShortSrc/ErrShortDst without progress.
func drive(tr transform.Transformer, src []byte, srcChunk, dstCap int) (out []byte, err error, splits int) {
	tr.Reset()
	pos, end := 0, 0
	grow := func() {
		end += srcChunk
		if end > len(src) {
			end = len(src)
		}
	}
	grow()
	dst := make([]byte, dstCap)
	for iter := 0; iter < 100000; iter++ {
		atEOF := end == len(src)
		nDst, nSrc, e := tr.Transform(dst, src[pos:end], atEOF)
		if nDst < 0 || nDst > len(dst) || nSrc < 0 || nSrc > end-pos {
			return out, fmt.Errorf("%w: nDst=%d nSrc=%d window=%d dst=%d", errDriver, nDst, nSrc, end-pos, len(dst)), splits
		}
		out = append(out, dst[:nDst]...)
		pos += nSrc
		switch e {
		case nil:
			if pos != end {
				return out, fmt.Errorf("%w: nil error but %d of %d window bytes consumed", errDriver, nSrc, end-pos+nSrc), splits
			}
			if atEOF {
				return out, nil, splits
			}
			splits++
			grow()
		case transform.ErrShortDst:
			if nDst == 0 && nSrc == 0 {
				dst = make([]byte, len(dst)*2+1)
			}
		case transform.ErrShortSrc:
			if atEOF {
				return out, fmt.Errorf("%w: ErrShortSrc with atEOF", errDriver), splits
			}
			splits++
			grow()
		default:
			return out, e, splits
		}
	}
	return out, fmt.Errorf("%w: no termination", errDriver), splits
}

// ---------------------------------------------------------------- wire entry points

// wireDecodeMailbox feeds the bytes as a server literal to the wire decoder's
// mailbox production (the way mailbox names reach the library), so that short
// cuts in front of the UTF-7 decoder are judged too.
func wireDecodeMailbox(in string) (string, error) {
	src := fmt.Sprintf("{%d}\r\n%s\r\n", len(in), in)
	dec := imapwire.NewDecoder(bufio.NewReader(strings.NewReader(src)), imapwire.ConnSideClient)
	var name string
	if !dec.ExpectMailbox(&name) {
		err := dec.Err()
		if err == nil {
			err = errors.New("ExpectMailbox returned false")
		}
		return "", err
	}
	return name, nil
}

// wireEncodeMailbox returns the astring content that Encoder.Mailbox puts on
// the wire for name.
func wireEncodeMailbox(name string) (string, error) {
	var buf bytes.Buffer
	bw := bufio.NewWriter(&buf)
	enc := imapwire.NewEncoder(bw, imapwire.ConnSideServer)
	if err := enc.Mailbox(name).CRLF(); err != nil {
		return "", err
	}
	dec := imapwire.NewDecoder(bufio.NewReader(bytes.NewReader(buf.Bytes())), imapwire.ConnSideClient)
	var raw string
	if !dec.ExpectAString(&raw) || !dec.ExpectCRLF() {
		return "", fmt.Errorf("cannot read back %q: %v", buf.String(), dec.Err())
	}
	return raw, nil
}

func checkWireDecode(t fataler, in, want, why string) {
	if strings.EqualFold(in, "INBOX") {
		return
	}
	var got string
	var err error
	func() {
		defer func() {
			if r := recover(); r != nil {
				t.Fatalf("wire decoder panicked on mailbox %+q: %v", in, r)
			}
		}()
		got, err = wireDecodeMailbox(in)
	}()
	if why != "" {
		if err == nil {
			t.Fatalf("Decoder.ExpectMailbox(%+q) accepted (%+q) a form that must be rejected: %s", in, got, why)
		}
		return
	}
	if err != nil {
		t.Fatalf("Decoder.ExpectMailbox(%+q) rejected (%v) well-formed input; reference decodes to %+q", in, err, want)
	}
	if got != want || !utf8.ValidString(got) {
		t.Fatalf("Decoder.ExpectMailbox(%+q) = %+q, reference %+q", in, got, want)
	}
}

// ---------------------------------------------------------------- checks

type fataler interface {
	Fatalf(format string, args ...any)
}

var chunkings = [][2]int{{1, 1}, {1, 8}, {2, 3}, {3, 2}, {5, 4}, {7, 1}, {4096, 4096}}

// checkEncode: one valid UTF-8 string through encoder and back, one-shot and chunked.
func checkEncode(t fataler, s string, chunks [][2]int) (shifted bool, splitInside bool) {
	want := refutf7.Encode(s)
	got, err := utf7.Encoding.NewEncoder().String(s)
	if err != nil {
		t.Fatalf("encode(%+q) error: %v", s, err)
	}
	if got != want {
		t.Fatalf("encode(%+q) = %q, reference %q", s, got, want)
	}
	for i := 0; i < len(got); i++ {
		if got[i] < 0x20 || got[i] > 0x7e {
			t.Fatalf("encode(%+q) = %q contains non-printable byte", s, got)
		}
	}
	back, err := utf7.Encoding.NewDecoder().String(got)
	if err != nil || back != s {
		t.Fatalf("decode(encode(%+q)=%q) = %+q, %v", s, got, back, err)
	}
	if !strings.EqualFold(s, "INBOX") {
		w, err := wireEncodeMailbox(s)
		if err != nil || w != want {
			t.Fatalf("Encoder.Mailbox(%+q) put %q on the wire (%v), reference %q", s, w, err, want)
		}
		checkWireDecode(t, want, s, "")
	}
	shifted = strings.Contains(strings.ReplaceAll(got, "&-", ""), "&")
	for _, c := range chunks {
		o, err, _ := drive(utf7.Encoding.NewEncoder().Transformer, []byte(s), c[0], c[1])
		if err != nil || string(o) != want {
			t.Fatalf("chunked encode(%+q) src=%d dst=%d = %q, %v; one-shot %q", s, c[0], c[1], o, err, want)
		}
		o, err, sp := drive(utf7.Encoding.NewDecoder().Transformer, []byte(got), c[0], c[1])
		if err != nil || string(o) != s {
			t.Fatalf("chunked decode(%q) src=%d dst=%d = %+q, %v; want %+q", got, c[0], c[1], o, err, s)
		}
		if sp > 0 && shifted && c[0] < len(got) {
			splitInside = true
		}
	}
	return
}

// checkDecode: arbitrary bytes through the decoder, one-shot and chunked.
func checkDecode(t fataler, in string, chunks [][2]int) (accepted bool, reason string) {
	want, why := refutf7.Decode(in)
	var got string
	var err error
	func() {
		defer func() {
			if r := recover(); r != nil {
				t.Fatalf("decoder panicked on %+q: %v", in, r)
			}
		}()
		got, err = utf7.Encoding.NewDecoder().String(in)
	}()
	if why != "" {
		if err == nil {
			t.Fatalf("decode(%+q) accepted (%+q) a form that must be rejected: %s", in, got, why)
		}
	} else {
		if err != nil {
			t.Fatalf("decode(%+q) rejected (%v) well-formed input; reference decodes to %+q", in, err, want)
		}
		if got != want {
			t.Fatalf("decode(%+q) = %+q, reference %+q", in, got, want)
		}
		if !utf8.ValidString(got) {
			t.Fatalf("decode(%+q) produced invalid UTF-8 %+q", in, got)
		}
	}
	checkWireDecode(t, in, want, why)
	for _, c := range chunks {
		var o []byte
		var cerr error
		func() {
			defer func() {
				if r := recover(); r != nil {
					t.Fatalf("decoder panicked on %+q with src=%d dst=%d: %v", in, c[0], c[1], r)
				}
			}()
			o, cerr, _ = drive(utf7.Encoding.NewDecoder().Transformer, []byte(in), c[0], c[1])
		}()
		if errors.Is(cerr, errDriver) {
			t.Fatalf("decoder broke the Transformer contract on %+q src=%d dst=%d: %v", in, c[0], c[1], cerr)
		}
		if (cerr == nil) != (err == nil) {
			t.Fatalf("chunked decode(%+q) src=%d dst=%d: err=%v but one-shot err=%v (output %+q vs %+q)", in, c[0], c[1], cerr, err, o, got)
		}
		if cerr == nil && string(o) != got {
			t.Fatalf("chunked decode(%+q) src=%d dst=%d = %+q, one-shot %+q", in, c[0], c[1], o, got)
		}
		if cerr == nil && !utf8.Valid(o) {
			t.Fatalf("chunked decode(%+q) produced invalid UTF-8", in)
		}
	}
	return why == "", why
}

// ---------------------------------------------------------------- generators

var encAlphabet = []rune{'a', 'B', ' ', '&', '-', '+', ',', '/', 0x00, 0x1f, 0x7f, 0x80, 0xe9, 0x7ff, 0x800, 0x53f0, 0xd7ff, 0xe000,
	0xfffd, 0xffff, 0x10000, 0x1f60a, 0x10ffff, '~', '\r', '\n', '%', '*', '"', '\\'}

func genUTF8(t *rapid.T) string {
	n := rapid.IntRange(0, 40).Draw(t, "len")
	if rapid.IntRange(0, 19).Draw(t, "long") == 0 {
		n = rapid.IntRange(100, 300).Draw(t, "longlen")
	}
	var sb strings.Builder
	for i := 0; i < n; i++ {
		if rapid.IntRange(0, 9).Draw(t, "k") < 8 {
			sb.WriteRune(rapid.SampledFrom(encAlphabet).Draw(t, "r"))
		} else {
			r := rapid.Rune().Draw(t, "anyr")
			if r == utf8.RuneError || !utf8.ValidRune(r) {
				r = 0xfffd
			}
			sb.WriteRune(r)
		}
	}
	return sb.String()
}

var decAlphabet = []byte{'&', '-', 'A', 'Q', '/', ',', '+', '=', 'a', '~', '\r', 0x80, 'k', '2', 'D', '8', 'c', ' ', 'w', 'f'}

func genDecInput(t *rapid.T) string {
	switch rapid.IntRange(0, 9).Draw(t, "dk") {
	case 0, 1, 2:
		n := rapid.IntRange(0, 14).Draw(t, "n")
		b := make([]byte, n)
		for i := range b {
			b[i] = rapid.SampledFrom(decAlphabet).Draw(t, "b")
		}
		return string(b)
	case 3:
		return string(rapid.SliceOfN(rapid.Byte(), 0, 20).Draw(t, "raw"))
	case 4, 5, 6:
		// structured hostile input: segments of ASCII, "&-" and base64 of
		// drawn UTF-16 code units (incl. printable ASCII, lone/reversed
		// surrogates, odd byte counts, missing terminator)
		var sb strings.Builder
		nseg := rapid.IntRange(1, 5).Draw(t, "nseg")
		for i := 0; i < nseg; i++ {
			switch rapid.IntRange(0, 5).Draw(t, "seg") {
			case 0:
				sb.WriteString(rapid.SampledFrom([]string{"a", "x/y", " ", "-", "INBOX", ","}).Draw(t, "asc"))
			case 1:
				sb.WriteString("&-")
			default:
				nu := rapid.IntRange(1, 4).Draw(t, "nu")
				var raw []byte
				for j := 0; j < nu; j++ {
					u := rapid.SampledFrom([]uint16{0x00e9, 0x53f0, 0x0041, 0x0026, 0x007e, 0x0020, 0x001f, 0x007f, 0xd800, 0xdbff, 0xdc00, 0xdfff, 0xd83d, 0xde0a, 0xfffd, 0xffff}).Draw(t, "u")
					raw = append(raw, byte(u>>8), byte(u))
				}
				if rapid.IntRange(0, 7).Draw(t, "odd") == 0 {
					raw = append(raw, 0x41)
				}
				sb.WriteByte('&')
				sb.WriteString(refutf7.B64.EncodeToString(raw))
				if rapid.IntRange(0, 9).Draw(t, "term") != 0 {
					sb.WriteByte('-')
				}
			}
		}
		return sb.String()
	default:
		// mutate a valid encoding
		s := []byte(refutf7.Encode(genUTF8(t)))
		muts := rapid.IntRange(0, 3).Draw(t, "muts")
		for m := 0; m < muts; m++ {
			pos := rapid.IntRange(0, len(s)).Draw(t, "pos")
			ch := rapid.SampledFrom(decAlphabet).Draw(t, "ch")
			switch rapid.IntRange(0, 2).Draw(t, "mut") {
			case 0:
				s = append(s[:pos], append([]byte{ch}, s[pos:]...)...)
			case 1:
				if pos < len(s) {
					s = append(s[:pos], s[pos+1:]...)
				}
			default:
				if pos < len(s) {
					s[pos] = ch
				}
			}
		}
		return string(s)
	}
}

func genChunks(t *rapid.T) [][2]int {
	n := rapid.IntRange(1, 3).Draw(t, "nchunk")
	var out [][2]int
	for i := 0; i < n; i++ {
		out = append(out, [2]int{rapid.IntRange(1, 8).Draw(t, "src"), rapid.IntRange(1, 8).Draw(t, "dst")})
	}
	if rapid.Bool().Draw(t, "big") {
		out = append(out, [2]int{4096, 4096})
	}
	return out
}

func TestPropRoundTrip(t *testing.T) {
	rapid.Check(t, func(t *rapid.T) {
		s := genUTF8(t)
		ch := genChunks(t)
		shifted, split := checkEncode(t, s, ch)
		ev.Eval()
		special := strings.ContainsAny(s, "&\x00\x1f\x7f\r\n") || strings.ContainsRune(s, 0x10000) || strings.ContainsRune(s, 0x1f60a) || strings.ContainsRune(s, 0x10ffff)
		if shifted && special {
			ev.NonTrivial("e:" + s)
		}
		if shifted {
			ev.Class("enc:has-shifted-run")
		}
		if split {
			ev.Class("enc:chunk-boundary-with-shifted-run")
		}
		if len(s) >= 100 {
			ev.Class("enc:long")
		}
		ev.Sample(fmt.Sprintf("%+q -> %q chunks=%v", s, refutf7.Encode(s), ch))
	})
}

func TestPropDecode(t *testing.T) {
	rapid.Check(t, func(t *rapid.T) {
		in := genDecInput(t)
		ch := genChunks(t)
		ok, why := checkDecode(t, in, ch)
		ev.Eval()
		if strings.Contains(in, "&") {
			ev.NonTrivial("d:" + in)
		}
		if ok {
			ev.Class("dec:accepted")
		} else {
			ev.Class("dec:rejected:" + why)
		}
		ev.Sample(fmt.Sprintf("decode(%+q) ok=%v %s chunks=%v", in, ok, why, ch))
	})
}

// ---------------------------------------------------------------- exhaustive

func envInt(k string, def int) int {
	if v, err := strconv.Atoi(os.Getenv(k)); err == nil {
		return v
	}
	return def
}

var enumEnc = []rune{'a', '&', '-', ',', 0x00, 0x7f, 0xe9, 0x7ff, 0x800, 0xffff, 0x10000, 0x10ffff, 0xfffd, ' '}
var enumDec = []byte{'&', '-', 'A', 'Q', '/', ',', '+', '=', 'a', '~', '\r', 0x80}

// TestEnumEncode: every string of length <=3 (quick) / <=5 (thorough) over a
// 14-symbol alphabet, each with several chunkings.
func TestEnumEncode(t *testing.T) {
	maxLen := 3
	if ev.Thorough() {
		maxLen = 5
	}
	shard, nshard := envInt("VERIF_SHARD", 0), envInt("VERIF_NSHARD", 1)
	var count int64
	var rec func(prefix []rune)
	rec = func(prefix []rune) {
		s := string(prefix)
		shifted, _ := checkEncode(t, s, chunkings[:5])
		count++
		if shifted && len(prefix) >= 2 {
			ev.NonTrivial("ee:" + s)
		}
		if len(prefix) == maxLen {
			return
		}
		for i, r := range enumEnc {
			if len(prefix) == 0 && i%nshard != shard {
				continue
			}
			rec(append(prefix, r))
		}
	}
	rec(nil)
	ev.EvalN(count)
	ev.ClassN("enum:encode-strings", count)
	ev.Set("enum_encode", fmt.Sprintf("all strings of <=%d symbols over %+q: complete", maxLen, string(enumEnc)))
}

// TestEnumDecode: every byte string of length <=5 (quick) / <=7 (thorough)
// over a 12-symbol shift/base64 alphabet.
func TestEnumDecode(t *testing.T) {
	maxLen := 5
	if ev.Thorough() {
		maxLen = 7
	}
	shard, nshard := envInt("VERIF_SHARD", 0), envInt("VERIF_NSHARD", 1)
	var count, acc int64
	buf := make([]byte, 0, maxLen)
	var rec func()
	rec = func() {
		s := string(buf)
		ch := chunkings[:2]
		if len(buf) > 5 {
			ch = chunkings[:1]
		}
		ok, _ := checkDecode(t, s, ch)
		count++
		if ok {
			acc++
		}
		if len(buf) >= 3 && len(buf) <= 5 && strings.Contains(s, "&") {
			ev.NonTrivial("ed:" + s)
		}
		if len(buf) == maxLen {
			return
		}
		for i, b := range enumDec {
			if len(buf) == 1 && i%nshard != shard {
				continue
			}
			buf = append(buf, b)
			rec()
			buf = buf[:len(buf)-1]
		}
	}
	rec()
	ev.EvalN(count)
	ev.ClassN("enum:decode-inputs", count)
	ev.ClassN("enum:decode-accepted", acc)
	ev.Set("enum_decode", fmt.Sprintf("all byte strings of <=%d symbols over %+q: complete", maxLen, string(enumDec)))
}

// ---------------------------------------------------------------- regressions

func TestReplayRegressions(t *testing.T) {
	mustReject := []string{"&", "&Jjo", "Jjo&", "&Jjo&", "abc&Jjo", "&AGE-", "&ACY-", "&JjoAIQ-", "&AGE-&Jjo-", "&U,BTFw-&ZeVnLIqe-",
		"&2AA-", "&3AA-", "&2AAAQQ-", "&3ADYAA-", "&2A-", "&AAAAHw=-", "\x00", "abc\n", "é", "&*-", "&/+8-", "&A-", "&AAAA-", "&AOk-&AOk-"}
	for _, s := range mustReject {
		if ok, _ := checkDecode(t, s, chunkings); ok {
			t.Fatalf("reference accepts %q; harness bug", s)
		}
		ev.Eval()
	}
	mustAccept := map[string]string{"": "", "abc": "abc", "&-": "&", "&AOk-": "é", "a&-b": "a&b", "&AOk-&-&AOk-": "é&é", "&2D3eCg-": "\U0001f60a",
		"~peter/mail/&U,BTFw-/&ZeVnLIqe-": "~peter/mail/台北/日本語", "&,,0-": "�", "&AAA-": "\x00"}
	for in, want := range mustAccept {
		if ok, why := checkDecode(t, in, chunkings); !ok {
			t.Fatalf("reference rejects %q (%s); harness bug", in, why)
		}
		if got, _ := utf7.Encoding.NewDecoder().String(in); got != want {
			t.Fatalf("decode(%q)=%q want %q", in, got, want)
		}
		ev.Eval()
	}
	for _, s := range []string{"", "&", "&&", "é", "a\x00b", "\U0001f60a\U0001f60b", "x&é&-", strings.Repeat("あ", 2000), strings.Repeat("a&é", 1500)} {
		checkEncode(t, s, chunkings)
		ev.Eval()
	}
}

// FuzzUTF7 (thorough tier): coverage-guided search over decoder inputs and
// chunkings with the same oracles as the generated checks.
func FuzzUTF7(f *testing.F) {
	for _, s := range []string{"", "INBOX", "&-", "a&AOk-b", "&U,BTFw-", "&2D3eCg-", "&AOk", "&AOk-&AOk-", "&AEE-", "&ANg-", "&3ADYAA-", "~peter/mail/&U,BTFw-/&ZeVnLIqe-", "&AOkA", "&A-", "\x80", "&AOk=-"} {
		f.Add([]byte(s), uint8(1), uint8(1))
		f.Add([]byte(s), uint8(3), uint8(2))
	}
	f.Fuzz(func(t *testing.T, data []byte, src, dst uint8) {
		if len(data) > 2000 {
			return
		}
		ch := [][2]int{{int(src%8) + 1, int(dst%8) + 1}, {4096, 4096}}
		checkDecode(t, string(data), ch)
		if utf8.Valid(data) {
			checkEncode(t, string(data), ch)
		}
	})
}
