package c16

import (
	"fmt"
	"strings"
	"sync"
	"testing"

	"github.com/emersion/go-imap/v2/internal/utf7"
	"github.com/emersion/go-imap/v2/verifh/kit/ev"
	"github.com/emersion/go-imap/v2/verifh/kit/refutf7"
	"pgregory.net/rapid"
)

// TestPropConcurrentCodec: every connection has its own encoder and decoder
// values, but they run at the same time. 4-12 goroutines each push their own
// generated names (non-ASCII runs of different lengths) through fresh
// utf7.Encoding.NewEncoder()/NewDecoder() values and through the wire entry points,
// many times, all started together; each result is judged by the reference
// codec. The schedule is the Go runtime's: the oracle is exact, the search
// over interleavings is by repetition.
func TestPropConcurrentCodec(t *testing.T) {
	rapid.Check(t, func(t *rapid.T) {
		workers := rapid.IntRange(4, 12).Draw(t, "workers")
		reps := rapid.SampledFrom([]int{50, 200, 800}).Draw(t, "reps")
		names := make([][]string, workers)
		for w := range names {
			for i, n := 0, rapid.IntRange(1, 4).Draw(t, "nnames"); i < n; i++ {
				s := genUTF8(t)
				if rapid.Bool().Draw(t, "forceShift") {
					s += strings.Repeat(string(rapid.SampledFrom([]rune{'é', '日', 'я', 0x1F600}).Draw(t, "r")), rapid.IntRange(1, 60).Draw(t, "run"))
				}
				if strings.EqualFold(s, "INBOX") {
					s = "x" + s
				}
				names[w] = append(names[w], s)
			}
		}
		var wg sync.WaitGroup
		start := make(chan struct{})
		errs := make(chan string, workers)
		for w := 0; w < workers; w++ {
			wg.Add(1)
			go func(mine []string) {
				defer wg.Done()
				<-start
				for r := 0; r < reps; r++ {
					for _, s := range mine {
						want := refutf7.Encode(s)
						got, err := utf7.Encoding.NewEncoder().String(s)
						if err != nil || got != want {
							errs <- fmt.Sprintf("Encode(%q) = %q, %v while other goroutines were encoding their own names; want %q", s, got, err, want)
							return
						}
						back, err := utf7.Encoding.NewDecoder().String(got)
						if err != nil || back != s {
							errs <- fmt.Sprintf("Decode(%q) = %q, %v while other goroutines were decoding; want %q", got, back, err, s)
							return
						}
						if r%8 == 0 {
							wire, err := wireEncodeMailbox(s)
							if err != nil || wire != want {
								errs <- fmt.Sprintf("Encoder.Mailbox(%q) put %q, %v on the wire while other connections were encoding; want %q", s, wire, err, want)
								return
							}
							name, err := wireDecodeMailbox(want)
							if err != nil || name != s {
								errs <- fmt.Sprintf("ExpectMailbox(%q) = %q, %v while other connections were decoding; want %q", want, name, err, s)
								return
							}
						}
					}
				}
			}(names[w])
		}
		close(start)
		wg.Wait()
		close(errs)
		for e := range errs {
			t.Fatalf("%s", e)
		}
		ev.EvalN(int64(workers * reps))
		ev.NonTrivial(fmt.Sprintf("concurrent:%d:%d:%q", workers, reps, names))
		ev.Class(fmt.Sprintf("concurrent-codec:workers=%d", workers))
		ev.Sample(fmt.Sprintf("%d goroutines x %d repetitions, e.g. %q <-> %q", workers, reps, names[0][0], refutf7.Encode(names[0][0])))
	})
}
