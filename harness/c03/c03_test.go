// Package c03 decides property C03: server responses are decoded by the client
// into the data the backend supplied. A generated response plan is attached to
// the stub session behind a real imapserver; a real imapclient issues the
// command; the value returned by Wait/Collect must equal the plan under the
// documented canonicalisations.
package c03

import (
	"bytes"
	"fmt"
	"sort"
	"strings"
	"testing"
	"time"

	imap "github.com/emersion/go-imap/v2"
	"github.com/emersion/go-imap/v2/imapclient"
	"github.com/emersion/go-imap/v2/imapserver"
	"github.com/emersion/go-imap/v2/verifh/kit/cs"
	"github.com/emersion/go-imap/v2/verifh/kit/ev"
	"github.com/emersion/go-imap/v2/verifh/kit/gen"
	"github.com/emersion/go-imap/v2/verifh/kit/stub"
	"pgregory.net/rapid"
)

func TestMain(m *testing.M) { ev.Main(m) }

type fataler interface {
	Fatalf(format string, args ...any)
}

type config struct {
	rev2Enabled bool
	utf8Accept  bool
}

func (c config) String() string { return fmt.Sprintf("rev2-enabled=%v utf8accept=%v", c.rev2Enabled, c.utf8Accept) }

type run struct {
	cfg  config
	p    *cs.Pair
	t    fataler
	hist []string
}

func (r *run) fail(f string, a ...any) {
	wire := string(r.p.ServerBytes.Bytes())
	if len(wire) > 500 {
		wire = "…" + wire[len(wire)-500:]
	}
	r.t.Fatalf("[%s] %s\nhistory: %s\nserver wire (tail): %q\nserver log: %v", r.cfg, fmt.Sprintf(f, a...), strings.Join(r.hist, " | "), wire, r.p.Env.Log.Lines())
}

func (r *run) wait(what string, f func() error) {
	if err := cs.Within(10*time.Second, what, f); err != nil {
		r.fail("%s failed: %v", what, err)
	}
}

func (r *run) eq(what, got, want string) {
	if got != want {
		r.fail("%s:\n client delivered %s\n backend supplied %s", what, got, want)
	}
}

// ---------------------------------------------------------------- text generators

// text draws a valid-UTF-8 string for textual fields. Strings that look like
// RFC 2047 encoded-words are the listed known finding F-C03b and are steered
// away from (counted).
func text(t *rapid.T, label string) string {
	s := gen.Bytes(t, label, false).S
	if len(s) > 300 {
		s = s[:300]
	}
	s = strings.ToValidUTF8(s, "?")
	if strings.Contains(s, "=?") {
		ev.Excluded("F-C03b")
		s = strings.ReplaceAll(s, "=?", "=!")
	}
	return s
}

func raw(t *rapid.T, label string) string {
	s := gen.Bytes(t, label, true).S
	if len(s) > 300 {
		s = s[:300]
	}
	return s
}

func word(t *rapid.T, label string) string {
	return rapid.SampledFrom([]string{"a", "Sent Items", "x\"y", "b\\c", "é", "台北", "", "NIL", "line\r\nbreak", "(paren)", "{5}", "tab\there"}).Draw(t, label)
}

func mailboxName(t *rapid.T, label string) string {
	s := gen.Mailbox(t, label).S
	if len(s) > 200 {
		s = string([]rune(s)[:60])
	}
	return s
}

func canonMailbox(s string) string {
	if strings.EqualFold(s, "INBOX") {
		return "INBOX"
	}
	return s
}

var zones = []*time.Location{time.UTC, time.FixedZone("", 5*3600+1800), time.FixedZone("", -8*3600), time.FixedZone("", 13*3600), time.FixedZone("PDT", -7*3600), time.FixedZone("CEST", 2*3600), time.FixedZone("XYZ", -3*3600-1800)}

func genTime(t *rapid.T, label string) time.Time {
	loc := rapid.SampledFrom(zones).Draw(t, label+".zone")
	return time.Date(rapid.IntRange(1990, 2037).Draw(t, label+".y"), time.Month(rapid.IntRange(1, 12).Draw(t, label+".mo")), rapid.IntRange(1, 28).Draw(t, label+".d"),
		rapid.IntRange(0, 23).Draw(t, label+".h"), rapid.IntRange(0, 59).Draw(t, label+".mi"), rapid.IntRange(0, 59).Draw(t, label+".s"), 0, loc)
}

func timeKey(tm time.Time) string {
	if tm.IsZero() {
		return "-"
	}
	_, off := tm.Zone()
	return fmt.Sprintf("%d%+d", tm.Unix(), off)
}

func flagsOf(t *rapid.T, label string, perm bool) []imap.Flag {
	var fl []imap.Flag
	for i, n := 0, rapid.IntRange(0, 4).Draw(t, label+".n"); i < n; i++ {
		fl = append(fl, imap.Flag(gen.ValidFlag(t, label)))
	}
	if perm && rapid.Bool().Draw(t, label+".wildcard") {
		fl = append(fl, imap.FlagWildcard)
	}
	return fl
}

func flagsKey(fl []imap.Flag) string {
	var l []string
	for _, f := range fl {
		l = append(l, gen.CanonFlag(string(f)))
	}
	return "[" + strings.Join(l, " ") + "]"
}

func u32p(v uint32) *uint32 { return &v }
func i64p(v int64) *int64   { return &v }

// ---------------------------------------------------------------- STATUS / LIST

func genStatusOptions(t *rapid.T) *imap.StatusOptions {
	return &imap.StatusOptions{NumMessages: rapid.Bool().Draw(t, "s.msgs"), UIDNext: rapid.Bool().Draw(t, "s.uidnext"), UIDValidity: rapid.Bool().Draw(t, "s.uidv"),
		NumUnseen: rapid.Bool().Draw(t, "s.unseen"), NumDeleted: rapid.Bool().Draw(t, "s.del"), Size: rapid.Bool().Draw(t, "s.size"),
		AppendLimit: rapid.Bool().Draw(t, "s.al"), DeletedStorage: rapid.Bool().Draw(t, "s.ds")}
}

func genStatusData(t *rapid.T, mbox string, o *imap.StatusOptions) *imap.StatusData {
	d := &imap.StatusData{Mailbox: mbox}
	if o.NumMessages {
		d.NumMessages = u32p(gen.U32(t, "sd.msgs"))
	}
	if o.UIDNext {
		d.UIDNext = imap.UID(gen.U32(t, "sd.uidnext"))
	}
	if o.UIDValidity {
		d.UIDValidity = gen.U32(t, "sd.uidv")
	}
	if o.NumUnseen {
		d.NumUnseen = u32p(gen.U32(t, "sd.unseen"))
	}
	if o.NumDeleted {
		d.NumDeleted = u32p(gen.U32(t, "sd.del"))
	}
	if o.Size {
		d.Size = i64p(gen.I64(t, "sd.size"))
	}
	if o.AppendLimit && rapid.Bool().Draw(t, "sd.haslimit") {
		d.AppendLimit = u32p(gen.U32(t, "sd.al"))
	}
	if o.DeletedStorage {
		d.DeletedStorage = i64p(gen.I64(t, "sd.ds"))
	}
	return d
}

func statusKey(d *imap.StatusData, o *imap.StatusOptions) string {
	if d == nil {
		return "<nil>"
	}
	var sb strings.Builder
	fmt.Fprintf(&sb, "mbox=%q", canonMailbox(d.Mailbox))
	pu := func(name string, on bool, p *uint32) {
		if on {
			if p == nil {
				fmt.Fprintf(&sb, " %s=<nil>", name)
			} else {
				fmt.Fprintf(&sb, " %s=%d", name, *p)
			}
		}
	}
	pu("messages", o.NumMessages, d.NumMessages)
	if o.UIDNext {
		fmt.Fprintf(&sb, " uidnext=%d", d.UIDNext)
	}
	if o.UIDValidity {
		fmt.Fprintf(&sb, " uidvalidity=%d", d.UIDValidity)
	}
	pu("unseen", o.NumUnseen, d.NumUnseen)
	pu("deleted", o.NumDeleted, d.NumDeleted)
	if o.Size {
		if d.Size == nil {
			sb.WriteString(" size=<nil>")
		} else {
			fmt.Fprintf(&sb, " size=%d", *d.Size)
		}
	}
	if o.AppendLimit {
		// "no limit" is NIL on the wire; the client API represents it as 2^32-1
		if d.AppendLimit == nil || *d.AppendLimit == ^uint32(0) {
			sb.WriteString(" appendlimit=none")
		} else {
			fmt.Fprintf(&sb, " appendlimit=%d", *d.AppendLimit)
		}
	}
	if o.DeletedStorage {
		if d.DeletedStorage == nil {
			sb.WriteString(" deletedstorage=<nil>")
		} else {
			fmt.Fprintf(&sb, " deletedstorage=%d", *d.DeletedStorage)
		}
	}
	return sb.String()
}

func genListData(t *rapid.T, label string, withStatus *imap.StatusOptions) *imap.ListData {
	d := &imap.ListData{Mailbox: mailboxName(t, label+".mbox"), Delim: rapid.SampledFrom([]rune{'/', '.', 0, '"', '\\', ' ', '%', '·', '→', 'é', 0x1F4C1}).Draw(t, label+".delim")}
	for i, n := 0, rapid.IntRange(0, 3).Draw(t, label+".nattr"); i < n; i++ {
		d.Attrs = append(d.Attrs, imap.MailboxAttr(gen.ValidAttr(t, label+".attr")))
	}
	if rapid.IntRange(0, 3).Draw(t, label+".childinfo") == 2 {
		d.ChildInfo = &imap.ListDataChildInfo{Subscribed: rapid.Bool().Draw(t, label+".cisub")}
	}
	if rapid.IntRange(0, 3).Draw(t, label+".oldname") == 2 {
		d.OldName = mailboxName(t, label+".old")
		if d.OldName == "" {
			d.OldName = "old"
		}
	}
	if withStatus != nil && rapid.IntRange(0, 3).Draw(t, label+".hasstatus") != 0 {
		d.Status = genStatusData(t, d.Mailbox, withStatus)
	}
	return d
}

func listKey(d *imap.ListData, so *imap.StatusOptions) string {
	if d == nil {
		return "<nil>"
	}
	var attrs []string
	for _, a := range d.Attrs {
		attrs = append(attrs, gen.CanonAttr(string(a)))
	}
	s := fmt.Sprintf("{attrs=%v delim=%q mbox=%q", attrs, d.Delim, canonMailbox(d.Mailbox))
	if d.ChildInfo != nil {
		s += fmt.Sprintf(" childinfo(sub=%v)", d.ChildInfo.Subscribed)
	}
	if d.OldName != "" {
		s += fmt.Sprintf(" oldname=%q", canonMailbox(d.OldName))
	}
	if so != nil && d.Status != nil {
		s += " status(" + statusKey(d.Status, so) + ")"
	}
	return s + "}"
}

// ---------------------------------------------------------------- envelope / body structure

func genAddrs(t *rapid.T, label string) []imap.Address {
	if rapid.IntRange(0, 3).Draw(t, label+".nil") == 0 {
		return nil
	}
	var l []imap.Address
	for i, n := 0, rapid.IntRange(1, 3).Draw(t, label+".n"); i < n; i++ {
		switch rapid.IntRange(0, 5).Draw(t, label+".kind") {
		case 0: // group start
			l = append(l, imap.Address{Mailbox: "undisclosed-recipients"})
		case 1: // group end
			l = append(l, imap.Address{})
		default:
			l = append(l, imap.Address{Name: text(t, label+".name"), Mailbox: rapid.SampledFrom([]string{"alice", "bob.smith", "a\"b", "x y", "é"}).Draw(t, label+".mb"),
				Host: rapid.SampledFrom([]string{"example.org", "mail.example.com", "localhost", "host name"}).Draw(t, label+".host")})
		}
	}
	return l
}

func addrsKey(l []imap.Address) string {
	if len(l) == 0 {
		return "[]"
	}
	var parts []string
	for _, a := range l {
		parts = append(parts, fmt.Sprintf("(%q %q %q)", a.Name, a.Mailbox, a.Host))
	}
	return "[" + strings.Join(parts, " ") + "]"
}

var msgIDs = []string{"abc@example.org", "1234.5678@mail.example.com", "x.y-z@h", "a_b+c@d.e"}

func genEnvelope(t *rapid.T, label string) *imap.Envelope {
	e := &imap.Envelope{Subject: text(t, label+".subject"), From: genAddrs(t, label+".from"), Sender: genAddrs(t, label+".sender"), ReplyTo: genAddrs(t, label+".replyto"),
		To: genAddrs(t, label+".to"), Cc: genAddrs(t, label+".cc"), Bcc: genAddrs(t, label+".bcc")}
	if rapid.Bool().Draw(t, label+".hasdate") {
		e.Date = genTime(t, label+".date")
	}
	for i, n := 0, rapid.IntRange(0, 3).Draw(t, label+".nirt"); i < n; i++ {
		e.InReplyTo = append(e.InReplyTo, rapid.SampledFrom(msgIDs).Draw(t, label+".irt"))
	}
	if rapid.Bool().Draw(t, label+".hasmsgid") {
		e.MessageID = rapid.SampledFrom(msgIDs).Draw(t, label+".msgid")
	}
	return e
}

// envelopeKey applies RFC 9051 7.5.2: Sender and Reply-To default to From.
func envelopeKey(e *imap.Envelope, expected bool) string {
	if e == nil {
		e = &imap.Envelope{}
	}
	sender, replyTo := e.Sender, e.ReplyTo
	if expected {
		if sender == nil {
			sender = e.From
		}
		if replyTo == nil {
			replyTo = e.From
		}
	}
	return fmt.Sprintf("ENV{date=%s subject=%q from=%s sender=%s replyto=%s to=%s cc=%s bcc=%s irt=%q msgid=%q}", timeKey(e.Date), e.Subject,
		addrsKey(e.From), addrsKey(sender), addrsKey(replyTo), addrsKey(e.To), addrsKey(e.Cc), addrsKey(e.Bcc), e.InReplyTo, e.MessageID)
}

func genParams(t *rapid.T, label string) map[string]string {
	if rapid.IntRange(0, 2).Draw(t, label+".nil") == 0 {
		return nil
	}
	m := map[string]string{}
	for i, n := 0, rapid.IntRange(1, 3).Draw(t, label+".n"); i < n; i++ {
		k := rapid.SampledFrom([]string{"charset", "NAME", "Boundary", "filename", "x-é", "format"}).Draw(t, label+".k")
		dup := false
		for e := range m {
			if strings.EqualFold(e, k) {
				dup = true
			}
		}
		if !dup {
			m[k] = text(t, label+".v")
		}
	}
	return m
}

func paramsKey(m map[string]string) string {
	if len(m) == 0 {
		return "{}"
	}
	var ks []string
	for k, v := range m {
		ks = append(ks, fmt.Sprintf("%q=%q", strings.ToLower(k), v))
	}
	sort.Strings(ks)
	return "{" + strings.Join(ks, ",") + "}"
}

func genDisposition(t *rapid.T, label string) *imap.BodyStructureDisposition {
	if rapid.Bool().Draw(t, label+".nil") {
		return nil
	}
	return &imap.BodyStructureDisposition{Value: rapid.SampledFrom([]string{"attachment", "inline", "INLINE", "x y"}).Draw(t, label+".v"), Params: genParams(t, label+".p")}
}

func dispKey(d *imap.BodyStructureDisposition) string {
	if d == nil {
		return "<nil>"
	}
	return fmt.Sprintf("(%q %s)", d.Value, paramsKey(d.Params))
}

func genLang(t *rapid.T, label string) []string {
	var l []string
	for i, n := 0, rapid.IntRange(0, 2).Draw(t, label+".n"); i < n; i++ {
		l = append(l, rapid.SampledFrom([]string{"en", "fr-CA", "de", "x y", "en, fr", "a,b", " en", "(x)", ""}).Draw(t, label))
	}
	return l
}

func genBodyStructure(t *rapid.T, label string, depth int, extended bool) imap.BodyStructure {
	kind := rapid.IntRange(0, 5).Draw(t, label+".kind")
	if depth > 0 && kind >= 4 {
		mp := &imap.BodyStructureMultiPart{Subtype: rapid.SampledFrom([]string{"mixed", "alternative", "RELATED", "x y"}).Draw(t, label+".subtype")}
		for i, n := 0, rapid.IntRange(1, 3).Draw(t, label+".nchild"); i < n; i++ {
			mp.Children = append(mp.Children, genBodyStructure(t, fmt.Sprintf("%s.c%d", label, i), depth-1, extended))
		}
		if extended {
			mp.Extended = &imap.BodyStructureMultiPartExt{Params: genParams(t, label+".mparams"), Disposition: genDisposition(t, label+".mdisp"), Language: genLang(t, label+".mlang"), Location: word(t, label+".mloc")}
		}
		return mp
	}
	sp := &imap.BodyStructureSinglePart{Params: genParams(t, label+".params"), ID: word(t, label+".id"), Description: text(t, label+".desc"),
		Encoding: rapid.SampledFrom([]string{"", "7bit", "BASE64", "quoted-printable", "8BIT"}).Draw(t, label+".enc"), Size: gen.U32(t, label+".size")}
	switch {
	case depth > 0 && kind == 3:
		sp.Type, sp.Subtype = rapid.SampledFrom([]string{"message", "MESSAGE"}).Draw(t, label+".mtype"), rapid.SampledFrom([]string{"rfc822", "RFC822", "global"}).Draw(t, label+".msub")
		sp.MessageRFC822 = &imap.BodyStructureMessageRFC822{Envelope: genEnvelope(t, label+".menv"), BodyStructure: genBodyStructure(t, label+".mbody", depth-1, extended), NumLines: gen.I64(t, label+".mlines")}
	case kind <= 1:
		sp.Type, sp.Subtype = rapid.SampledFrom([]string{"text", "TEXT", "Text"}).Draw(t, label+".ttype"), rapid.SampledFrom([]string{"plain", "html", "x-weird sub"}).Draw(t, label+".tsub")
		sp.Text = &imap.BodyStructureText{NumLines: gen.I64(t, label+".lines")}
	default:
		sp.Type, sp.Subtype = rapid.SampledFrom([]string{"application", "image", "audio", "x\"q"}).Draw(t, label+".atype"), rapid.SampledFrom([]string{"octet-stream", "png", "pdf"}).Draw(t, label+".asub")
	}
	if extended {
		sp.Extended = &imap.BodyStructureSinglePartExt{Disposition: genDisposition(t, label+".disp"), Language: genLang(t, label+".lang"), Location: word(t, label+".loc")}
	}
	return sp
}

func bsKey(bs imap.BodyStructure, expected bool) string {
	switch b := bs.(type) {
	case *imap.BodyStructureMultiPart:
		var cs []string
		for _, c := range b.Children {
			cs = append(cs, bsKey(c, expected))
		}
		s := fmt.Sprintf("MP{%s subtype=%q", strings.Join(cs, " "), b.Subtype)
		if b.Extended != nil {
			s += fmt.Sprintf(" ext(params=%s disp=%s lang=%q loc=%q)", paramsKey(b.Extended.Params), dispKey(b.Extended.Disposition), b.Extended.Language, b.Extended.Location)
		}
		return s + "}"
	case *imap.BodyStructureSinglePart:
		enc := b.Encoding
		if expected {
			if enc == "" {
				enc = "7BIT"
			}
			enc = strings.ToUpper(enc)
		}
		s := fmt.Sprintf("SP{%q/%q params=%s id=%q desc=%q enc=%q size=%d", b.Type, b.Subtype, paramsKey(b.Params), b.ID, b.Description, enc, b.Size)
		if b.MessageRFC822 != nil {
			s += fmt.Sprintf(" msg(%s %s lines=%d)", envelopeKey(b.MessageRFC822.Envelope, expected), bsKey(b.MessageRFC822.BodyStructure, expected), b.MessageRFC822.NumLines)
		}
		if b.Text != nil {
			s += fmt.Sprintf(" text(lines=%d)", b.Text.NumLines)
		}
		if b.Extended != nil {
			s += fmt.Sprintf(" ext(disp=%s lang=%q loc=%q)", dispKey(b.Extended.Disposition), b.Extended.Language, b.Extended.Location)
		}
		return s + "}"
	case nil:
		return "<nil>"
	}
	return fmt.Sprintf("%T", bs)
}

// ---------------------------------------------------------------- FETCH plan

type sectionPlan struct {
	section *imap.FetchItemBodySection
	binary  *imap.FetchItemBinarySection
	data    []byte
}

type msgPlan struct {
	seq       uint32
	uid       imap.UID
	hasUID    bool
	flags     []imap.Flag
	hasFlags  bool
	idate     time.Time
	size      int64
	hasSize   bool
	env       *imap.Envelope
	bs        imap.BodyStructure
	extended  bool
	sections  []sectionPlan
	binSizes  []imapclient.FetchItemDataBinarySectionSize
	itemOrder []string
}

func genPayload(t *rapid.T, label string) []byte {
	n := rapid.SampledFrom([]int{0, 1, 17, 300, 4096, 4097, 70000}).Draw(t, label+".len")
	unit := rapid.SampledFrom([]string{"Subject: hi\r\n\r\nbody\r\n", "\x00\xff\xfe binary )(\"{3}\r\n", "a"}).Draw(t, label+".unit")
	return bytes.Repeat([]byte(unit), n/len(unit)+1)[:n]
}

func genSection(t *rapid.T, label string) *imap.FetchItemBodySection {
	s := &imap.FetchItemBodySection{}
	switch rapid.IntRange(0, 5).Draw(t, label+".spec") {
	case 0:
	case 1:
		s.Specifier = imap.PartSpecifierHeader
	case 2:
		s.Specifier = imap.PartSpecifierText
		s.Part = []int{1, 2}
	case 3:
		s.Specifier = imap.PartSpecifierMIME
		s.Part = []int{2}
	case 4:
		s.Specifier = imap.PartSpecifierHeader
		s.HeaderFields = []string{"From", rapid.SampledFrom([]string{"To", "X y", "Sub\"ject"}).Draw(t, label+".field")}
	default:
		s.Specifier = imap.PartSpecifierHeader
		s.HeaderFieldsNot = []string{"Received"}
		s.Part = []int{3}
	}
	if rapid.IntRange(0, 2).Draw(t, label+".partial") == 1 {
		// the response carries only the origin octet (32-bit in the grammar)
		s.Partial = &imap.SectionPartial{Offset: int64(rapid.SampledFrom([]uint32{0, 1, 4096, 1<<32 - 1}).Draw(t, label+".off")), Size: 10}
	}
	return s
}

func sectionKey(s *imap.FetchItemBodySection) string {
	p := "-"
	if s.Partial != nil {
		p = fmt.Sprint(s.Partial.Offset)
	}
	return fmt.Sprintf("BODY[spec=%s part=%v fields=%q not=%q origin=%s]", s.Specifier, s.Part, s.HeaderFields, s.HeaderFieldsNot, p)
}

func genMsgPlan(t *rapid.T, label string, seq uint32, uidFetch bool) *msgPlan {
	m := &msgPlan{seq: seq}
	// UID first (the client routes UID FETCH responses by the UID item)
	if uidFetch || rapid.Bool().Draw(t, label+".uid") {
		m.hasUID, m.uid = true, imap.UID(seq+1000)
	}
	if rapid.Bool().Draw(t, label+".flags") {
		m.hasFlags, m.flags = true, flagsOf(t, label+".fl", false)
	}
	if rapid.Bool().Draw(t, label+".idate") {
		m.idate = genTime(t, label+".idate")
	}
	if rapid.Bool().Draw(t, label+".size") {
		m.hasSize, m.size = true, gen.I64(t, label+".sz")
	}
	if rapid.IntRange(0, 2).Draw(t, label+".env") == 1 {
		m.env = genEnvelope(t, label+".env")
	}
	if rapid.IntRange(0, 2).Draw(t, label+".bs") == 1 {
		m.extended = rapid.Bool().Draw(t, label+".ext")
		m.bs = genBodyStructure(t, label+".bs", 3, m.extended)
	}
	for i, n := 0, rapid.IntRange(0, 2).Draw(t, label+".nsect"); i < n; i++ {
		m.sections = append(m.sections, sectionPlan{section: genSection(t, fmt.Sprintf("%s.s%d", label, i)), data: genPayload(t, fmt.Sprintf("%s.p%d", label, i))})
	}
	if rapid.IntRange(0, 3).Draw(t, label+".bin") == 1 {
		m.sections = append(m.sections, sectionPlan{binary: &imap.FetchItemBinarySection{Part: []int{1, 2}}, data: genPayload(t, label+".bp")})
	}
	if rapid.IntRange(0, 3).Draw(t, label+".binsize") == 1 {
		m.binSizes = append(m.binSizes, imapclient.FetchItemDataBinarySectionSize{Part: []int{2}, Size: gen.U32(t, label+".bsz")})
	}
	return m
}

func (m *msgPlan) write(w *imapserver.FetchWriter) error {
	rw := w.CreateMessage(m.seq)
	if m.hasUID {
		rw.WriteUID(m.uid)
	}
	if m.hasFlags {
		rw.WriteFlags(m.flags)
	}
	if !m.idate.IsZero() {
		rw.WriteInternalDate(m.idate)
	}
	if m.hasSize {
		rw.WriteRFC822Size(m.size)
	}
	if m.env != nil {
		rw.WriteEnvelope(m.env)
	}
	if m.bs != nil {
		rw.WriteBodyStructure(m.bs)
	}
	for _, bs := range m.binSizes {
		rw.WriteBinarySectionSize(&imap.FetchItemBinarySection{Part: bs.Part}, bs.Size)
	}
	for _, s := range m.sections {
		var wc interface {
			Write([]byte) (int, error)
			Close() error
		}
		if s.section != nil {
			wc = rw.WriteBodySection(s.section, int64(len(s.data)))
		} else {
			wc = rw.WriteBinarySection(s.binary, int64(len(s.data)))
		}
		if _, err := wc.Write(s.data); err != nil {
			return err
		}
		if err := wc.Close(); err != nil {
			return err
		}
	}
	return rw.Close()
}

func (m *msgPlan) key() string {
	var sb strings.Builder
	fmt.Fprintf(&sb, "MSG{seq=%d", m.seq)
	if m.hasUID {
		fmt.Fprintf(&sb, " uid=%d", m.uid)
	}
	if m.hasFlags && len(m.flags) > 0 { // nil and empty flag lists are the same value
		fmt.Fprintf(&sb, " flags=%s", flagsKey(m.flags))
	}
	if !m.idate.IsZero() {
		fmt.Fprintf(&sb, " idate=%s", timeKey(m.idate))
	}
	if m.hasSize && m.size != 0 { // the buffer type cannot tell 0 from absent
		fmt.Fprintf(&sb, " size=%d", m.size)
	}
	if m.env != nil {
		sb.WriteString(" " + envelopeKey(m.env, true))
	}
	if m.bs != nil {
		sb.WriteString(" " + bsKey(m.bs, true))
	}
	for _, bs := range m.binSizes {
		fmt.Fprintf(&sb, " BINARY.SIZE%v=%d", bs.Part, bs.Size)
	}
	var sect []string
	for _, s := range m.sections {
		if s.section != nil {
			sect = append(sect, fmt.Sprintf("%s=%d:%x", sectionKey(s.section), len(s.data), hash(s.data)))
		} else {
			sect = append(sect, fmt.Sprintf("BINARY%v=%d:%x", s.binary.Part, len(s.data), hash(s.data)))
		}
	}
	sort.Strings(sect)
	sb.WriteString(" " + strings.Join(sect, " ") + "}")
	return sb.String()
}

func hash(b []byte) uint32 {
	h := uint32(2166136261)
	for _, c := range b {
		h = (h ^ uint32(c)) * 16777619
	}
	return h
}

func bufKey(b *imapclient.FetchMessageBuffer) string {
	var sb strings.Builder
	fmt.Fprintf(&sb, "MSG{seq=%d", b.SeqNum)
	if b.UID != 0 {
		fmt.Fprintf(&sb, " uid=%d", b.UID)
	}
	if len(b.Flags) > 0 {
		fmt.Fprintf(&sb, " flags=%s", flagsKey(b.Flags))
	}
	if !b.InternalDate.IsZero() {
		fmt.Fprintf(&sb, " idate=%s", timeKey(b.InternalDate))
	}
	if b.RFC822Size != 0 {
		fmt.Fprintf(&sb, " size=%d", b.RFC822Size)
	}
	if b.Envelope != nil {
		sb.WriteString(" " + envelopeKey(b.Envelope, false))
	}
	if b.BodyStructure != nil {
		sb.WriteString(" " + bsKey(b.BodyStructure, false))
	}
	for _, bs := range b.BinarySectionSize {
		fmt.Fprintf(&sb, " BINARY.SIZE%v=%d", bs.Part, bs.Size)
	}
	var sect []string
	for s, data := range b.BodySection {
		sect = append(sect, fmt.Sprintf("%s=%d:%x", sectionKey(s), len(data), hash(data)))
	}
	for s, data := range b.BinarySection {
		sect = append(sect, fmt.Sprintf("BINARY%v=%d:%x", s.Part, len(data), hash(data)))
	}
	sort.Strings(sect)
	sb.WriteString(" " + strings.Join(sect, " ") + "}")
	return sb.String()
}

// ---------------------------------------------------------------- steps

func numSetKey(s imap.NumSet) string {
	if s == nil {
		return "{}"
	}
	switch v := s.(type) {
	case imap.SeqSet:
		if len(v) == 0 {
			return "{}"
		}
		return "seq:" + v.String()
	case imap.UIDSet:
		if len(v) == 0 {
			return "{}"
		}
		return "uid:" + v.String()
	}
	return fmt.Sprint(s)
}

func (r *run) stepList(t *rapid.T) {
	var so *imap.StatusOptions
	opts := &imap.ListOptions{ReturnSubscribed: true}
	if rapid.Bool().Draw(t, "list.status") {
		so = genStatusOptions(t)
		opts.ReturnStatus = so
	}
	var plan []*imap.ListData
	seen := map[string]bool{}
	for i, n := 0, rapid.IntRange(0, 4).Draw(t, "nlist"); i < n; i++ {
		d := genListData(t, fmt.Sprintf("l%d", i), so)
		if seen[canonMailbox(d.Mailbox)] {
			continue // STATUS is paired with LIST by mailbox name
		}
		seen[canonMailbox(d.Mailbox)] = true
		plan = append(plan, d)
	}
	r.p.Core.OnList = func(w *imapserver.ListWriter, _ string, _ []string, _ *imap.ListOptions) error {
		for _, d := range plan {
			if err := w.WriteList(d); err != nil {
				return err
			}
		}
		return nil
	}
	var want []string
	for _, d := range plan {
		want = append(want, listKey(d, so))
	}
	r.hist = append(r.hist, fmt.Sprintf("LIST -> %v", want))
	var got []string
	r.wait("List", func() error {
		l, err := r.p.Client.List("", "*", opts).Collect()
		for _, d := range l {
			got = append(got, listKey(d, so))
		}
		return err
	})
	r.eq("LIST data", fmt.Sprint(got), fmt.Sprint(want))
}

func (r *run) stepStatus(t *rapid.T) {
	so := genStatusOptions(t)
	mb := mailboxName(t, "status.mbox")
	plan := genStatusData(t, mb, so)
	r.p.Core.OnStatus = func(string, *imap.StatusOptions) (*imap.StatusData, error) { return plan, nil }
	r.hist = append(r.hist, "STATUS -> "+statusKey(plan, so))
	var got *imap.StatusData
	r.wait("Status", func() error {
		var err error
		got, err = r.p.Client.Status(mb, so).Wait()
		return err
	})
	r.eq("STATUS data", statusKey(got, so), statusKey(plan, so))
}

func selectKey(d *imap.SelectData, withList bool) string {
	s := fmt.Sprintf("flags=%s perm=%s exists=%d uidnext=%d uidvalidity=%d", flagsKey(d.Flags), flagsKey(d.PermanentFlags), d.NumMessages, d.UIDNext, d.UIDValidity)
	if withList {
		s += " list=" + listKey(d.List, nil)
	}
	return s
}

func (r *run) stepSelect(t *rapid.T) {
	mb := mailboxName(t, "select.mbox")
	plan := &imap.SelectData{Flags: flagsOf(t, "sel.flags", false), PermanentFlags: flagsOf(t, "sel.perm", true), NumMessages: gen.U32(t, "sel.exists"),
		UIDNext: imap.UID(gen.U32(t, "sel.uidnext")), UIDValidity: gen.U32(t, "sel.uidv")}
	withList := r.cfg.rev2Enabled && rapid.Bool().Draw(t, "sel.list")
	if withList {
		plan.List = genListData(t, "sel.l", nil)
		plan.List.Mailbox = mb
		plan.List.OldName, plan.List.ChildInfo = "", nil
	}
	r.p.Core.OnSelect = func(string, *imap.SelectOptions) (*imap.SelectData, error) { return plan, nil }
	r.hist = append(r.hist, "SELECT -> "+selectKey(plan, withList))
	var got *imap.SelectData
	r.wait("Select", func() error {
		var err error
		got, err = r.p.Client.Select(mb, nil).Wait()
		return err
	})
	r.eq("SELECT data", selectKey(got, withList), selectKey(plan, withList))
	if m := r.p.Client.Mailbox(); m == nil || m.NumMessages != plan.NumMessages || flagsKey(m.Flags) != flagsKey(plan.Flags) || flagsKey(m.PermanentFlags) != flagsKey(plan.PermanentFlags) {
		r.fail("Client.Mailbox() after SELECT: %+v, backend supplied %s", m, selectKey(plan, false))
	}
}

func (r *run) stepFetch(t *rapid.T) {
	uidFetch := rapid.Bool().Draw(t, "uidfetch")
	n := rapid.IntRange(0, 4).Draw(t, "nmsgs")
	var plan []*msgPlan
	var seqs imap.SeqSet
	var uids imap.UIDSet
	opts := &imap.FetchOptions{}
	for i := 0; i < n; i++ {
		m := genMsgPlan(t, fmt.Sprintf("m%d", i), uint32(i*2+1), uidFetch)
		plan = append(plan, m)
		seqs.AddNum(m.seq)
		uids.AddNum(m.uid)
		if m.bs != nil {
			// the request decides BODY vs BODYSTRUCTURE for the whole command
			for _, p := range plan {
				if p.bs != nil && p.extended != m.extended {
					m.bs = nil
				}
			}
			if m.bs != nil {
				opts.BodyStructure = &imap.FetchItemBodyStructure{Extended: m.extended}
			}
		}
	}
	if n == 0 {
		seqs.AddNum(1)
		uids.AddNum(1001)
	}
	r.p.Core.OnFetch = func(w *imapserver.FetchWriter, _ imap.NumSet, _ *imap.FetchOptions) error {
		for _, m := range plan {
			if err := m.write(w); err != nil {
				return err
			}
		}
		return nil
	}
	var want []string
	for _, m := range plan {
		want = append(want, m.key())
	}
	r.hist = append(r.hist, fmt.Sprintf("FETCH(uid=%v) -> %d messages", uidFetch, n))
	var got []string
	r.wait("Fetch", func() error {
		var set imap.NumSet = seqs
		if uidFetch {
			set = uids
		}
		bufs, err := r.p.Client.Fetch(set, opts).Collect()
		for _, b := range bufs {
			got = append(got, bufKey(b))
		}
		return err
	})
	if len(got) != len(want) {
		r.fail("FETCH: client delivered %d messages, backend wrote %d\n got  %v\n want %v", len(got), len(want), got, want)
	}
	for i := range want {
		r.eq(fmt.Sprintf("FETCH message %d", i), got[i], want[i])
	}
}

func (r *run) stepSearch(t *rapid.T) {
	uid := rapid.Bool().Draw(t, "uidsearch")
	var nums []uint32
	for i, n := 0, rapid.IntRange(0, 6).Draw(t, "nres"); i < n; i++ {
		nums = append(nums, uint32(rapid.IntRange(1, 40).Draw(t, "res")))
	}
	if rapid.IntRange(0, 4).Draw(t, "bigres") == 3 {
		nums = append(nums, 4294967295, 4294967294)
	}
	if rapid.IntRange(0, 9).Draw(t, "hugeres") == 7 {
		// thousands of non-adjacent numbers: a SEARCH response of many kB
		step := uint32(rapid.IntRange(2, 5).Draw(t, "hugestep"))
		for i, n := uint32(0), uint32(rapid.IntRange(900, 3500).Draw(t, "hugen")); i < n; i++ {
			nums = append(nums, 50+i*step)
		}
	}
	plan := &imap.SearchData{UID: uid}
	if uid {
		var s imap.UIDSet
		for _, n := range nums {
			s.AddNum(imap.UID(n))
		}
		plan.All = s
	} else {
		var s imap.SeqSet
		s.AddNum(nums...)
		plan.All = s
	}
	sort.Slice(nums, func(i, j int) bool { return nums[i] < nums[j] })
	if len(nums) > 0 {
		plan.Min, plan.Max = nums[0], nums[len(nums)-1]
	}
	plan.Count = uint32(rapid.IntRange(0, 50).Draw(t, "count"))
	var opts *imap.SearchOptions
	if rapid.Bool().Draw(t, "search.opts") {
		opts = &imap.SearchOptions{ReturnMin: rapid.Bool().Draw(t, "so.min"), ReturnMax: rapid.Bool().Draw(t, "so.max"), ReturnAll: rapid.Bool().Draw(t, "so.all"), ReturnCount: rapid.Bool().Draw(t, "so.count")}
	}
	r.p.Core.OnSearch = func(imapserver.NumKind, *imap.SearchCriteria, *imap.SearchOptions) (*imap.SearchData, error) { return plan, nil }
	// what the protocol lets the client learn
	eff := imap.SearchOptions{ReturnAll: true}
	extended := r.cfg.rev2Enabled
	if opts != nil && (opts.ReturnMin || opts.ReturnMax || opts.ReturnAll || opts.ReturnCount) {
		eff = *opts
		extended = true
	}
	key := func(d *imap.SearchData) string {
		s := ""
		if eff.ReturnAll {
			s += "all=" + numSetKey(d.All)
		}
		if extended {
			if eff.ReturnMin {
				s += fmt.Sprintf(" min=%d", d.Min)
			}
			if eff.ReturnMax {
				s += fmt.Sprintf(" max=%d", d.Max)
			}
			if eff.ReturnCount {
				s += fmt.Sprintf(" count=%d", d.Count)
			}
		}
		return s
	}
	r.hist = append(r.hist, fmt.Sprintf("SEARCH(uid=%v opts=%+v) -> %s", uid, opts, key(plan)))
	var got *imap.SearchData
	r.wait("Search", func() error {
		var err error
		crit := &imap.SearchCriteria{}
		if uid {
			got, err = r.p.Client.UIDSearch(crit, opts).Wait()
		} else {
			got, err = r.p.Client.Search(crit, opts).Wait()
		}
		return err
	})
	r.eq("SEARCH data", key(got), key(plan))
	if eff.ReturnAll && len(nums) < 30 {
		// accessor view
		var want []uint32
		seen := map[uint32]bool{}
		for _, n := range nums {
			if !seen[n] {
				seen[n] = true
				want = append(want, n)
			}
		}
		var gotNums []uint32
		if uid {
			for _, u := range got.AllUIDs() {
				gotNums = append(gotNums, uint32(u))
			}
		} else {
			gotNums = got.AllSeqNums()
		}
		if fmt.Sprint(gotNums) != fmt.Sprint(want) && !(len(gotNums) == 0 && len(want) == 0) {
			r.fail("SEARCH numbers: client delivered %v, backend supplied %v", gotNums, want)
		}
	}
}

func copyKey(v uint32, src, dst imap.NumSet) string {
	return fmt.Sprintf("uidvalidity=%d src=%s dst=%s", v, numSetKey(src), numSetKey(dst))
}

func genCopyData(t *rapid.T) *imap.CopyData {
	if rapid.IntRange(0, 4).Draw(t, "copy.nil") == 0 {
		return nil
	}
	d := &imap.CopyData{UIDValidity: gen.U32(t, "copy.uidv")}
	for i, n := 0, rapid.IntRange(1, 4).Draw(t, "copy.n"); i < n; i++ {
		d.SourceUIDs.AddNum(imap.UID(rapid.IntRange(1, 50).Draw(t, "copy.src")))
		d.DestUIDs.AddNum(imap.UID(rapid.IntRange(100, 200).Draw(t, "copy.dst")))
	}
	if rapid.IntRange(0, 5).Draw(t, "copy.big") == 3 {
		d.SourceUIDs.AddNum(4294967295)
		d.DestUIDs.AddRange(4294967290, 4294967295)
	}
	return d
}

func (r *run) stepCopy(t *rapid.T) {
	plan := genCopyData(t)
	r.p.Core.OnCopy = func(imap.NumSet, string) (*imap.CopyData, error) { return plan, nil }
	want := copyKey(0, nil, nil)
	if plan != nil {
		want = copyKey(plan.UIDValidity, plan.SourceUIDs, plan.DestUIDs)
	}
	r.hist = append(r.hist, "COPY -> "+want)
	var got *imap.CopyData
	r.wait("Copy", func() error {
		var err error
		got, err = r.p.Client.Copy(imap.SeqSetNum(1), "dest").Wait()
		return err
	})
	r.eq("COPYUID data", copyKey(got.UIDValidity, got.SourceUIDs, got.DestUIDs), want)
}

func (r *run) stepMove(t *rapid.T) {
	plan := genCopyData(t)
	var exp []uint32
	for i, n := 0, rapid.IntRange(0, 3).Draw(t, "move.nexp"); i < n; i++ {
		exp = append(exp, uint32(rapid.IntRange(1, 9).Draw(t, "move.exp")))
	}
	r.p.Core.OnMove = func(w *imapserver.MoveWriter, _ imap.NumSet, _ string) error {
		if err := w.WriteCopyData(plan); err != nil {
			return err
		}
		for _, e := range exp {
			if err := w.WriteExpunge(e); err != nil {
				return err
			}
		}
		return nil
	}
	want := copyKey(0, nil, nil)
	if plan != nil {
		want = copyKey(plan.UIDValidity, plan.SourceUIDs, plan.DestUIDs)
	}
	r.hist = append(r.hist, fmt.Sprintf("MOVE -> %s expunge %v", want, exp))
	var got *imapclient.MoveData
	r.wait("Move", func() error {
		var err error
		got, err = r.p.Client.Move(imap.SeqSetNum(1), "dest").Wait()
		return err
	})
	r.eq("MOVE COPYUID data", copyKey(got.UIDValidity, got.SourceUIDs, got.DestUIDs), want)
}

func (r *run) stepAppend(t *rapid.T) {
	var plan *imap.AppendData
	if rapid.IntRange(0, 3).Draw(t, "append.nil") != 0 {
		// append-uid and uidvalidity are nz-numbers: a backend returning 0 is outside the domain
		plan = &imap.AppendData{UID: imap.UID(gen.U32(t, "append.uid") | 1), UIDValidity: gen.U32(t, "append.uidv") | 1}
	}
	r.p.Core.OnAppend = func(string, []byte, *imap.AppendOptions) (*imap.AppendData, error) { return plan, nil }
	want := "uid=0 uidvalidity=0"
	if plan != nil {
		want = fmt.Sprintf("uid=%d uidvalidity=%d", plan.UID, plan.UIDValidity)
	}
	r.hist = append(r.hist, "APPEND -> "+want)
	var got *imap.AppendData
	r.wait("Append", func() error {
		cmd := r.p.Client.Append("box", 5, nil)
		cmd.Write([]byte("hello"))
		if err := cmd.Close(); err != nil {
			return err
		}
		var err error
		got, err = cmd.Wait()
		return err
	})
	r.eq("APPENDUID data", fmt.Sprintf("uid=%d uidvalidity=%d", got.UID, got.UIDValidity), want)
}

func nsKey(l []imap.NamespaceDescriptor) string {
	if len(l) == 0 {
		return "[]"
	}
	var parts []string
	for _, d := range l {
		parts = append(parts, fmt.Sprintf("(%q %q)", d.Prefix, d.Delim))
	}
	return "[" + strings.Join(parts, " ") + "]"
}

func genNS(t *rapid.T, label string) []imap.NamespaceDescriptor {
	switch rapid.IntRange(0, 3).Draw(t, label+".kind") {
	case 0:
		return nil
	case 1:
		return []imap.NamespaceDescriptor{}
	}
	var l []imap.NamespaceDescriptor
	for i, n := 0, rapid.IntRange(1, 3).Draw(t, label+".n"); i < n; i++ {
		l = append(l, imap.NamespaceDescriptor{Prefix: raw(t, label+".prefix"), Delim: rapid.SampledFrom([]rune{'/', '.', 0, '"', '\\', '·', '→', 0x1F4C1}).Draw(t, label+".delim")})
	}
	return l
}

func (r *run) stepNamespace(t *rapid.T) {
	plan := &imap.NamespaceData{Personal: genNS(t, "ns.p"), Other: genNS(t, "ns.o"), Shared: genNS(t, "ns.s")}
	r.p.Core.OnNamespace = func() (*imap.NamespaceData, error) { return plan, nil }
	key := func(d *imap.NamespaceData) string {
		return fmt.Sprintf("personal=%s other=%s shared=%s", nsKey(d.Personal), nsKey(d.Other), nsKey(d.Shared))
	}
	r.hist = append(r.hist, "NAMESPACE -> "+key(plan))
	var got *imap.NamespaceData
	r.wait("Namespace", func() error {
		var err error
		got, err = r.p.Client.Namespace().Wait()
		return err
	})
	r.eq("NAMESPACE data", key(got), key(plan))
}

func (r *run) stepExpunge(t *rapid.T) {
	var plan []uint32
	for i, n := 0, rapid.IntRange(0, 5).Draw(t, "nexp"); i < n; i++ {
		plan = append(plan, gen.U32(t, "exp")|1)
	}
	late := false
	if rapid.IntRange(0, 5).Draw(t, "manyexp") == 3 {
		// more notifications than any buffer between the reader and the
		// caller holds, and a caller that starts consuming late
		for i, n := 0, rapid.IntRange(100, 400).Draw(t, "nmany"); i < n; i++ {
			plan = append(plan, uint32(n-i))
		}
		late = rapid.Bool().Draw(t, "lateconsumer")
	}
	r.p.Core.OnExpunge = func(w *imapserver.ExpungeWriter, _ *imap.UIDSet) error {
		for _, n := range plan {
			if err := w.WriteExpunge(n); err != nil {
				return err
			}
		}
		return nil
	}
	r.hist = append(r.hist, fmt.Sprintf("EXPUNGE -> %v", plan))
	var got []uint32
	r.wait("Expunge", func() error {
		var err error
		cmd := r.p.Client.Expunge()
		if late {
			time.Sleep(30 * time.Millisecond)
		}
		got, err = cmd.Collect()
		return err
	})
	if fmt.Sprint(got) != fmt.Sprint(plan) && !(len(got) == 0 && len(plan) == 0) {
		r.fail("EXPUNGE notifications: client delivered %v, backend wrote %v", got, plan)
	}
}

func (r *run) stepStore(t *rapid.T) {
	var plan []*msgPlan
	var seqs imap.SeqSet
	for i, n := 0, rapid.IntRange(1, 3).Draw(t, "nstore"); i < n; i++ {
		m := &msgPlan{seq: uint32(i + 1), hasUID: true, uid: imap.UID(i + 500), hasFlags: true, flags: flagsOf(t, fmt.Sprintf("st%d", i), false)}
		plan = append(plan, m)
		seqs.AddNum(m.seq)
	}
	r.p.Core.OnStore = func(w *imapserver.FetchWriter, _ imap.NumSet, _ *imap.StoreFlags, _ *imap.StoreOptions) error {
		for _, m := range plan {
			if err := m.write(w); err != nil {
				return err
			}
		}
		return nil
	}
	var want, got []string
	for _, m := range plan {
		want = append(want, m.key())
	}
	r.hist = append(r.hist, fmt.Sprintf("STORE -> %v", want))
	r.wait("Store", func() error {
		bufs, err := r.p.Client.Store(seqs, &imap.StoreFlags{Op: imap.StoreFlagsAdd, Flags: []imap.Flag{imap.FlagSeen}}, nil).Collect()
		for _, b := range bufs {
			got = append(got, bufKey(b))
		}
		return err
	})
	r.eq("STORE FETCH data", fmt.Sprint(got), fmt.Sprint(want))
}

func (r *run) stepCaps() {
	var got imap.CapSet
	r.wait("Capability", func() error {
		var err error
		got, err = r.p.Client.Capability().Wait()
		return err
	})
	// every capability in the server's CAPABILITY line must be delivered
	wire := string(r.p.ServerBytes.Bytes())
	idx := strings.LastIndex(wire, "* CAPABILITY ")
	if idx < 0 {
		r.fail("no CAPABILITY line on the wire")
	}
	line := wire[idx+len("* CAPABILITY "):]
	line = line[:strings.Index(line, "\r\n")]
	want := strings.Fields(line)
	if len(got) != len(want) {
		r.fail("CAPABILITY: client delivered %v, server sent %v", got, want)
	}
	for _, c := range want {
		if !got.Has(imap.Cap(c)) {
			r.fail("CAPABILITY: client lacks %q (server sent %v)", c, want)
		}
	}
}

var stepNames = []string{"list", "status", "select", "fetch", "fetch", "fetch", "search", "search", "copy", "move", "append", "namespace", "expunge", "store", "caps"}

func TestPropResponses(t *testing.T) {
	rapid.Check(t, func(t *rapid.T) {
		cfg := config{rev2Enabled: rapid.Bool().Draw(t, "rev2"), utf8Accept: rapid.Bool().Draw(t, "utf8accept")}
		r := &run{cfg: cfg, t: t}
		r.p = cs.New(cs.Config{Caps: imap.CapSet{imap.CapIMAP4rev1: {}, imap.CapIMAP4rev2: {}, imap.CapUIDPlus: {}, imap.CapMove: {}, imap.CapNamespace: {}, imap.CapESearch: {}}, Features: stub.FAll &^ stub.FSASL})
		defer r.p.Close()
		c := r.p.Client
		r.wait("Login", func() error { return c.Login("u", "p").Wait() })
		if cfg.rev2Enabled {
			r.wait("Enable", func() error { _, err := c.Enable(imap.CapIMAP4rev2).Wait(); return err })
		}
		if cfg.utf8Accept {
			r.wait("Enable", func() error { _, err := c.Enable(imap.CapUTF8Accept).Wait(); return err })
		}
		r.wait("Select", func() error { _, err := c.Select("INBOX", nil).Wait(); return err })
		for i, n := 0, rapid.IntRange(1, 4).Draw(t, "nsteps"); i < n; i++ {
			name := rapid.SampledFrom(stepNames).Draw(t, "step")
			switch name {
			case "list":
				r.stepList(t)
			case "status":
				r.stepStatus(t)
			case "select":
				r.stepSelect(t)
			case "fetch":
				r.stepFetch(t)
			case "search":
				r.stepSearch(t)
			case "copy":
				r.stepCopy(t)
			case "move":
				r.stepMove(t)
			case "append":
				r.stepAppend(t)
			case "namespace":
				r.stepNamespace(t)
			case "expunge":
				r.stepExpunge(t)
			case "store":
				r.stepStore(t)
			case "caps":
				r.stepCaps()
			}
			ev.Class("kind:" + name)
		}
		ev.Eval()
		ev.NonTrivial(cfg.String() + strings.Join(r.hist, ";"))
		ev.Class("cfg:" + cfg.String())
		wire := r.p.ServerBytes.Bytes()
		if bytes.Contains(wire, []byte("{4097}")) || bytes.Contains(wire, []byte("{70000}")) {
			ev.Class("wire:literal>4096")
		}
		if bytes.Contains(wire, []byte("ESEARCH")) {
			ev.Class("wire:ESEARCH")
		}
		if bytes.Contains(wire, []byte("* SEARCH")) {
			ev.Class("wire:SEARCH")
		}
		if bytes.Contains(wire, []byte("BODYSTRUCTURE (")) {
			ev.Class("wire:BODYSTRUCTURE")
		}
		s := strings.Join(r.hist, " | ")
		if len(s) > 500 {
			s = s[:500]
		}
		ev.Sample(cfg.String() + " :: " + s)
	})
}

// TestKnownEncodedWord: F-C03b - a string that is itself an RFC 2047
// encoded-word is sent verbatim by the server but decoded by the client.
func TestKnownEncodedWord(t *testing.T) {
	p := cs.New(cs.Config{Caps: imap.CapSet{imap.CapIMAP4rev1: {}}, Features: stub.FAll &^ stub.FSASL})
	defer p.Close()
	c := p.Client
	c.Login("u", "p").Wait()
	c.Select("INBOX", nil).Wait()
	subject := "=?utf-8?q?hidden?="
	p.Core.OnFetch = func(w *imapserver.FetchWriter, _ imap.NumSet, _ *imap.FetchOptions) error {
		rw := w.CreateMessage(1)
		rw.WriteEnvelope(&imap.Envelope{Subject: subject})
		return rw.Close()
	}
	bufs, err := c.Fetch(imap.SeqSetNum(1), &imap.FetchOptions{Envelope: true}).Collect()
	if err != nil || len(bufs) != 1 {
		t.Fatalf("fetch: %v", err)
	}
	ev.Eval()
	ev.Known("F-C03b", bufs[0].Envelope.Subject != subject)
}
