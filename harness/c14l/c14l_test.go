//go:build lockmon

package c14l

import (
	"fmt"
	"strings"
	"testing"

	"github.com/emersion/go-imap/v2/internal/lockmon"
	"github.com/emersion/go-imap/v2/verifh/kit/conc"
	"github.com/emersion/go-imap/v2/verifh/kit/ev"
	"pgregory.net/rapid"
)

func TestMain(m *testing.M) { ev.Main(m) }

var hooks = &conc.Hooks{Deadlock: lockmon.Deadlock}

// monitored runs the trial with pseudo-random pauses at nested acquisitions;
// when the lock-order graph of the trial predicts a deadlock that the run did
// not realise, the same trial is repeated with rendezvous pauses at the sites
// of the predicted cycle. Only a realised deadlock (persisting wait-for cycle
// or a command that never completes) fails the case; predictions that could
// not be realised are counted.
func monitored(t conc.Fataler, tr conc.Trial, seed uint64) (completed int) {
	lockmon.Reset(seed, 350, 300)
	completed = conc.RunTrial(t, tr, hooks)
	// every connection goroutine of the trial has ended (RunTrial waits for
	// that): a monitored lock that is still held will never be released
	if l := lockmon.Leaked(); len(l) > 0 {
		t.Fatalf("lock monitor: %d lock(s) still held after every session finished and disconnected (never released): %s\ntrial: %s", len(l), strings.Join(l, "; "), tr)
	}
	st := lockmon.Counters()
	ev.ClassN("nested-acquisitions", st.Nested)
	ev.ClassN("pauses-injected", st.Paused)
	ev.ClassN("contended-acquisitions", st.Contended)
	ev.ClassN("order-edges(instances)", int64(lockmon.EdgeCount()))
	for _, e := range lockmon.SiteEdges() {
		ev.Class("site-edge " + e)
	}
	preds := lockmon.Predict()
	if len(preds) == 0 {
		return
	}
	ev.ClassN("predicted-cycles", int64(len(preds)))
	var pairs [][2]string
	var texts []string
	for _, p := range preds {
		pairs = append(pairs, p.Pairs...)
		texts = append(texts, p.Text)
	}
	for attempt := 0; attempt < 4; attempt++ {
		lockmon.Reset(seed+uint64(attempt)+1, 200, 200)
		lockmon.SetHot(pairs)
		conc.RunTrial(prefixed{t, "realising predicted lock-order cycle [" + strings.Join(texts, " || ") + "]: "}, tr, hooks)
	}
	ev.ClassN("predicted-but-not-realised", int64(len(preds)))
	ev.Sample("unrealised prediction: " + strings.Join(texts, " || ") + " in " + tr.String())
	return
}

type prefixed struct {
	t      conc.Fataler
	prefix string
}

func (p prefixed) Fatalf(f string, a ...any) { p.t.Fatalf("%s", p.prefix+fmt.Sprintf(f, a...)) }

func TestPropLockOrder(t *testing.T) {
	defer lockmon.Disable()
	rapid.Check(t, func(t *rapid.T) {
		tr := conc.GenTrial(t)
		seed := rapid.Uint64().Draw(t, "pauseseed")
		n := monitored(t, tr, seed)
		ev.Eval()
		ev.ClassN("commands-completed", int64(n))
		ev.Class(fmt.Sprintf("sessions=%d", len(tr.Progs)))
		if conc.Opposite(tr) {
			ev.NonTrivial("lockmon " + tr.String())
			ev.Class("opposite-direction-copy/move-pair")
		}
	})
}

// TestReplayScenariosMonitored: the fixed scenarios of the stress engine under
// the lock monitor.
func TestReplayScenariosMonitored(t *testing.T) {
	defer lockmon.Disable()
	reps := 6
	if ev.Thorough() {
		reps = 80
	}
	for i := 0; i < reps; i++ {
		for _, tr := range conc.Scenarios([]int{2, 4, 16}[i%3]) {
			monitored(t, tr, uint64(i)*7919+1)
			ev.Eval()
		}
	}
	ev.NonTrivial("lockmon scenario:opposite-copy-move")
	ev.NonTrivial("lockmon scenario:expunge-during-fetch")
	ev.NonTrivial("lockmon scenario:list-during-rename")
}
