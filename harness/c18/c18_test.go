// Package c18 decides property C18: the client only uses syntax the server
// advertised and respects literal synchronisation. A real imapclient talks to
// a scripted server (kit/script) that advertises a drawn capability set and
// decides per synchronising literal whether to continue or refuse; the bytes
// the client writes are framed by the script and tokenised by kit/tok.
package c18

import (
	"bytes"
	"fmt"
	"regexp"
	"strings"
	"sync"
	"testing"
	"time"

	imap "github.com/emersion/go-imap/v2"
	"github.com/emersion/go-imap/v2/imapclient"
	"github.com/emersion/go-imap/v2/verifh/kit/cs"
	"github.com/emersion/go-imap/v2/verifh/kit/ev"
	"github.com/emersion/go-imap/v2/verifh/kit/gen"
	"github.com/emersion/go-imap/v2/verifh/kit/script"
	"github.com/emersion/go-imap/v2/verifh/kit/tok"
	"pgregory.net/rapid"
)

func TestMain(m *testing.M) { ev.Main(m) }

type config struct {
	rev2, litMinus, litPlus, utf8Cap, enableUTF8 bool
	quiet                                        bool     // verify client silence before answering a sync literal
	decisions                                    []string // per sync literal: "+", "NO", "BAD"
	// the capabilities may change in the middle of a session: after a later
	// LOGIN (alt != nil) the server advertises *alt instead; tagged OKs of
	// LOGIN / UNAUTHENTICATE carry a CAPABILITY code or not (then the client
	// has to ask)
	alt                   *config
	loginCode, unauthCode bool
	// how ENABLE is answered when the extension is not (or cannot be) enabled:
	// "* ENABLED" without it, no ENABLED response at all, or another extension
	enableReply string
	// utf8Only: the server advertises UTF8=ONLY (RFC 6855; nothing is enabled by that)
	utf8Only bool
	// strayPlus > 0: after the k-th completed command the server sends a
	// continuation request that nothing asked for
	strayPlus int
}

func (c config) caps() string {
	l := []string{"IMAP4rev1", "ENABLE", "MOVE", "UIDPLUS", "SORT", "THREAD=REFERENCES", "QUOTA", "METADATA", "UNAUTHENTICATE"}
	if c.rev2 {
		l = append(l, "IMAP4rev2")
	}
	if c.litMinus {
		l = append(l, "LITERAL-")
	}
	if c.litPlus {
		l = append(l, "LITERAL+")
	}
	if c.utf8Cap {
		l = append(l, "UTF8=ACCEPT")
	}
	if c.utf8Only {
		l = append(l, "UTF8=ONLY")
	}
	return strings.Join(l, " ")
}

func (c config) String() string {
	s := fmt.Sprintf("rev2=%v LITERAL-=%v LITERAL+=%v UTF8=ACCEPT(cap=%v,enabled=%v) quiet=%v decisions=%v loginCode=%v unauthCode=%v UTF8=ONLY=%v strayPlus=%d", c.rev2, c.litMinus, c.litPlus, c.utf8Cap, c.enableUTF8, c.quiet, c.decisions, c.loginCode, c.unauthCode, c.utf8Only, c.strayPlus)
	if c.alt != nil {
		s += fmt.Sprintf(" after-relogin{rev2=%v LITERAL-=%v LITERAL+=%v UTF8=ACCEPT=%v}", c.alt.rev2, c.alt.litMinus, c.alt.litPlus, c.alt.utf8Cap)
	}
	return s
}

type fataler interface {
	Fatalf(format string, args ...any)
}

// peer is the scripted server loop.
type peer struct {
	cfg        config // what is advertised now (rev2, litMinus, litPlus, utf8Cap change on relogin)
	logins     int
	s          *script.Server
	mu         sync.Mutex
	errs       []string
	cmds       []*script.Command
	nsync      int
	enabled    bool // UTF8=ACCEPT enabled (after the ENABLED response)
	refused    int
	done       chan struct{}
	afterRef   bool
	idleHook   chan struct{}
	holdCap    bool // answer the next CAPABILITY command only after the command behind it has arrived
	skipNext   bool
	sawExists  chan struct{}
	noEarlyCheck bool // the stray continuation request could not be ordered before the next command
}

func (p *peer) errf(f string, a ...any) {
	p.mu.Lock()
	p.errs = append(p.errs, fmt.Sprintf(f, a...))
	p.mu.Unlock()
}

var cmdStart = regexp.MustCompile(`^T[0-9]+ [A-Z]`)

func (p *peer) loop() {
	defer close(p.done)
	s := p.s
	s.OnLiteral = func(ev *script.LiteralEvent) script.Decision {
		p.mu.Lock()
		noEarly := p.noEarlyCheck
		p.mu.Unlock()
		if p.cfg.quiet && !noEarly && ev.EarlyBytes > 0 {
			p.errf("the client sent %d byte(s) after the synchronising literal header %q before any continuation request", ev.EarlyBytes, clip(string(ev.Prefix)))
		}
		d := "+"
		if p.nsync < len(p.cfg.decisions) {
			d = p.cfg.decisions[p.nsync]
		}
		p.nsync++
		if d == "+" {
			return script.Accept
		}
		return script.Refuse
	}
	s.Sendf("* OK [CAPABILITY %s] ready\r\n", p.cfg.caps())
	var pushedBack *script.Command
	for {
		var cmd *script.Command
		var err error
		if pushedBack != nil {
			cmd, pushedBack = pushedBack, nil
		} else {
			cmd, err = s.ReadCommand()
		}
		if err != nil {
			if !script.IsEOF(err) && err != script.ErrTimeout && !strings.Contains(err.Error(), "closed") {
				p.errf("framing the client's output failed: %v", err)
			}
			return
		}
		p.mu.Lock()
		p.cmds = append(p.cmds, cmd)
		p.mu.Unlock()
		if p.afterRef {
			// first bytes after a refused literal: must start a new command
			if !cmdStart.Match(cmd.Raw) {
				p.errf("after a tagged refusal of a synchronising literal the client sent %q, which is not the start of a new command (literal payload?)", clip(string(cmd.Raw)))
			}
			p.afterRef = false
		}
		if cmd.Refused {
			d := p.cfg.decisions[p.nsync-1]
			p.refused++
			p.afterRef = true
			s.Sendf("%s %s literal refused\r\n", cmd.Tag, d)
			continue
		}
		p.mu.Lock()
		skip := p.skipNext
		p.skipNext = false
		p.mu.Unlock()
		if !skip {
			p.check(cmd)
		}
		switch cmd.Name {
		case "CAPABILITY":
			p.mu.Lock()
			hold := p.holdCap
			p.holdCap = false
			p.mu.Unlock()
			if hold {
				// the client has pipelined another command behind this one: it
				// is on the wire before this answer (which still describes the
				// capabilities in force now) goes out
				if nx, err := s.ReadCommand(); err == nil {
					pushedBack = nx
				}
			}
			s.Sendf("* CAPABILITY %s\r\n%s OK done\r\n", p.cfg.caps(), cmd.Tag)
		case "ENABLE":
			if bytes.Contains(bytes.ToUpper(cmd.Raw), []byte("UTF8=ACCEPT")) && p.cfg.utf8Cap {
				p.enabled = true
				s.Sendf("* ENABLED UTF8=ACCEPT\r\n%s OK done\r\n", cmd.Tag)
			} else {
				switch p.cfg.enableReply {
				case "bare":
					s.Sendf("%s OK done\r\n", cmd.Tag)
				case "other":
					s.Sendf("* ENABLED X-OTHER\r\n%s OK done\r\n", cmd.Tag)
				default:
					s.Sendf("* ENABLED\r\n%s OK done\r\n", cmd.Tag)
				}
			}
		case "LOGIN":
			p.logins++
			if p.logins > 1 && p.cfg.alt != nil {
				a := p.cfg.alt
				p.cfg.rev2, p.cfg.litMinus, p.cfg.litPlus, p.cfg.utf8Cap = a.rev2, a.litMinus, a.litPlus, a.utf8Cap
			}
			if p.logins == 1 || p.cfg.loginCode {
				s.Sendf("%s OK [CAPABILITY %s] logged in\r\n", cmd.Tag, p.cfg.caps())
			} else {
				s.Sendf("%s OK logged in\r\n", cmd.Tag)
			}
		case "UNAUTHENTICATE":
			// RFC 8437 section 3: extensions enabled with ENABLE are disabled again
			p.enabled = false
			if p.cfg.unauthCode {
				s.Sendf("%s OK [CAPABILITY %s] unauthenticated\r\n", cmd.Tag, p.cfg.caps())
			} else {
				s.Sendf("%s OK unauthenticated\r\n", cmd.Tag)
			}
		case "IDLE":
			s.Send("+ idling\r\n")
			p.mu.Lock()
			hook := p.idleHook
			p.mu.Unlock()
			if hook != nil {
				// the test has queued another command behind IDLE (it waits for the
				// encoder): the capabilities change now, before IDLE ends
				select {
				case <-hook:
					p.cfg.rev2, p.cfg.litMinus, p.cfg.litPlus = false, false, false
					if a := p.cfg.alt; a != nil {
						p.cfg.rev2, p.cfg.litMinus, p.cfg.litPlus = a.rev2, a.litMinus, a.litPlus
					}
					s.Sendf("* CAPABILITY %s\r\n* 77 EXISTS\r\n", p.cfg.caps())
				case <-time.After(200 * time.Millisecond):
				}
			}
			if l, err := s.ReadRawLine(); err != nil || l != "DONE" {
				p.errf("expected DONE to end IDLE, got %q (%v)", l, err)
				return
			}
			s.Sendf("%s OK done\r\n", cmd.Tag)
		case "LOGOUT":
			s.Sendf("* BYE bye\r\n%s OK done\r\n", cmd.Tag)
			return
		case "SELECT", "EXAMINE":
			s.Sendf("* 0 EXISTS\r\n* FLAGS ()\r\n%s OK [READ-WRITE] done\r\n", cmd.Tag)
		default:
			s.Sendf("%s OK done\r\n", cmd.Tag)
		}
	}
}

func clip(s string) string {
	if len(s) > 160 {
		return s[:110] + "…" + s[len(s)-40:]
	}
	return s
}

// check judges one framed command against the advertised capabilities.
func (p *peer) check(cmd *script.Command) {
	l := cmd.Line
	if l == nil {
		return
	}
	if err := l.WellFormed(); err != nil {
		p.errf("malformed command %q: %v", clip(string(cmd.Raw)), err)
	}
	utf8ok := p.cfg.rev2 || p.enabled
	for _, tk := range l.Toks {
		switch tk.Kind {
		case tok.Quoted:
			if tk.RawCtl {
				p.errf("CR, LF or NUL inside a quoted string: %q", clip(string(cmd.Raw)))
			}
			if tk.Raw8bit && !utf8ok {
				p.errf("8-bit characters inside a quoted string although neither IMAP4rev2 is advertised nor UTF8=ACCEPT enabled: %q", clip(string(cmd.Raw)))
			}
		case tok.Literal:
			if tk.NonSync {
				if !(p.cfg.litPlus || ((p.cfg.litMinus || p.cfg.rev2) && tk.N <= 4096)) {
					p.errf("non-synchronising literal {%d+} is not legal for capabilities [%s]: %q", tk.N, p.cfg.caps(), clip(string(cmd.Raw)))
				}
			}
			if int64(len(tk.S)) != tk.N {
				p.errf("literal announces %d octets but carries %d", tk.N, len(tk.S))
			}
		}
	}
	if strings.HasSuffix(cmd.Name, "SEARCH") && p.enabled {
		for _, tk := range l.Toks {
			if tk.Kind == tok.Atom && strings.EqualFold(tk.S, "CHARSET") {
				p.errf("SEARCH with a CHARSET specification after UTF8=ACCEPT was enabled (RFC 6855 section 3): %q", clip(string(cmd.Raw)))
			}
		}
	}
}

func genStr(t *rapid.T, label string) string { return gen.Bytes(t, label, true).S }

var calls = []string{"Select", "Create", "Rename", "List", "Status", "Append", "Search", "Fetch", "Store", "Copy", "GetQuota", "GetQuotaRoot", "SetMetadata", "GetMetadata", "Sort", "Thread", "Login2", "Search", "Append", "Idle", "Unauthenticate", "Enable", "Login2", "IdleWithQueued", "CapThenLogin2"}

// prepare draws the arguments of one client call (in the test goroutine, as
// rapid requires) and returns the call as a closure; errors returned by the
// library (refused literal, closed connection) are legitimate outcomes here.
func prepare(t *rapid.T, c *imapclient.Client, name string) (desc string, do func() error) {
	crit := func() *imap.SearchCriteria {
		cr := &imap.SearchCriteria{}
		for i, n := 0, rapid.IntRange(1, 3).Draw(t, "ncrit"); i < n; i++ {
			switch rapid.IntRange(0, 3).Draw(t, "critkind") {
			case 0:
				cr.Body = append(cr.Body, genStr(t, "body"))
			case 1:
				cr.Text = append(cr.Text, genStr(t, "text"))
			case 2:
				cr.Header = append(cr.Header, imap.SearchCriteriaHeaderField{Key: rapid.SampledFrom([]string{"Subject", "X-Thing", "From"}).Draw(t, "hk"), Value: genStr(t, "hv")})
			default:
				cr.Not = append(cr.Not, imap.SearchCriteria{Body: []string{genStr(t, "notbody")}})
			}
		}
		return cr
	}
	switch name {
	case "Login2":
		u, pw := genStr(t, "user"), genStr(t, "pass")
		return fmt.Sprintf("Login(%q,%q)", clip(u), clip(pw)), func() error { return c.Login(u, pw).Wait() }
	case "Unauthenticate":
		return "Unauthenticate()", func() error { return c.Unauthenticate().Wait() }
	case "CapThenLogin2":
		// CAPABILITY and LOGIN pipelined: the CAPABILITY response (the set in
		// force before the login) reaches the client after it has sent LOGIN
		// and before LOGIN completes; it says nothing about the set in force
		// afterwards
		u, pw := genStr(t, "user"), genStr(t, "pass")
		return fmt.Sprintf("Capability() + Login(%q,%q) pipelined", clip(u), clip(pw)), func() error {
			setHoldCap(c)
			capCmd := c.Capability()
			loginCmd := c.Login(u, pw)
			_, cerr := capCmd.Wait()
			lerr := loginCmd.Wait()
			if cerr != nil {
				return cerr
			}
			return lerr
		}
	case "Enable":
		return "Enable(UTF8=ACCEPT)", func() error { _, err := c.Enable(imap.CapUTF8Accept).Wait(); return err }
	case "Select":
		m := gen.Mailbox(t, "mbox").S
		return fmt.Sprintf("Select(%q)", clip(m)), func() error { _, err := c.Select(m, nil).Wait(); return err }
	case "Create":
		m := gen.Mailbox(t, "mbox").S
		return fmt.Sprintf("Create(%q)", clip(m)), func() error { return c.Create(m, nil).Wait() }
	case "Rename":
		a, b := gen.Mailbox(t, "old").S, gen.Mailbox(t, "new").S
		return fmt.Sprintf("Rename(%q,%q)", clip(a), clip(b)), func() error { return c.Rename(a, b).Wait() }
	case "List":
		ref, pat := gen.Mailbox(t, "ref").S, genStr(t, "pattern")
		return fmt.Sprintf("List(%q,%q)", clip(ref), clip(pat)), func() error { _, err := c.List(ref, pat, nil).Collect(); return err }
	case "Status":
		m := gen.Mailbox(t, "mbox").S
		return fmt.Sprintf("Status(%q)", clip(m)), func() error { _, err := c.Status(m, &imap.StatusOptions{NumMessages: true}).Wait(); return err }
	case "Append":
		m := gen.Mailbox(t, "mbox").S
		size := rapid.SampledFrom([]int{0, 1, 4095, 4096, 4097, 70000}).Draw(t, "size")
		return fmt.Sprintf("Append(%q,%d)", clip(m), size), func() error {
			cmd := c.Append(m, int64(size), nil)
			_, werr := cmd.Write(bytes.Repeat([]byte("x"), size))
			cerr := cmd.Close()
			_, err := cmd.Wait()
			if err == nil {
				err = werr
			}
			if err == nil {
				err = cerr
			}
			return err
		}
	case "Search":
		cr := crit()
		uid := rapid.Bool().Draw(t, "uid")
		return "Search(strings)", func() error {
			var err error
			if uid {
				_, err = c.UIDSearch(cr, nil).Wait()
			} else {
				_, err = c.Search(cr, nil).Wait()
			}
			return err
		}
	case "Fetch":
		h := genStr(t, "hdrname")
		return fmt.Sprintf("Fetch(header %q)", clip(h)), func() error {
			return c.Fetch(imap.SeqSetNum(1), &imap.FetchOptions{BodySection: []*imap.FetchItemBodySection{{Specifier: imap.PartSpecifierHeader, HeaderFields: []string{"From", h}}}}).Close()
		}
	case "Store":
		fl := imap.Flag(gen.ValidFlag(t, "flag"))
		return "Store", func() error {
			return c.Store(imap.SeqSetNum(1), &imap.StoreFlags{Op: imap.StoreFlagsAdd, Flags: []imap.Flag{fl}}, nil).Close()
		}
	case "Copy":
		m := gen.Mailbox(t, "dest").S
		return fmt.Sprintf("Copy(%q)", clip(m)), func() error { _, err := c.Copy(imap.SeqSetNum(1), m).Wait(); return err }
	case "GetQuota":
		r := genStr(t, "root")
		return fmt.Sprintf("GetQuota(%q)", clip(r)), func() error { _, err := c.GetQuota(r).Wait(); return err }
	case "GetQuotaRoot":
		m := gen.Mailbox(t, "mbox").S
		return fmt.Sprintf("GetQuotaRoot(%q)", clip(m)), func() error { _, err := c.GetQuotaRoot(m).Wait(); return err }
	case "SetMetadata":
		k, v, m := genStr(t, "mkey"), []byte(genStr(t, "mval")), gen.Mailbox(t, "mbox").S
		return fmt.Sprintf("SetMetadata(%q)", clip(k)), func() error { return c.SetMetadata(m, map[string]*[]byte{k: &v}).Wait() }
	case "GetMetadata":
		k, m := genStr(t, "mkey"), gen.Mailbox(t, "mbox").S
		return fmt.Sprintf("GetMetadata(%q)", clip(k)), func() error { _, err := c.GetMetadata(m, []string{k, "/shared/comment"}, nil).Wait(); return err }
	case "Sort":
		cr := crit()
		return "Sort(strings)", func() error {
			_, err := c.Sort(&imapclient.SortOptions{SearchCriteria: cr, SortCriteria: []imapclient.SortCriterion{{Key: imapclient.SortKeyDate, Reverse: true}}}).Wait()
			return err
		}
	case "Thread":
		cr := crit()
		return "Thread(strings)", func() error {
			_, err := c.Thread(&imapclient.ThreadOptions{Algorithm: imap.ThreadReferences, SearchCriteria: cr}).Wait()
			return err
		}
	case "IdleWithQueued":
		// a second goroutine submits a command while IDLE holds the encoder; the
		// server changes its capabilities before IDLE ends; the queued command
		// is written afterwards and must be legal for the new capabilities
		root := genStr(t, "root")
		return fmt.Sprintf("Idle + queued GetQuota(%q) + capability change", clip(root)), func() error {
			hook := make(chan struct{}, 1)
			setIdleHook(c, hook)
			defer setIdleHook(c, nil)
			idle, err := c.Idle()
			if err != nil {
				return err
			}
			res := make(chan error, 1)
			go func() { _, err := c.GetQuota(root).Wait(); res <- err }()
			time.Sleep(2 * time.Millisecond)
			hook <- struct{}{}
			// wait until the client has seen the new capabilities (only then is it
			// bound by them); if that cannot be observed the queued command is not judged
			// (observed through the handler of an EXISTS sent right behind the
			// CAPABILITY response: responses are processed in order; Caps() itself
			// may block behind IDLE)
			select {
			case <-existsSeen(c):
			case <-time.After(5 * time.Second):
				skipNextJudgement(c)
			}
			cerr := idle.Close()
			werr := idle.Wait()
			qerr := <-res
			if cerr != nil {
				return cerr
			}
			if werr != nil {
				return werr
			}
			return qerr
		}
	case "Idle":
		return "Idle", func() error {
			idle, err := c.Idle()
			if err != nil {
				return err
			}
			if err = idle.Close(); err != nil {
				return err
			}
			return idle.Wait()
		}
	}
	return name, func() error { return nil }
}

var (
	peersMu sync.Mutex
	peers   = map[*imapclient.Client]*peer{}
)

// setIdleHook arms (or disarms) the capability change during the next IDLE of
// the peer that serves c. Called while the peer is waiting for a command.
func setIdleHook(c *imapclient.Client, hook chan struct{}) {
	peersMu.Lock()
	p := peers[c]
	peersMu.Unlock()
	if p != nil {
		p.mu.Lock()
		p.idleHook = hook
		p.mu.Unlock()
	}
}

func setHoldCap(c *imapclient.Client) {
	peersMu.Lock()
	p := peers[c]
	peersMu.Unlock()
	if p != nil {
		p.mu.Lock()
		p.holdCap = true
		p.mu.Unlock()
	}
}

func existsSeen(c *imapclient.Client) chan struct{} {
	peersMu.Lock()
	defer peersMu.Unlock()
	if p := peers[c]; p != nil {
		return p.sawExists
	}
	return nil
}

func skipNextJudgement(c *imapclient.Client) {
	peersMu.Lock()
	p := peers[c]
	peersMu.Unlock()
	if p != nil {
		p.mu.Lock()
		p.skipNext = true
		p.mu.Unlock()
	}
}

func runCase(t *rapid.T, cfg config) (hist []string, p *peer) {
	clientEnd, s := script.New()
	if !cfg.quiet {
		s.Quiet = 0
	}
	p = &peer{cfg: cfg, s: s, done: make(chan struct{}), sawExists: make(chan struct{}, 8)}
	go p.loop()
	saw := p.sawExists
	c := imapclient.New(clientEnd, &imapclient.Options{UnilateralDataHandler: &imapclient.UnilateralDataHandler{
		Mailbox: func(d *imapclient.UnilateralDataMailbox) {
			if d.NumMessages != nil && *d.NumMessages == 77 {
				select {
				case saw <- struct{}{}:
				default:
				}
			}
		},
	}})
	peersMu.Lock()
	peers[c] = p
	peersMu.Unlock()
	defer func() { peersMu.Lock(); delete(peers, c); peersMu.Unlock() }()
	defer func() {
		cs.Within(5*time.Second, "Close", func() error { c.Close(); return nil })
		s.Close()
		select {
		case <-p.done:
		case <-time.After(5 * time.Second):
		}
	}()
	step := func(what string, f func() (string, error)) bool {
		var desc string
		err := cs.Within(10*time.Second, what, func() error {
			var e error
			desc, e = f()
			return e
		})
		if err != nil && strings.HasPrefix(err.Error(), "HARNESS-TIMEOUT") {
			p.mu.Lock()
			defer p.mu.Unlock()
			t.Fatalf("[%s] %s did not return within 10s\nhistory: %v\nscript errors: %v", cfg, what, hist, p.errs)
		}
		hist = append(hist, fmt.Sprintf("%s -> %v", desc, err))
		return err == nil
	}
	step("Login", func() (string, error) { return "Login(u,p)", c.Login("u", "p").Wait() })
	if cfg.enableUTF8 {
		step("Enable", func() (string, error) {
			_, err := c.Enable(imap.CapUTF8Accept).Wait()
			return "Enable(UTF8=ACCEPT)", err
		})
	}
	n := rapid.IntRange(1, 6).Draw(t, "ncalls")
	for i := 0; i < n; i++ {
		name := rapid.SampledFrom(calls).Draw(t, "call")
		desc, do := prepare(t, c, name)
		ok := step(name, func() (string, error) { return desc, do() })
		ev.Class("call:" + name)
		if !ok && c.State() == imap.ConnStateLogout {
			break // the client closed the connection (e.g. after a refused literal)
		}
		if cfg.strayPlus == i+1 {
			// a continuation request that nothing asked for, while no command is
			// in flight. The client may drop the connection; it must not keep it
			// as the go-ahead for a later literal. (It is followed by an EXISTS:
			// once that has reached the handler, or the connection is gone, the
			// client has dealt with the "+"; a "+" that only arrives after the
			// next literal header could not be told from a genuine one.)
			s.Send("+ stray continuation request\r\n* 77 EXISTS\r\n")
			dealt := false
			for deadline := time.Now().Add(5 * time.Second); time.Now().Before(deadline) && !dealt; time.Sleep(100 * time.Microsecond) {
				select {
				case <-p.sawExists:
					dealt = true
				default:
					dealt = c.State() == imap.ConnStateLogout
				}
			}
			if !dealt {
				p.mu.Lock()
				p.noEarlyCheck = true
				p.mu.Unlock()
			}
			ev.Class("stray-continuation-request")
			if c.State() == imap.ConnStateLogout {
				break
			}
		}
	}
	return hist, p
}

func TestPropSyntax(t *testing.T) {
	rapid.Check(t, func(t *rapid.T) {
		cfg := config{rev2: rapid.Bool().Draw(t, "rev2"), litMinus: rapid.Bool().Draw(t, "literal-"), litPlus: rapid.IntRange(0, 3).Draw(t, "literal+") == 2,
			utf8Cap: rapid.Bool().Draw(t, "utf8cap"), quiet: rapid.IntRange(0, 3).Draw(t, "quiet") != 0}
		cfg.enableUTF8 = cfg.utf8Cap && rapid.Bool().Draw(t, "enableUTF8")
		cfg.loginCode, cfg.unauthCode = rapid.Bool().Draw(t, "loginCode"), rapid.Bool().Draw(t, "unauthCode")
		cfg.enableReply = rapid.SampledFrom([]string{"empty", "bare", "other"}).Draw(t, "enableReply")
		cfg.utf8Only = rapid.IntRange(0, 3).Draw(t, "utf8only") == 0
		if rapid.IntRange(0, 5).Draw(t, "stray") == 0 {
			cfg.strayPlus = rapid.IntRange(1, 4).Draw(t, "strayAfter")
			cfg.quiet = true // the silence before every continuation request is verified
		}
		if rapid.IntRange(0, 2).Draw(t, "capschange") == 0 {
			cfg.alt = &config{rev2: rapid.Bool().Draw(t, "rev2'"), litMinus: rapid.Bool().Draw(t, "literal-'"), litPlus: rapid.IntRange(0, 3).Draw(t, "literal+'") == 2,
				utf8Cap: rapid.Bool().Draw(t, "utf8cap'")}
		}
		for i := 0; i < 12; i++ {
			cfg.decisions = append(cfg.decisions, rapid.SampledFrom([]string{"+", "+", "+", "+", "+", "NO", "BAD"}).Draw(t, "decision"))
		}
		hist, p := runCase(t, cfg)
		p.mu.Lock()
		defer p.mu.Unlock()
		if len(p.errs) > 0 {
			t.Fatalf("[%s] %s\nhistory: %v", cfg, strings.Join(p.errs, "\n"), hist)
		}
		ev.Eval()
		constrained := false
		for _, cmd := range p.cmds {
			if cmd.Line == nil {
				continue
			}
			for _, tk := range cmd.Line.Toks {
				switch tk.Kind {
				case tok.Literal:
					constrained = true
					if tk.NonSync {
						ev.Class("wire:nonsync-literal")
					} else {
						ev.Class("wire:sync-literal")
					}
					if tk.N >= 4095 && tk.N <= 4097 {
						ev.Class(fmt.Sprintf("wire:literal-len-%d", tk.N))
					}
				case tok.Quoted:
					if tk.Raw8bit {
						constrained = true
						ev.Class("wire:quoted-8bit")
					}
					if strings.ContainsAny(tk.S, "\"\\ ") {
						constrained = true
					}
				}
			}
		}
		if p.refused > 0 {
			ev.ClassN("sync-literal-refused", int64(p.refused))
			constrained = true
		}
		if constrained {
			ev.NonTrivial(cfg.String() + fmt.Sprint(hist))
		}
		ev.Class(fmt.Sprintf("caps:rev2=%v,lit-=%v,lit+=%v,utf8=%v", cfg.rev2, cfg.litMinus, cfg.litPlus, cfg.enableUTF8))
		ev.Sample(cfg.String() + " :: " + clip(fmt.Sprint(hist)))
	})
}
