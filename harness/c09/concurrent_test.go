package c09

// Concurrent histories: the same UID promises as in the sequential model check,
// but with the sessions running at the same time. What the backend *claims*
// while it runs (APPENDUID of every APPEND, the UID pairs of every COPYUID) is
// collected and audited once everything has come to rest:
//
//   - no UID of a mailbox is claimed twice (UIDs are never reused, also not by
//     two sessions appending or copying at the same moment);
//   - the message found under a claimed UID is the message that the claim is
//     about: APPENDUID names the appended message, COPYUID names copies of the
//     addressed source messages, pairwise in order.
//
// Every message carries a unique Subject, so "is the message" is decidable
// from the outside. Nothing here depends on the schedule except which claims
// get made; every claim that is made must be true in the final state (messages
// that are gone in the end are not looked at).

import (
	"fmt"
	"regexp"
	"sort"
	"strconv"
	"strings"
	"sync"
	"testing"
	"time"

	"github.com/emersion/go-imap/v2/verifh/kit/ev"
	"github.com/emersion/go-imap/v2/verifh/kit/mem"
	"github.com/emersion/go-imap/v2/verifh/kit/tok"
	"pgregory.net/rapid"
)

type cop struct {
	kind string // append copy move uidcopy uidmove expunge store
	box  string // destination (append/copy/move)
	set  string
}

type claim struct {
	box     string
	uid     uint32
	subject string // "" = same as src
	srcBox  string
	srcUID  uint32
	by      string
}

var (
	appendUIDRe = regexp.MustCompile(`APPENDUID (\d+) (\d+)`)
	copyUIDRe   = regexp.MustCompile(`COPYUID (\d+) (\S+) (\S+)`)
)

func expandSet(s string) ([]uint32, bool) {
	var out []uint32
	for _, part := range strings.Split(s, ",") {
		lo, hi, isRange := strings.Cut(part, ":")
		a, err := strconv.ParseUint(lo, 10, 32)
		if err != nil {
			return nil, false
		}
		b := a
		if isRange {
			if b, err = strconv.ParseUint(hi, 10, 32); err != nil {
				return nil, false
			}
		}
		if b < a {
			a, b = b, a
		}
		if b-a > 100000 {
			return nil, false
		}
		for x := a; x <= b; x++ {
			out = append(out, uint32(x))
		}
	}
	return out, true
}

func subjectMsg(subj string) []byte {
	return []byte("From: a@example.org\r\nSubject: " + subj + "\r\n\r\nbody of " + subj + "\r\n")
}

type concTrial struct {
	preload int
	progs   [][]cop
	homes   []string
}

func (tr concTrial) String() string {
	var p []string
	for i, prog := range tr.progs {
		var l []string
		for _, o := range prog {
			l = append(l, strings.TrimSpace(o.kind+" "+o.set+" "+o.box))
		}
		p = append(p, fmt.Sprintf("S%d@%s[%s]", i, tr.homes[i], strings.Join(l, "; ")))
	}
	return fmt.Sprintf("preload=%d %s", tr.preload, strings.Join(p, " "))
}

var concBoxes = []string{"A", "B", "C"}

func runConcurrent(t fataler, tr concTrial) (claims int) {
	w := mem.Start(concBoxes...)
	defer w.Stop()
	var mu sync.Mutex
	var all []claim
	var problems []string
	note := func(f string, a ...any) { mu.Lock(); problems = append(problems, fmt.Sprintf(f, a...)); mu.Unlock() }
	record := func(c claim) { mu.Lock(); all = append(all, c); mu.Unlock() }
	doAppend := func(c *mem.Conn, who, box, subj string) {
		_, st, err := c.Append(box, "", subjectMsg(subj))
		if err != nil || st == nil {
			note("%s: APPEND %s did not complete: %v", who, box, err)
			return
		}
		if st.Status != "OK" {
			return
		}
		m := appendUIDRe.FindStringSubmatch(st.Code)
		if m == nil {
			note("%s: APPEND %s answered OK without APPENDUID: %q", who, box, st.Raw)
			return
		}
		u, _ := strconv.ParseUint(m[2], 10, 32)
		record(claim{box: box, uid: uint32(u), subject: subj, by: who + " APPENDUID"})
	}
	setup, err := w.Dial()
	if err != nil {
		t.Fatalf("HARNESS dial: %v", err)
	}
	for _, b := range concBoxes {
		for i := 0; i < tr.preload; i++ {
			doAppend(setup, "setup", b, fmt.Sprintf("pre-%s-%d", b, i))
		}
	}
	setup.Close()
	var wg sync.WaitGroup
	start := make(chan struct{})
	for si, prog := range tr.progs {
		c, err := w.Dial()
		if err != nil {
			t.Fatalf("HARNESS dial: %v", err)
		}
		c.Raw.Timeout = 20 * time.Second
		home := tr.homes[si]
		if _, st, err := c.Do("SELECT", false, "SELECT "+home); err != nil || st.Status != "OK" {
			t.Fatalf("HARNESS select: %v %v", st, err)
		}
		wg.Add(1)
		go func(si int, prog []cop, c *mem.Conn) {
			defer wg.Done()
			defer c.Close()
			who := fmt.Sprintf("S%d", si)
			<-start
			for oi, o := range prog {
				switch o.kind {
				case "append":
					doAppend(c, who, o.box, fmt.Sprintf("s%d-%d", si, oi))
				case "copy", "move", "uidcopy", "uidmove":
					verb := map[string]string{"copy": "COPY", "move": "MOVE", "uidcopy": "UID COPY", "uidmove": "UID MOVE"}[o.kind]
					lines, st, err := c.Do(strings.Fields(verb)[0], strings.HasPrefix(verb, "UID"), verb+" "+o.set+" "+o.box)
					if err != nil || st == nil {
						note("%s: %s %s %s did not complete: %v", who, verb, o.set, o.box, err)
						return
					}
					code := st.Code
					for _, l := range lines { // MOVE sends COPYUID in an untagged OK
						if l.Status == "OK" && strings.HasPrefix(l.Code, "COPYUID") {
							code = l.Code
						}
					}
					m := copyUIDRe.FindStringSubmatch(code)
					if m == nil {
						continue // nothing matched the set
					}
					src, ok1 := expandSet(m[2])
					dst, ok2 := expandSet(m[3])
					if !ok1 || !ok2 || len(src) != len(dst) {
						note("%s: %s %s %s: COPYUID %s %s does not pair up (%d source, %d destination UIDs)", who, verb, o.set, o.box, m[2], m[3], len(src), len(dst))
						continue
					}
					for i := range src {
						record(claim{box: o.box, uid: dst[i], srcBox: home, srcUID: src[i], by: fmt.Sprintf("%s %s %s %s -> COPYUID %s %s", who, verb, o.set, o.box, m[2], m[3])})
					}
				case "expunge":
					if _, _, err := c.Do("EXPUNGE", false, "EXPUNGE"); err != nil {
						note("%s: EXPUNGE did not complete: %v", who, err)
						return
					}
				case "store":
					if _, _, err := c.Do("STORE", false, "STORE "+o.set+" +FLAGS.SILENT (\\Deleted)"); err != nil {
						note("%s: STORE did not complete: %v", who, err)
						return
					}
				}
			}
		}(si, prog, c)
	}
	close(start)
	done := make(chan struct{})
	go func() { wg.Wait(); close(done) }()
	select {
	case <-done:
	case <-time.After(40 * time.Second):
		t.Fatalf("concurrent sessions did not finish within 40 s (C14's business, reported here because the audit cannot run)\ntrial: %s", tr)
	}
	if len(problems) > 0 {
		t.Fatalf("%s\ntrial: %s", strings.Join(problems, "\n"), tr)
	}
	// ---- audit on a fresh connection
	au, err := w.Dial()
	if err != nil {
		t.Fatalf("HARNESS dial: %v", err)
	}
	defer au.Close()
	actual := map[string]map[uint32]string{}
	for _, b := range concBoxes {
		actual[b] = map[uint32]string{}
		if _, st, err := au.Do("EXAMINE", false, "EXAMINE "+b); err != nil || st.Status != "OK" {
			t.Fatalf("audit: EXAMINE %s: %v %v", b, st, err)
		}
		lines, st, err := au.Do("FETCH", true, "UID FETCH 1:* (UID BODY.PEEK[HEADER.FIELDS (SUBJECT)])")
		if err != nil || st.Status != "OK" {
			t.Fatalf("audit: UID FETCH in %s: %v %v", b, st, err)
		}
		for _, l := range lines {
			f, ok := mem.ParseFetch(l)
			if !ok {
				continue
			}
			uid, ok := mem.Num(f.Items["UID"])
			if !ok {
				t.Fatalf("audit: FETCH line without UID: %q", l.Raw)
			}
			subj := ""
			for _, tk := range mem.Toks(l) {
				if tk.Kind == tok.Literal || tk.Kind == tok.Quoted {
					if i := strings.Index(strings.ToLower(tk.S), "subject:"); i >= 0 {
						subj = strings.TrimSpace(tk.S[i+len("subject:"):])
					}
				}
			}
			actual[b][uid] = subj
		}
	}
	// 1. no UID claimed twice
	type key struct {
		box string
		uid uint32
	}
	byKey := map[key]claim{}
	for _, c := range all {
		k := key{c.box, c.uid}
		if prev, dup := byKey[k]; dup {
			t.Fatalf("UID %d of mailbox %s was handed out twice: by [%s] and by [%s]\ntrial: %s", c.uid, c.box, prev.by, c.by, tr)
		}
		byKey[k] = c
	}
	// 2. resolve what every claimed UID must contain (copies of copies: fixpoint)
	want := map[key]string{}
	for _, c := range all {
		if c.subject != "" {
			want[key{c.box, c.uid}] = c.subject
		}
	}
	for changed := true; changed; {
		changed = false
		for _, c := range all {
			if c.subject != "" {
				continue
			}
			k := key{c.box, c.uid}
			if _, done := want[k]; done {
				continue
			}
			if s, ok := want[key{c.srcBox, c.srcUID}]; ok {
				want[k] = s
				changed = true
			}
		}
	}
	// 3. what is still there must be what was promised
	var keys []key
	for k := range want {
		keys = append(keys, k)
	}
	sort.Slice(keys, func(i, j int) bool {
		return keys[i].box < keys[j].box || keys[i].box == keys[j].box && keys[i].uid < keys[j].uid
	})
	for _, k := range keys {
		got, present := actual[k.box][k.uid]
		if present && got != want[k] {
			t.Fatalf("mailbox %s UID %d holds the message %q, but [%s] says it is %q\ntrial: %s", k.box, k.uid, got, byKey[k].by, want[k], tr)
		}
	}
	// 4. and nothing exists that nobody was told about (every message came
	// from an APPEND or a COPY/MOVE that reported its UID)
	for _, b := range concBoxes {
		for uid, subj := range actual[b] {
			if _, ok := byKey[key{b, uid}]; !ok {
				t.Fatalf("mailbox %s holds UID %d (%q) which no APPENDUID/COPYUID ever announced\ntrial: %s", b, uid, subj, tr)
			}
		}
	}
	return len(all)
}

func genConcTrial(t *rapid.T) concTrial {
	tr := concTrial{preload: rapid.SampledFrom([]int{3, 8, 25}).Draw(t, "preload")}
	n := rapid.IntRange(2, 5).Draw(t, "sessions")
	for i := 0; i < n; i++ {
		home := concBoxes[rapid.IntRange(0, len(concBoxes)-1).Draw(t, "home")]
		tr.homes = append(tr.homes, home)
		var prog []cop
		for j, k := 0, rapid.IntRange(2, 7).Draw(t, "nops"); j < k; j++ {
			kind := rapid.SampledFrom([]string{"append", "append", "append", "copy", "move", "move", "uidcopy", "uidmove", "expunge", "store"}).Draw(t, "kind")
			o := cop{kind: kind, set: rapid.SampledFrom([]string{"1:*", "1:*", "1", "2:4", "*", "1:3,5:*"}).Draw(t, "set")}
			o.box = concBoxes[rapid.IntRange(0, len(concBoxes)-1).Draw(t, "box")]
			if kind != "append" && kind != "expunge" && kind != "store" && o.box == home {
				o.box = concBoxes[(indexOfStr(concBoxes, home)+1)%len(concBoxes)]
			}
			prog = append(prog, o)
		}
		tr.progs = append(tr.progs, prog)
	}
	return tr
}

func indexOfStr(l []string, s string) int {
	for i, x := range l {
		if x == s {
			return i
		}
	}
	return 0
}

func TestPropConcurrentUIDs(t *testing.T) {
	rapid.Check(t, func(t *rapid.T) {
		tr := genConcTrial(t)
		n := runConcurrent(t, tr)
		ev.Eval()
		ev.ClassN("concurrent:uid-claims-audited", int64(n))
		ev.NonTrivial("conc:" + tr.String())
		ev.Sample("concurrent " + tr.String())
	})
}

// TestReplayConcurrentMoves: many messages moved while another session appends
// to the destination (the claims of a MOVE must not swallow foreign messages).
func TestReplayConcurrentMoves(t *testing.T) {
	reps := 16
	if ev.Thorough() {
		reps = 100
	}
	for i := 0; i < reps; i++ {
		tr := concTrial{preload: 150, homes: []string{"A", "C", "B"}, progs: [][]cop{
			{{kind: "uidmove", set: "1:*", box: "B"}},
			{{kind: "append", box: "B"}, {kind: "append", box: "B"}, {kind: "append", box: "B"}, {kind: "append", box: "B"}, {kind: "append", box: "B"}, {kind: "append", box: "B"}},
			{{kind: "copy", set: "1:*", box: "A"}, {kind: "append", box: "A"}},
		}}
		runConcurrent(t, tr)
		ev.Eval()
	}
	ev.NonTrivial("conc-scenario:move-while-appending-to-destination")
}
