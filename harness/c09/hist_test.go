package c09

import (
	"bytes"
	"fmt"
	"sort"
	"strconv"
	"strings"
	"testing"
	"time"

	"github.com/emersion/go-imap/v2/verifh/kit/ev"
	"github.com/emersion/go-imap/v2/verifh/kit/mem"
	"github.com/emersion/go-imap/v2/verifh/kit/tok"
	"pgregory.net/rapid"
)

func (wd *world) open() *sess {
	c, err := wd.w.Dial()
	if err != nil {
		wd.t.Fatalf("dial: %v", err)
	}
	s := &sess{c: c}
	wd.ss = append(wd.ss, s)
	wd.hist = append(wd.hist, fmt.Sprintf("S%d connects and logs in", c.ID))
	return s
}

func (wd *world) anySess(t *rapid.T) *sess { return wd.ss[pick(t, "session", len(wd.ss))] }

func (wd *world) selSess(t *rapid.T) *sess {
	var c []*sess
	for _, s := range wd.ss {
		if s.sel != nil {
			c = append(c, s)
		}
	}
	if len(c) == 0 {
		return nil
	}
	return c[pick(t, "session", len(c))]
}

func (wd *world) existingName(t *rapid.T) string {
	var names []string
	for n := range wd.st.boxes {
		names = append(names, n)
	}
	sort.Strings(names)
	if len(names) == 0 || pick(t, "nonexistent", 8) == 0 {
		return namePool[pick(t, "name", len(namePool))]
	}
	return names[pick(t, "name", len(names))]
}

func maxUID(b *box) uint32 {
	if len(b.msgs) == 0 {
		return 0
	}
	return b.msgs[len(b.msgs)-1].uid
}

// addressed returns the messages of b selected by a set (seq numbers are
// positions in the in-sync view = b.msgs).
func addressed(b *box, uid bool, ns numset) []*msg {
	var out []*msg
	for i, m := range b.msgs {
		if uid && ns.contains(m.uid, maxUID(b)) || !uid && ns.contains(uint32(i+1), uint32(len(b.msgs))) {
			out = append(out, m)
		}
	}
	return out
}

func uidWord(uid bool) string {
	if uid {
		return "UID "
	}
	return ""
}

func (wd *world) genNumSet(t *rapid.T, s *sess, uid bool) numset {
	if uid {
		return genSet(t, s.sel.uidNext)
	}
	return genSet(t, uint32(len(s.sel.msgs)))
}

func inView(s *sess, m *msg) bool {
	for _, v := range s.view {
		if v == m {
			return true
		}
	}
	return false
}

// fetchLines indexes the FETCH data of a command by UID.
func (wd *world) fetchLines(lines []*tok.Line, text string) map[uint32][]*mem.Fetch {
	out := map[uint32][]*mem.Fetch{}
	for _, l := range lines {
		f, ok := mem.ParseFetch(l)
		if !ok {
			continue
		}
		u, ok := mem.Num(f.Items["UID"])
		if !ok {
			wd.fail("%q: FETCH data without UID (the backend always sends it): %s", text, l.Raw)
		}
		out[u] = append(out[u], f)
	}
	return out
}

func flagSet(n *tok.Node) (map[string]bool, bool) {
	if n == nil || !n.List {
		return nil, false
	}
	out := map[string]bool{}
	for _, c := range n.Children {
		out[strings.ToLower(c.Tok.S)] = true
	}
	return out, true
}

func sameFlags(a, b map[string]bool) bool {
	if len(a) != len(b) {
		return false
	}
	for k := range a {
		if !b[k] {
			return false
		}
	}
	return true
}

func nodeBytes(n *tok.Node) ([]byte, bool) {
	if n == nil || n.List || n.Bracket {
		return nil, false
	}
	if n.Tok.Kind == tok.Atom {
		if strings.EqualFold(n.Tok.S, "NIL") {
			return nil, true
		}
		return nil, false
	}
	return []byte(n.Tok.S), true
}

func parseInternalDate(s string) (time.Time, error) {
	return time.Parse("_2-Jan-2006 15:04:05 -0700", s)
}

// ---------------------------------------------------------------- actions

func (wd *world) actCreate(t *rapid.T) {
	s := wd.anySess(t)
	name := namePool[pick(t, "name", len(namePool))]
	wire := name
	if pick(t, "trailing", 6) == 0 && canonName(name) != "INBOX" {
		wire += "/"
	}
	_, st := wd.run(s, "CREATE", false, "CREATE "+quoteName(wire))
	want := wd.st.create(name)
	if want != (st.Status == "OK") {
		wd.fail("CREATE %s: server says %s, model expects success=%v (existing: %v)", wire, st.Status, want, wd.names())
	}
	if want {
		wd.mutated()
	}
}

func (wd *world) names() []string {
	var l []string
	for n := range wd.st.boxes {
		l = append(l, n)
	}
	sort.Strings(l)
	return l
}

func (wd *world) actDelete(t *rapid.T) {
	s := wd.anySess(t)
	name := wd.existingName(t)
	if canonName(name) == "INBOX" {
		return
	}
	for _, o := range wd.ss {
		if o.sel != nil && o.name == name {
			return // deleting a selected mailbox: behaviour left to the implementation
		}
	}
	_, st := wd.run(s, "DELETE", false, "DELETE "+quoteName(name))
	b := wd.st.boxes[name]
	if (b != nil) != (st.Status == "OK") {
		wd.fail("DELETE %s: server says %s, model has mailbox=%v", name, st.Status, b != nil)
	}
	if b != nil {
		if b.validity != 0 {
			wd.st.past[name] = append(wd.st.past[name], b.validity)
		}
		delete(wd.st.boxes, name)
		wd.mutated()
	}
}

func (wd *world) actRename(t *rapid.T) {
	s := wd.anySess(t)
	from := wd.existingName(t)
	to := namePool[pick(t, "to", len(namePool))]
	if canonName(from) == "INBOX" || canonName(to) == "INBOX" {
		return
	}
	for n := range wd.st.boxes {
		if strings.HasPrefix(n, from+"/") {
			return // renaming a mailbox with children is not modelled
		}
	}
	for _, o := range wd.ss {
		if o.sel != nil && o.name == from {
			return
		}
	}
	wire := to
	if pick(t, "trailing", 4) == 0 {
		// a trailing hierarchy delimiter is not part of the name (as for CREATE)
		wire += "/"
	}
	_, st := wd.run(s, "RENAME", false, fmt.Sprintf("RENAME %s %s", quoteName(from), quoteName(wire)))
	b := wd.st.boxes[from]
	want := b != nil && wd.st.boxes[to] == nil
	if want != (st.Status == "OK") {
		wd.fail("RENAME %s %s: server says %s, model expects success=%v (existing: %v)", from, wire, st.Status, want, wd.names())
	}
	if want {
		delete(wd.st.boxes, from)
		wd.st.boxes[to] = b
		// UIDs stay valid: the incarnation keeps its UIDVALIDITY; the old name is free again
		if b.validity != 0 {
			wd.st.past[from] = append(wd.st.past[from], b.validity)
		}
		wd.mutated()
	}
}

func (wd *world) actSubscribe(t *rapid.T) {
	s := wd.anySess(t)
	name := wd.existingName(t)
	verb := []string{"SUBSCRIBE", "SUBSCRIBE", "UNSUBSCRIBE"}[pick(t, "verb", 3)]
	_, st := wd.run(s, verb, false, verb+" "+quoteName(name))
	b := wd.st.boxes[canonName(name)]
	if (b != nil) != (st.Status == "OK") {
		wd.fail("%s %s: server says %s, model has mailbox=%v", verb, name, st.Status, b != nil)
	}
	if b != nil {
		b.subscribed = verb == "SUBSCRIBE"
		wd.mutated()
	}
}

// listResolveMatch applies the reference rule the repository's TestMatchList
// fixes (a pattern starting with the delimiter is absolute; a reference is a
// name prefix, completed with the delimiter when it lacks it), then listMatch.
func listResolveMatch(name, ref, pat string) bool {
	if strings.HasPrefix(pat, "/") {
		ref, pat = "", pat[1:]
	}
	if ref != "" {
		if !strings.HasSuffix(ref, "/") {
			ref += "/"
		}
		if !strings.HasPrefix(name, ref) {
			return false
		}
		name = name[len(ref):]
	}
	return listMatch(name, pat)
}

// listMatch: RFC 3501 6.3.8 wildcard matching ('*' any, '%' any but the delimiter).
func listMatch(name, pat string) bool {
	if pat == "" {
		return name == ""
	}
	switch pat[0] {
	case '*':
		for i := 0; i <= len(name); i++ {
			if listMatch(name[i:], pat[1:]) {
				return true
			}
		}
		return false
	case '%':
		for i := 0; i <= len(name); i++ {
			if listMatch(name[i:], pat[1:]) {
				return true
			}
			if i < len(name) && name[i] == '/' {
				break
			}
		}
		return false
	}
	if name == "" {
		return false
	}
	ok := name[0] == pat[0]
	return ok && listMatch(name[1:], pat[1:])
}

func (wd *world) actList(t *rapid.T) {
	s := wd.anySess(t)
	pats := []string{"*", "%", "A*", "A/%", "*x", "INBOX", "B/%/%", "%/%", "*/*", "C*", "B", "Z*", "*d", "A%",
		// wildcard-free, relative and absolute (leading delimiter) patterns
		"x", "y/z", "A/x", "C d", "/A", "/INBOX", "/B/%", "y/%", "/*"}
	pat := pats[pick(t, "pattern", len(pats))]
	// references with and without the trailing delimiter
	ref := []string{"", "", "", "A/", "B/", "A", "B", "B/y"}[pick(t, "ref", 8)]
	mode := pick(t, "mode", 5)
	var text string
	subOnly := false
	switch mode {
	case 0:
		text = fmt.Sprintf(`LSUB %q %q`, ref, pat)
		subOnly = true
	case 1:
		text = fmt.Sprintf(`LIST (SUBSCRIBED) %q %q`, ref, pat)
		subOnly = true
	case 2:
		text = fmt.Sprintf(`LIST %q %q RETURN (SUBSCRIBED)`, ref, pat)
	default:
		text = fmt.Sprintf(`LIST %q %q`, ref, pat)
	}
	lines, st := wd.run(s, "LIST", false, text)
	if st.Status != "OK" {
		wd.fail("%s: %s", text, st.Raw)
	}
	wd.query("LIST")
	want := map[string]bool{}
	for n, b := range wd.st.boxes {
		if listResolveMatch(n, ref, pat) && (!subOnly || b.subscribed) {
			want[n] = true
		}
	}
	got := map[string]bool{}
	for _, l := range lines {
		tk := mem.Toks(l)
		if len(tk) < 4 || !(strings.EqualFold(tk[0].S, "LIST") || strings.EqualFold(tk[0].S, "LSUB")) {
			continue
		}
		nodes, err := tok.Tree(tk[1:])
		if err != nil || len(nodes) != 3 {
			wd.fail("%s: malformed line %s", text, l.Raw)
		}
		name := nodes[2].Tok.S
		if got[name] {
			wd.fail("%s: %q listed twice", text, name)
		}
		got[name] = true
		if b := wd.st.boxes[name]; b != nil && mode != 0 && mode != 3 && mode != 4 {
			attrs, _ := flagSet(nodes[0])
			if attrs[`\subscribed`] != b.subscribed {
				wd.fail("%s: %q listed with attributes %v but subscribed=%v", text, name, nodes[0], b.subscribed)
			}
		}
	}
	if fmt.Sprint(keys(got)) != fmt.Sprint(keys(want)) {
		wd.fail("%s: server lists %v, model expects %v (all mailboxes: %v)", text, keys(got), keys(want), wd.names())
	}
}

func keys(m map[string]bool) []string {
	var l []string
	for k := range m {
		l = append(l, k)
	}
	sort.Strings(l)
	return l
}

func (wd *world) actStatus(t *rapid.T) {
	s := wd.anySess(t)
	name := wd.existingName(t)
	text := "STATUS " + quoteName(name) + " (MESSAGES UIDNEXT UIDVALIDITY UNSEEN DELETED SIZE)"
	lines, st := wd.run(s, "STATUS", false, text)
	b := wd.st.boxes[canonName(name)]
	if (b != nil) != (st.Status == "OK") {
		wd.fail("%s: server says %s, model has mailbox=%v", text, st.Status, b != nil)
	}
	if b == nil {
		return
	}
	wd.query("STATUS")
	found := false
	for _, l := range lines {
		tk := mem.Toks(l)
		if len(tk) < 3 || !strings.EqualFold(tk[0].S, "STATUS") {
			continue
		}
		nodes, err := tok.Tree(tk[1:])
		if err != nil || len(nodes) != 2 || !nodes[1].List {
			wd.fail("%s: malformed %s", text, l.Raw)
		}
		found = true
		got := map[string]uint64{}
		ch := nodes[1].Children
		for i := 0; i+1 < len(ch); i += 2 {
			v, _ := strconv.ParseUint(ch[i+1].Tok.S, 10, 64)
			got[strings.ToUpper(ch[i].Tok.S)] = v
		}
		want := map[string]uint64{"MESSAGES": uint64(len(b.msgs)), "UIDNEXT": uint64(b.uidNext), "UNSEEN": uint64(b.count(`\seen`, false)),
			"DELETED": uint64(b.count(`\deleted`, true)), "SIZE": uint64(b.size())}
		for k, v := range want {
			if g, ok := got[k]; !ok || g != v {
				wd.fail("%s: %s is %d (present=%v), model expects %d; line %s", text, k, g, ok, v, l.Raw)
			}
		}
		wd.checkValidity(canonName(name), b, uint32(got["UIDVALIDITY"]), text)
	}
	if !found {
		wd.fail("%s: no STATUS data", text)
	}
}

func (wd *world) actAppend(t *rapid.T) {
	s := wd.anySess(t)
	name := wd.existingName(t)
	tn, v := pick(t, "template", nTemplates), rapid.IntRange(0, 47).Draw(t, "variant")
	p := template(tn, v)
	flags := genFlags(t)
	m := &msg{flags: map[string]bool{}, p: p, raw: p.full(), label: fmt.Sprintf("T%d/%d", tn, v)}
	for _, f := range flags {
		m.flags[strings.ToLower(f)] = true
	}
	opt := ""
	if len(flags) > 0 || pick(t, "emptyflags", 4) == 0 {
		opt = "(" + strings.Join(flags, " ") + ")"
	}
	if pick(t, "withdate", 4) != 0 {
		d := appendDates[pick(t, "date", len(appendDates))]
		m.date, m.dateKnown = d.t, true
		if opt != "" {
			opt += " "
		}
		opt += `"` + d.text + `"`
	}
	text := fmt.Sprintf("APPEND %s %s {%s, %d bytes}", quoteName(name), opt, m.label, len(m.raw))
	wd.hist = append(wd.hist, fmt.Sprintf("S%d %s", s.c.ID, text))
	wd.classes["cmd:APPEND"]++
	wd.classes["template:"+fmt.Sprint(tn)]++
	b := wd.st.boxes[canonName(name)]
	if b != nil {
		b.add(m) // before post(): the poll that follows announces it
	}
	_, st, err := s.c.Append(quoteName(name), opt, m.raw)
	wd.post(s, "APPEND", false, text, st, err)
	if (b != nil) != (st.Status == "OK") {
		wd.fail("%s: server says %s, model has mailbox=%v", text, st.Raw, b != nil)
	}
	if b == nil {
		if _, ok := code(st, "TRYCREATE"); !ok {
			wd.fail("%s to a missing mailbox: no [TRYCREATE] in %s", text, st.Raw)
		}
		return
	}
	wd.mutated()
	args, ok := code(st, "APPENDUID")
	if !ok || len(args) != 2 {
		wd.fail("%s: no APPENDUID in %s", text, st.Raw)
	}
	uv, _ := strconv.ParseUint(args[0], 10, 32)
	u, _ := strconv.ParseUint(args[1], 10, 32)
	wd.checkValidity(canonName(name), b, uint32(uv), text)
	if uint32(u) != m.uid {
		wd.fail("%s: APPENDUID names UID %d, model assigned %d", text, u, m.uid)
	}
}

func (wd *world) actSelect(t *rapid.T) {
	s := wd.anySess(t)
	name := wd.existingName(t)
	s.sel, s.view, s.saved = nil, nil, nil
	lines, st := wd.run(s, "SELECT", false, "SELECT "+quoteName(name))
	b := wd.st.boxes[canonName(name)]
	if (b != nil) != (st.Status == "OK") {
		wd.fail("SELECT %s: server says %s, model has mailbox=%v", name, st.Status, b != nil)
	}
	if b == nil {
		return
	}
	s.sel, s.name, s.view, s.seen = b, canonName(name), append([]*msg(nil), b.msgs...), b.version
	s.saved = nil
	if n := len(s.c.Obs.View); n != len(b.msgs) {
		wd.fail("SELECT %s: EXISTS %d, model holds %d", name, n, len(b.msgs))
	}
	wantFlags := map[string]bool{}
	for _, m := range b.msgs {
		for f := range m.flags {
			wantFlags[f] = true
		}
	}
	for _, l := range lines {
		if args, ok := code(l, "UIDVALIDITY"); ok && len(args) == 1 {
			v, _ := strconv.ParseUint(args[0], 10, 32)
			wd.checkValidity(s.name, b, uint32(v), "SELECT "+name)
		}
		if args, ok := code(l, "UIDNEXT"); ok && len(args) == 1 {
			v, _ := strconv.ParseUint(args[0], 10, 32)
			if uint32(v) != b.uidNext {
				wd.fail("SELECT %s: UIDNEXT %d, model expects %d", name, v, b.uidNext)
			}
		}
		tk := mem.Toks(l)
		if len(tk) >= 2 && strings.EqualFold(tk[0].S, "FLAGS") && l.Status == "" {
			nodes, _ := tok.Tree(tk[1:])
			if len(nodes) == 1 {
				got, _ := flagSet(nodes[0])
				for f := range wantFlags {
					if !got[f] {
						wd.fail("SELECT %s: FLAGS %v does not list %s which a message carries", name, nodes[0], f)
					}
				}
			}
		}
	}
}

func (wd *world) actUnselect(t *rapid.T) {
	s := wd.selSess(t)
	if s == nil || pick(t, "really", 3) != 0 {
		return
	}
	verb := []string{"UNSELECT", "CLOSE"}[pick(t, "verb", 2)]
	b := s.sel
	s.sel, s.view, s.saved = nil, nil, nil
	_, st := wd.run(s, verb, false, verb)
	if st.Status != "OK" {
		wd.fail("%s: %s", verb, st.Raw)
	}
	if verb == "CLOSE" {
		dead := map[*msg]bool{}
		for _, m := range b.msgs {
			if m.flags[`\deleted`] {
				dead[m] = true
			}
		}
		if len(dead) > 0 {
			b.remove(dead)
			wd.mutated()
		}
	}
}

func (wd *world) actStore(t *rapid.T) {
	s := wd.selSess(t)
	if s == nil {
		return
	}
	uid := rapid.Bool().Draw(t, "uid")
	if !uid || pick(t, "syncfirst", 3) != 0 {
		wd.sync(s)
	}
	ns := wd.genNumSet(t, s, uid)
	op := []string{"+FLAGS", "-FLAGS", "FLAGS", "+FLAGS.SILENT", "-FLAGS.SILENT", "FLAGS.SILENT"}[pick(t, "op", 6)]
	flags := genFlags(t)
	if len(flags) == 0 && !strings.HasPrefix(op, "FLAGS") {
		flags = []string{`\Deleted`}
	}
	text := fmt.Sprintf("%sSTORE %s %s (%s)", uidWord(uid), ns, op, strings.Join(flags, " "))
	target := addressed(s.sel, uid, ns)
	// model first
	for _, m := range target {
		switch op[0] {
		case '+':
			for _, f := range flags {
				m.flags[strings.ToLower(f)] = true
			}
		case '-':
			for _, f := range flags {
				delete(m.flags, strings.ToLower(f))
			}
		default:
			m.flags = map[string]bool{}
			for _, f := range flags {
				m.flags[strings.ToLower(f)] = true
			}
		}
	}
	var announced []*msg // addressed messages the session knows about before the command
	for _, m := range target {
		if inView(s, m) {
			announced = append(announced, m)
		}
	}
	lines, st := wd.run(s, "STORE", uid, text)
	if st.Status != "OK" {
		wd.fail("%s: %s", text, st.Raw)
	}
	if len(target) > 0 {
		wd.mutated()
	}
	if strings.HasSuffix(op, ".SILENT") {
		return
	}
	got := wd.fetchLines(lines, text)
	for _, m := range announced {
		ok := false
		for _, f := range got[m.uid] {
			if fl, has := flagSet(f.Items["FLAGS"]); has && sameFlags(fl, m.flags) {
				ok = true
			}
		}
		if !ok {
			wd.fail("%s: no FETCH data reporting UID %d with flags (%s); addressed UIDs %v", text, m.uid, m.flagList(), uids(target))
		}
	}
}

func (wd *world) actCopyMove(t *rapid.T) {
	s := wd.selSess(t)
	if s == nil {
		return
	}
	uid := rapid.Bool().Draw(t, "uid")
	if !uid || pick(t, "syncfirst", 3) != 0 {
		wd.sync(s)
	}
	wasSync := !wd.stale(s)
	verb := []string{"COPY", "MOVE"}[pick(t, "verb", 2)]
	ns := wd.genNumSet(t, s, uid)
	destName := wd.existingName(t)
	dest := wd.st.boxes[canonName(destName)]
	if dest == s.sel {
		return // copying onto the selected mailbox is not modelled
	}
	text := fmt.Sprintf("%s%s %s %s", uidWord(uid), verb, ns, quoteName(destName))
	target := addressed(s.sel, uid, ns)
	var srcU, dstU []uint32
	before := append([]*msg(nil), s.sel.msgs...)
	if dest != nil {
		dead := map[*msg]bool{}
		for _, m := range target {
			c := clone(m)
			dest.add(c)
			srcU, dstU = append(srcU, m.uid), append(dstU, c.uid)
			dead[m] = true
		}
		if verb == "MOVE" {
			s.sel.remove(dead)
		}
	}
	lines, st := wd.run(s, verb, uid, text)
	if (dest != nil) != (st.Status == "OK") {
		wd.fail("%s: server says %s, model has destination=%v", text, st.Raw, dest != nil)
	}
	if dest == nil {
		if _, ok := code(st, "TRYCREATE"); !ok {
			wd.fail("%s to a missing mailbox: no [TRYCREATE] in %s", text, st.Raw)
		}
		return
	}
	if len(target) > 0 {
		wd.mutated()
	}
	// COPYUID: tagged for COPY, untagged OK for MOVE
	var args []string
	found := false
	for _, l := range append(append([]*tok.Line{}, lines...), st) {
		if a, ok := code(l, "COPYUID"); ok {
			args, found = a, true
		}
	}
	if len(target) == 0 {
		if found {
			wd.fail("%s addresses no message but the server sent COPYUID %v", text, args)
		}
	} else {
		if !found || len(args) != 3 {
			wd.fail("%s: no COPYUID (addressed UIDs %v)", text, srcU)
		}
		uv, _ := strconv.ParseUint(args[0], 10, 32)
		wd.checkValidity(canonName(destName), dest, uint32(uv), text)
		a, ok1 := parseSet(args[1])
		b, ok2 := parseSet(args[2])
		if !ok1 || !ok2 || fmt.Sprint(expand(a)) != fmt.Sprint(srcU) || fmt.Sprint(expand(b)) != fmt.Sprint(dstU) {
			wd.fail("%s: COPYUID %v, model expects source UIDs %v -> new UIDs %v", text, args, srcU, dstU)
		}
	}
	if verb == "MOVE" && wasSync {
		wd.checkRemoved(s, text, before, lines)
	}
}

// checkRemoved replays the EXPUNGE responses of a command issued in sync on
// the list as it was and compares with the model's list after the command.
func (wd *world) checkRemoved(s *sess, text string, before []*msg, lines []*tok.Line) {
	view := append([]*msg(nil), before...)
	for _, l := range lines {
		tk := mem.Toks(l)
		if len(tk) == 2 && strings.EqualFold(tk[1].S, "EXPUNGE") {
			n, _ := strconv.Atoi(tk[0].S)
			if n < 1 || n > len(view) {
				wd.fail("%s: %s out of range (%d messages)", text, l.Raw, len(view))
			}
			view = append(view[:n-1:n-1], view[n:]...)
		}
	}
	// messages appended meanwhile are announced by EXISTS at the tail
	want := s.sel.msgs
	if len(view) > len(want) {
		wd.fail("%s: after its EXPUNGE responses %d messages remain (UIDs %v), model expects %v", text, len(view), uids(view), uids(want))
	}
	for i := range view {
		if view[i] != want[i] {
			wd.fail("%s: after its EXPUNGE responses the mailbox would hold UIDs %v, model expects %v", text, uids(view), uids(want))
		}
	}
}

func (wd *world) actExpunge(t *rapid.T) {
	s := wd.selSess(t)
	if s == nil {
		return
	}
	uidForm := pick(t, "uidexpunge", 3) == 0
	if !uidForm || pick(t, "syncfirst", 3) != 0 {
		wd.sync(s)
	}
	wasSync := !wd.stale(s)
	text := "EXPUNGE"
	var ns numset
	if uidForm {
		ns = genSet(t, s.sel.uidNext)
		text = "UID EXPUNGE " + ns.String()
	}
	before := append([]*msg(nil), s.sel.msgs...)
	dead := map[*msg]bool{}
	for _, m := range s.sel.msgs {
		if m.flags[`\deleted`] && (!uidForm || ns.contains(m.uid, maxUID(s.sel))) {
			dead[m] = true
		}
	}
	s.sel.remove(dead)
	lines, st := wd.run(s, "EXPUNGE", uidForm, text)
	if st.Status != "OK" {
		wd.fail("%s: %s", text, st.Raw)
	}
	if len(dead) > 0 {
		wd.mutated()
	}
	if wasSync {
		wd.checkRemoved(s, text, before, lines)
	}
}

func (wd *world) actSearch(t *rapid.T) {
	s := wd.selSess(t)
	if s == nil {
		return
	}
	wd.sync(s)
	uid := rapid.Bool().Draw(t, "uid")
	b := s.sel
	n := rapid.IntRange(1, 3).Draw(t, "nkeys")
	var ks []*skey
	var sizes []int
	for _, m := range b.msgs {
		sizes = append(sizes, len(m.raw))
	}
	for i := 0; i < n; i++ {
		ks = append(ks, genKey(t, 0, uint32(len(b.msgs)), b.uidNext, sizes))
	}
	var parts []string
	for _, k := range ks {
		parts = append(parts, k.String())
		wd.classes["searchkey:"+k.kind]++
	}
	ret := []string{"", "", "", "RETURN (ALL) ", "RETURN (MIN MAX COUNT) ", "RETURN (COUNT ALL) ", "RETURN () ", "RETURN (SAVE ALL) ", "RETURN (ALL SAVE) ", "RETURN (SAVE ALL) "}[pick(t, "return", 10)]
	// "$": the result saved by an earlier SEARCH RETURN (SAVE) of this selection
	useSaved := s.saved != nil && pick(t, "use$", 2) == 0
	if useSaved {
		form := []string{"$", "UID $", "NOT $"}[pick(t, "$form", 3)]
		parts = append([]string{form}, parts...)
		wd.classes["searchkey:$"]++
	}
	savedForm := ""
	if useSaved {
		savedForm = parts[0]
	}
	text := fmt.Sprintf("%sSEARCH %s%s", uidWord(uid), ret, strings.Join(parts, " "))
	now := time.Now()
	lines, st := wd.run(s, "SEARCH", uid, text)
	if st.Status != "OK" {
		wd.fail("%s: %s", text, st.Raw)
	}
	wd.query("SEARCH")
	for _, k := range ks {
		if k.usesSent() {
			for _, m := range b.msgs {
				if _, ok := m.p.get("Date"); !ok {
					wd.classes["search-not-judged:SENT*-on-message-without-Date"]++
					if strings.Contains(ret, "SAVE") {
						s.saved = nil // what was saved is not known to the model
					}
					return
				}
			}
		}
	}
	var want []uint32
	for i, m := range b.msgs {
		ok := true
		for _, k := range ks {
			if !k.match(m, uint32(i+1), uint32(len(b.msgs)), maxUID(b), now) {
				ok = false
				break
			}
		}
		if savedForm != "" && s.saved[m.uid] == (savedForm == "NOT $") {
			ok = false
		}
		if ok {
			if uid {
				want = append(want, m.uid)
			} else {
				want = append(want, uint32(i+1))
			}
		}
	}
	if strings.Contains(ret, "SAVE") {
		// the whole result is saved (no MIN/MAX/COUNT in these forms)
		saved := map[uint32]bool{}
		for i, m := range b.msgs {
			for _, w := range want {
				if (uid && w == m.uid) || (!uid && w == uint32(i+1)) {
					saved[m.uid] = true
				}
			}
		}
		s.saved = saved
		wd.classes["search:RETURN(SAVE)"]++
	}
	var got []uint32
	seen := false
	for _, l := range lines {
		tk := mem.Toks(l)
		if len(tk) == 0 {
			continue
		}
		switch strings.ToUpper(tk[0].S) {
		case "SEARCH":
			seen = true
			for _, x := range tk[1:] {
				v, err := strconv.ParseUint(x.S, 10, 32)
				if err != nil {
					wd.fail("%s: malformed %s", text, l.Raw)
				}
				got = append(got, uint32(v))
			}
		case "ESEARCH":
			seen = true
			nodes, err := tok.Tree(tk[1:])
			if err != nil {
				wd.fail("%s: malformed %s", text, l.Raw)
			}
			es := map[string]string{}
			for i := 0; i < len(nodes); i++ {
				if nodes[i].List || nodes[i].IsAtom("UID") {
					continue
				}
				if i+1 < len(nodes) {
					es[strings.ToUpper(nodes[i].Tok.S)] = nodes[i+1].Tok.S
					i++
				}
			}
			wantsAll := strings.Contains(ret, "ALL") || ret == "RETURN () "
			if v, ok := es["ALL"]; ok {
				ns, ok := parseSet(v)
				if !ok {
					wd.fail("%s: malformed ALL in %s", text, l.Raw)
				}
				got = expand(ns)
			} else if wantsAll && len(want) > 0 {
				wd.fail("%s: ESEARCH without ALL although %d messages match: %s", text, len(want), l.Raw)
			}
			if strings.Contains(ret, "COUNT") {
				if v, ok := es["COUNT"]; !ok || v != fmt.Sprint(len(want)) {
					wd.fail("%s: COUNT %q, model expects %d (%v); %s", text, v, len(want), want, l.Raw)
				}
			}
			if strings.Contains(ret, "MIN") {
				if len(want) == 0 {
					if _, ok := es["MIN"]; ok {
						wd.fail("%s: MIN present although nothing matches: %s", text, l.Raw)
					}
				} else if es["MIN"] != fmt.Sprint(want[0]) || es["MAX"] != fmt.Sprint(want[len(want)-1]) {
					wd.fail("%s: MIN %q MAX %q, model expects %d and %d; %s", text, es["MIN"], es["MAX"], want[0], want[len(want)-1], l.Raw)
				}
			}
			if !wantsAll {
				return
			}
		}
	}
	if !seen && (ret == "" || len(want) > 0) {
		wd.fail("%s: no SEARCH/ESEARCH data; model expects %v", text, want)
	}
	sort.Slice(got, func(i, j int) bool { return got[i] < got[j] })
	if fmt.Sprint(got) != fmt.Sprint(want) {
		wd.fail("%s: server returns %v, model expects %v (mailbox UIDs %v)", text, got, want, uids(b.msgs))
	}
}

func (wd *world) actFetch(t *rapid.T) {
	s := wd.selSess(t)
	if s == nil {
		return
	}
	uid := rapid.Bool().Draw(t, "uid")
	if !uid || pick(t, "syncfirst", 3) != 0 {
		wd.sync(s)
	}
	b := s.sel
	ns := wd.genNumSet(t, s, uid)
	type item struct {
		req, key, kind string
		want           func(m *msg) ([]byte, bool)
	}
	var items []item
	seenFlag := false
	for i, k := 0, rapid.IntRange(1, 3).Draw(t, "nitems"); i < k; i++ {
		switch pick(t, "item", 10) {
		case 0:
			items = append(items, item{req: "FLAGS", key: "FLAGS", kind: "flags"})
		case 1:
			items = append(items, item{req: "RFC822.SIZE", key: "RFC822.SIZE", kind: "size"})
		case 2:
			items = append(items, item{req: "INTERNALDATE", key: "INTERNALDATE", kind: "date"})
		case 3:
			items = append(items, item{req: []string{"ENVELOPE", "BODYSTRUCTURE", "BODY"}[pick(t, "struct", 3)], kind: "opaque"})
			items[len(items)-1].key = items[len(items)-1].req
		default:
			req, key, f, seen, class := genSection(t)
			if key == "" {
				items = append(items, item{req: req, key: req, kind: "survive", want: f})
			} else {
				items = append(items, item{req: req, key: key, kind: "bytes", want: f})
			}
			seenFlag = seenFlag || seen
			wd.classes[class]++
		}
	}
	var reqs []string
	dup := map[string]bool{}
	for _, it := range items {
		if dup[it.key] {
			return // the same item twice: skip this draw
		}
		dup[it.key] = true
		reqs = append(reqs, it.req)
	}
	text := fmt.Sprintf("%sFETCH %s (%s)", uidWord(uid), ns, strings.Join(reqs, " "))
	target := addressed(b, uid, ns)
	var expect []*msg
	for _, m := range target {
		if inView(s, m) {
			expect = append(expect, m)
		}
	}
	// defined for every expected message?
	for _, m := range expect {
		for _, it := range items {
			if it.kind == "bytes" || it.kind == "survive" {
				if _, ok := it.want(m); !ok {
					return // section not defined by the RFC for this message shape
				}
			}
		}
	}
	if seenFlag {
		for _, m := range expect {
			if !m.flags[`\seen`] {
				m.flags[`\seen`] = true
				wd.mutated()
			}
		}
	}
	wasSync := !wd.stale(s)
	viewBefore := append([]*msg(nil), s.view...)
	lines, st := wd.run(s, "FETCH", uid, text)
	if st.Status != "OK" {
		wd.fail("%s: %s", text, st.Raw)
	}
	wd.query("FETCH")
	got := wd.fetchLines(lines, text)
	isExpected := map[uint32]bool{}
	for _, m := range expect {
		isExpected[m.uid] = true
		var f *mem.Fetch
		for _, c := range got[m.uid] {
			all := true
			for _, it := range items {
				if it.kind == "survive" {
					continue
				}
				if _, ok := c.Items[it.key]; !ok {
					all = false
				}
			}
			if all {
				f = c
				break
			}
		}
		if f == nil {
			wd.fail("%s: no FETCH data with the requested items for UID %d (message %s); got %d lines for it; expected UIDs %v", text, m.uid, m.label, len(got[m.uid]), uids(expect))
		}
		if idx := indexOf(viewBefore, m); wasSync && int(f.Seq) != idx+1 {
			wd.fail("%s: UID %d reported as message %d, model says %d", text, m.uid, f.Seq, idx+1)
		}
		for _, it := range items {
			n := f.Items[it.key]
			switch it.kind {
			case "flags":
				if fl, ok := flagSet(n); !ok || !sameFlags(fl, m.flags) {
					wd.fail("%s: UID %d FLAGS %v, model expects (%s)", text, m.uid, n, m.flagList())
				}
			case "size":
				if v, ok := mem.Num(n); !ok || int(v) != len(m.raw) {
					wd.fail("%s: UID %d RFC822.SIZE %v, model expects %d", text, m.uid, n, len(m.raw))
				}
			case "date":
				d, err := parseInternalDate(n.Tok.S)
				if err != nil {
					wd.fail("%s: UID %d INTERNALDATE %v: %v", text, m.uid, n, err)
				}
				if m.dateKnown && !d.Equal(m.date) {
					wd.fail("%s: UID %d INTERNALDATE %v, model expects %v", text, m.uid, n, m.date)
				}
				if !m.dateKnown && (d.Before(wd.t0.Add(-2*time.Second)) || d.After(time.Now().Add(2*time.Second))) {
					wd.fail("%s: UID %d INTERNALDATE %v is outside the run's window starting %v", text, m.uid, n, wd.t0)
				}
			case "bytes":
				want, _ := it.want(m)
				gotb, ok := nodeBytes(n)
				if !ok || !bytes.Equal(gotb, want) {
					wd.fail("%s: UID %d (message %s) %s is %q, model expects %q", text, m.uid, m.label, it.key, clip(gotb), clip(want))
				}
			}
		}
	}
	// data for messages that were not addressed may only be flag updates
	for u, fs := range got {
		if isExpected[u] {
			continue
		}
		for _, f := range fs {
			for _, name := range f.Order {
				if name != "UID" && name != "FLAGS" {
					wd.fail("%s: FETCH data with %s for UID %d which the command does not address (addressed UIDs %v)", text, name, u, uids(expect))
				}
			}
		}
	}
}

func clip(b []byte) string {
	if len(b) > 200 {
		return string(b[:200]) + fmt.Sprintf("…(%d bytes)", len(b))
	}
	return string(b)
}

func indexOf(l []*msg, m *msg) int {
	for i, v := range l {
		if v == m {
			return i
		}
	}
	return -1
}

// actStaleSeq: a sequence-number FETCH or STORE issued by a session whose view
// is stale. Sequence numbers mean the session's view: message n is the n-th
// message it has been told about, '*' the last one. Messages already removed
// by someone else cannot be returned. The session is re-synchronised right
// after, which also checks the announced list against the model.
func (wd *world) actStaleSeq(t *rapid.T) {
	var c []*sess
	for _, s := range wd.ss {
		if wd.stale(s) {
			c = append(c, s)
		}
	}
	if len(c) == 0 {
		return
	}
	s := c[pick(t, "session", len(c))]
	view := append([]*msg(nil), s.view...)
	ns := genSet(t, uint32(len(view)))
	alive := map[*msg]bool{}
	for _, m := range s.sel.msgs {
		alive[m] = true
	}
	var expect []*msg
	pos := map[*msg]int{}
	for i, m := range view {
		pos[m] = i + 1
		if ns.contains(uint32(i+1), uint32(len(view))) && alive[m] {
			expect = append(expect, m)
		}
	}
	store := pick(t, "store", 3) == 0
	text := fmt.Sprintf("FETCH %s (UID)", ns)
	if store {
		text = fmt.Sprintf("STORE %s +FLAGS (stale)", ns)
		for _, m := range expect {
			m.flags["stale"] = true
		}
	}
	wd.classes["stale-sequence-command"]++
	name := "FETCH"
	if store {
		name = "STORE"
	}
	lines, st := wd.run(s, name, false, text+"")
	wd.hist[len(wd.hist)-1] += fmt.Sprintf(" [stale view %v, mailbox %v]", uids(view), uids(s.sel.msgs))
	if st.Status == "OK" {
		got := map[uint32]*mem.Fetch{}
		for _, l := range lines {
			f, ok := mem.ParseFetch(l)
			if !ok {
				continue
			}
			_, hasFlags := f.Items["FLAGS"]
			if store != hasFlags {
				continue // an unsolicited flag update / not the answer shape
			}
			u, _ := mem.Num(f.Items["UID"])
			if store && !strings.Contains(strings.ToLower(f.Items["FLAGS"].String()), "stale") {
				continue
			}
			got[u] = f
		}
		for _, m := range expect {
			f := got[m.uid]
			if f == nil {
				wd.fail("%s by a session whose view is %v (mailbox now %v): no data for its message %d (UID %d)", text, uids(view), uids(s.sel.msgs), pos[m], m.uid)
			}
			if int(f.Seq) != pos[m] {
				wd.fail("%s by a session whose view is %v: UID %d reported as message %d, it is message %d of that view", text, uids(view), m.uid, f.Seq, pos[m])
			}
			delete(got, m.uid)
		}
		for u := range got {
			if store {
				break // a pending flag update of another session looks the same as an answer
			}
			wd.fail("%s by a session whose view is %v (mailbox now %v): data for UID %d which the set does not address in that view (expected UIDs %v)", text, uids(view), uids(s.sel.msgs), u, uids(expect))
		}
		if store && len(expect) > 0 {
			wd.mutated()
		}
	} else if store {
		for _, m := range expect {
			delete(m.flags, "stale") // refused as a whole
		}
	}
	wd.run(s, "NOOP", false, "NOOP")
}

// audit: a fresh connection must see exactly the model, for every mailbox.
func (wd *world) audit() {
	c, err := wd.w.Dial()
	if err != nil {
		wd.t.Fatalf("audit dial: %v", err)
	}
	s := &sess{c: c}
	wd.ss = append(wd.ss, s)
	for _, name := range wd.names() {
		b := wd.st.boxes[name]
		text := "SELECT " + quoteName(name)
		wd.hist = append(wd.hist, "audit "+text)
		_, st, err := c.Do("SELECT", false, text)
		if err != nil || st.Status != "OK" {
			wd.fail("audit: %s: %v %v", text, st, err)
		}
		if n := len(c.Obs.View); n != len(b.msgs) {
			wd.fail("audit: %s holds %d messages, model expects %d (UIDs %v)", name, n, len(b.msgs), uids(b.msgs))
		}
		if len(b.msgs) == 0 {
			continue
		}
		text = "FETCH 1:* (UID FLAGS RFC822.SIZE INTERNALDATE BODY.PEEK[])"
		lines, st, err := c.Do("FETCH", false, text)
		if err != nil || st.Status != "OK" {
			wd.fail("audit: %s: %v %v", text, st, err)
		}
		n := 0
		prev := uint32(0)
		for _, l := range lines {
			f, ok := mem.ParseFetch(l)
			if !ok {
				continue
			}
			n++
			if int(f.Seq) != n || n > len(b.msgs) {
				wd.fail("audit %s: unexpected line %s", name, clip(l.Raw))
			}
			m := b.msgs[n-1]
			u, _ := mem.Num(f.Items["UID"])
			if u != m.uid {
				wd.fail("audit %s: message %d has UID %d, model expects %d (%v)", name, n, u, m.uid, uids(b.msgs))
			}
			if u <= prev {
				wd.fail("audit %s: UIDs not strictly ascending at message %d", name, n)
			}
			prev = u
			if fl, ok := flagSet(f.Items["FLAGS"]); !ok || !sameFlags(fl, m.flags) {
				wd.fail("audit %s: UID %d has flags %v, model expects (%s)", name, u, f.Items["FLAGS"], m.flagList())
			}
			if body, ok := nodeBytes(f.Items["BODY[]"]); !ok || !bytes.Equal(body, m.raw) {
				wd.fail("audit %s: UID %d body differs from the appended message %s", name, u, m.label)
			}
			if d, err := parseInternalDate(f.Items["INTERNALDATE"].Tok.S); err != nil || m.dateKnown && !d.Equal(m.date) {
				wd.fail("audit %s: UID %d INTERNALDATE %v, model expects %v", name, u, f.Items["INTERNALDATE"], m.date)
			}
		}
		if n != len(b.msgs) {
			wd.fail("audit %s: %d messages fetched, model expects %d", name, n, len(b.msgs))
		}
		if prev >= b.uidNext {
			wd.fail("audit %s: UID %d >= predicted UIDNEXT %d", name, prev, b.uidNext)
		}
	}
}

var actionWeights = []struct {
	name string
	w    int
}{
	{"create", 2}, {"delete", 2}, {"rename", 2}, {"subscribe", 3}, {"list", 5}, {"status", 6}, {"append", 16}, {"select", 7}, {"unselect", 2},
	{"store", 12}, {"copymove", 9}, {"expunge", 7}, {"search", 14}, {"fetch", 14}, {"open", 2}, {"noop", 3}, {"staleseq", 8},
}

func runHistory(t *rapid.T) {
	w := mem.Start("INBOX")
	defer w.Stop()
	wd := &world{t: t, w: w, st: newStore(), t0: time.Now(), classes: map[string]int{}}
	wd.st.create("INBOX")
	defer func() {
		for _, s := range wd.ss {
			s.c.Close()
		}
	}()
	wd.open()
	acts := map[string]func(*rapid.T){
		"create": wd.actCreate, "delete": wd.actDelete, "rename": wd.actRename, "subscribe": wd.actSubscribe, "list": wd.actList, "status": wd.actStatus,
		"append": wd.actAppend, "select": wd.actSelect, "unselect": wd.actUnselect, "store": wd.actStore, "copymove": wd.actCopyMove, "expunge": wd.actExpunge,
		"search": wd.actSearch, "fetch": wd.actFetch, "staleseq": wd.actStaleSeq,
		"open": func(*rapid.T) {
			if len(wd.ss) < 3 {
				wd.open()
			}
		},
		"noop": func(t *rapid.T) {
			if s := wd.selSess(t); s != nil {
				wd.run(s, "NOOP", false, "NOOP")
			}
		},
	}
	var weighted []string
	for _, a := range actionWeights {
		for i := 0; i < a.w; i++ {
			weighted = append(weighted, a.name)
		}
	}
	t.Repeat(map[string]func(*rapid.T){
		"step": func(t *rapid.T) { acts[weighted[pick(t, "action", len(weighted))]](t) },
	})
	wd.audit()
	ev.Eval()
	if wd.queries > 0 {
		ev.NonTrivial(strings.Join(wd.hist, "|"))
		ev.Class("history-with-query-after->=3-mutations")
	}
	for k, n := range wd.classes {
		ev.ClassN(k, int64(n))
	}
	ev.Sample(strings.Join(wd.hist, " ; "))
}

func TestPropModel(t *testing.T) { rapid.Check(t, runHistory) }

// TestKnownSmallerZero: F-C09e - "SEARCH SMALLER 0" must match nothing (no
// message is smaller than 0 octets) but imap.SearchCriteria represents an
// absent SMALLER key as 0, so the backend returns every message.
func TestKnownSmallerZero(t *testing.T) {
	w := mem.Start("INBOX")
	defer w.Stop()
	c, err := w.Dial()
	if err != nil {
		t.Fatal(err)
	}
	defer c.Close()
	c.Append("INBOX", "", template(0, 0).full())
	c.Append("INBOX", "", template(5, 1).full())
	c.Do("SELECT", false, "SELECT INBOX")
	lines, st, err := c.Do("SEARCH", false, "SEARCH SMALLER 0")
	if err != nil || st.Status != "OK" {
		t.Fatalf("SEARCH SMALLER 0: %v %v", st, err)
	}
	n := 0
	for _, l := range lines {
		if tk := mem.Toks(l); len(tk) > 0 && strings.EqualFold(tk[0].S, "SEARCH") {
			n += len(tk) - 1
		}
	}
	ev.Eval()
	ev.Known("F-C09e", n > 0)
}
