package c09

// Reference model of the mailbox store and constructed MIME messages whose
// section contents are known by construction (no parser involved).

import (
	"bytes"
	"fmt"
	"sort"
	"strings"
	"time"
)

// ---------------------------------------------------------------- messages

type hfield struct{ name, value string }

type part struct {
	hdr      []hfield
	body     []byte  // leaf content
	kids     []*part // multipart children
	boundary string
	msg      *part // embedded message (message/rfc822)
	multi    bool
}

func (p *part) header() []byte {
	var b bytes.Buffer
	for _, f := range p.hdr {
		b.WriteString(f.name + ": " + f.value + "\r\n")
	}
	b.WriteString("\r\n")
	return b.Bytes()
}

func (p *part) content() []byte {
	switch {
	case p.multi:
		var b bytes.Buffer
		for _, k := range p.kids {
			b.WriteString("--" + p.boundary + "\r\n")
			b.Write(k.full())
			b.WriteString("\r\n")
		}
		b.WriteString("--" + p.boundary + "--\r\n")
		return b.Bytes()
	case p.msg != nil:
		return p.msg.full()
	}
	return p.body
}

func (p *part) full() []byte { return append(p.header(), p.content()...) }

func (p *part) get(name string) (string, bool) {
	for _, f := range p.hdr {
		if strings.EqualFold(f.name, name) {
			return f.value, true
		}
	}
	return "", false
}

func (p *part) values(name string) []string {
	var out []string
	for _, f := range p.hdr {
		if strings.EqualFold(f.name, name) {
			out = append(out, f.value)
		}
	}
	return out
}

// section computes BODY[<path>.<spec>] per RFC 3501 6.4.5. ok=false means the
// combination is not defined by the RFC for this message (not generated).
func section(root *part, path []int, spec string, fields []string) (out []byte, ok bool) {
	cur := root
	for _, n := range path {
		if cur.msg != nil {
			cur = cur.msg
		}
		if cur.multi {
			if n < 1 || n > len(cur.kids) {
				return nil, true // no such part: empty
			}
			cur = cur.kids[n-1]
		} else if n != 1 {
			return nil, true
		}
	}
	hdrOwner := cur
	if len(path) > 0 && (spec == "HEADER" || spec == "TEXT" || strings.HasPrefix(spec, "HEADER.FIELDS")) {
		if cur.msg == nil {
			return nil, false // HEADER/TEXT of a part that is not a message: undefined
		}
		hdrOwner = cur.msg
	}
	switch spec {
	case "":
		if len(path) == 0 {
			return root.full(), true
		}
		return cur.content(), true
	case "MIME":
		if len(path) == 0 {
			return nil, false
		}
		return cur.header(), true
	case "HEADER":
		return hdrOwner.header(), true
	case "TEXT":
		return hdrOwner.content(), true
	case "HEADER.FIELDS", "HEADER.FIELDS.NOT":
		want := map[string]bool{}
		for _, f := range fields {
			want[strings.ToLower(f)] = true
		}
		var b bytes.Buffer
		for _, f := range hdrOwner.hdr {
			if want[strings.ToLower(f.name)] == (spec == "HEADER.FIELDS") {
				b.WriteString(f.name + ": " + f.value + "\r\n")
			}
		}
		b.WriteString("\r\n")
		return b.Bytes(), true
	}
	return nil, false
}

var words = []string{"alpha", "beta", "gamma", "delta"}
var people = []string{"alice@example.org", "bob@example.com", "carol@example.net"}

// sentDates are Date header values with their calendar day in the header's zone.
var sentDates = []struct {
	hdr string
	t   time.Time
}{
	{"Mon, 01 Jan 2001 10:00:00 +0000", time.Date(2001, 1, 1, 10, 0, 0, 0, time.UTC)},
	{"Sat, 15 Jun 2002 23:30:00 -0500", time.Date(2002, 6, 15, 23, 30, 0, 0, time.FixedZone("", -5*3600))},
	{"Sun, 16 Jun 2002 00:30:00 +0200", time.Date(2002, 6, 16, 0, 30, 0, 0, time.FixedZone("", 2*3600))},
	{"Wed, 31 Dec 2003 23:59:59 +0000", time.Date(2003, 12, 31, 23, 59, 59, 0, time.UTC)},
}

// template builds message number k of kind t; v varies the searchable text.
func template(t, v int) *part {
	w := words[v%len(words)]
	w2 := words[(v/4)%len(words)]
	from := people[v%len(people)]
	to := people[(v/3)%len(people)]
	sd := sentDates[v%len(sentDates)]
	base := []hfield{
		{"From", "Sender " + w + " <" + from + ">"},
		{"To", to},
		{"Subject", "Topic " + w + " and " + strings.ToUpper(w2)},
		{"Date", sd.hdr},
		{"Message-ID", fmt.Sprintf("<%d.%d@example.org>", t, v)},
	}
	text := func(s string) *part {
		return &part{hdr: []hfield{{"Content-Type", "text/plain; charset=utf-8"}}, body: []byte(s)}
	}
	switch t {
	case 0: // plain
		return &part{hdr: base, body: []byte("Hello " + w + ",\r\nthis is the " + w2 + " body.\r\nBye\r\n")}
	case 1: // more headers
		h := append(append([]hfield{}, base...), hfield{"Cc", people[(v+1)%len(people)]}, hfield{"X-Custom", "value-" + w}, hfield{"X-Custom", "second " + w2},
			hfield{"Content-Type", "text/plain"})
		return &part{hdr: h, body: []byte("line one " + w + "\r\nline two\r\n")}
	case 2: // multipart/mixed, 3 parts
		h := append(append([]hfield{}, base...), hfield{"MIME-Version", "1.0"}, hfield{"Content-Type", `multipart/mixed; boundary="b1"`})
		html := &part{hdr: []hfield{{"Content-Type", "text/html"}, {"Content-Disposition", "inline"}}, body: []byte("<p>" + w2 + "</p>")}
		bin := &part{hdr: []hfield{{"Content-Type", "application/octet-stream"}, {"Content-Transfer-Encoding", "base64"}, {"Content-Disposition", `attachment; filename="a.bin"`}},
			body: []byte("AAECAwQFBgc=")}
		return &part{hdr: h, multi: true, boundary: "b1", kids: []*part{text("first part " + w + "\r\nmore"), html, bin}}
	case 3: // multipart with an embedded message
		h := append(append([]hfield{}, base...), hfield{"MIME-Version", "1.0"}, hfield{"Content-Type", `multipart/mixed; boundary=outer`})
		inner := &part{hdr: []hfield{{"From", people[(v+2)%len(people)]}, {"Subject", "inner " + w2}, {"Date", sentDates[(v+1)%len(sentDates)].hdr}}, body: []byte("inner body " + w + "\r\n")}
		emb := &part{hdr: []hfield{{"Content-Type", "message/rfc822"}}, msg: inner}
		return &part{hdr: h, multi: true, boundary: "outer", kids: []*part{text("see attached " + w), emb}}
	case 4: // nested multipart
		h := append(append([]hfield{}, base...), hfield{"Content-Type", `multipart/mixed; boundary=o2`})
		alt := &part{hdr: []hfield{{"Content-Type", `multipart/alternative; boundary=i2`}}, multi: true, boundary: "i2",
			kids: []*part{text("plain " + w), {hdr: []hfield{{"Content-Type", "text/html"}}, body: []byte("<b>" + w + "</b>")}}}
		return &part{hdr: h, multi: true, boundary: "o2", kids: []*part{alt, text("trailer " + w2)}}
	case 5: // minimal, empty body, no Date
		return &part{hdr: []hfield{{"Subject", "min " + w}}, body: nil}
	case 6: // 8-bit body, no Date header
		return &part{hdr: []hfield{{"From", from}, {"Subject", "utf8 " + w}, {"Content-Type", "text/plain; charset=utf-8"}}, body: []byte("Grüße " + w + " ünïcode\r\n")}
	default: // 7: multipart without any part
		h := append(append([]hfield{}, base...), hfield{"Content-Type", `multipart/mixed; boundary=none`})
		return &part{hdr: h, multi: true, boundary: "none"}
	}
}

const nTemplates = 8

// ---------------------------------------------------------------- store model

type msg struct {
	uid       uint32
	flags     map[string]bool // lower-cased
	date      time.Time       // internal date; zero when stamped by the server
	dateKnown bool
	p         *part
	raw       []byte
	label     string
}

func (m *msg) flagList() string {
	var l []string
	for f := range m.flags {
		l = append(l, f)
	}
	sort.Strings(l)
	return strings.Join(l, " ")
}

type box struct {
	uidNext   uint32
	validity  uint32 // learned from the wire on first sight, 0 = not seen yet
	msgs      []*msg
	subscribed bool
	version   int // bumps when the message list changes
	pastUIDs  map[uint32]bool
}

type store struct {
	boxes map[string]*box
	// validities ever seen per name, for "differs after delete + recreate"
	past map[string][]uint32
	mutations int
}

func newStore() *store {
	return &store{boxes: map[string]*box{}, past: map[string][]uint32{}}
}

func canonName(n string) string {
	if strings.EqualFold(n, "INBOX") {
		return "INBOX"
	}
	return n
}

func (s *store) create(name string) bool {
	name = strings.TrimRight(canonName(name), "/")
	if s.boxes[name] != nil {
		return false
	}
	s.boxes[name] = &box{uidNext: 1, pastUIDs: map[uint32]bool{}}
	return true
}

func (b *box) add(m *msg) {
	m.uid = b.uidNext
	b.uidNext++
	b.msgs = append(b.msgs, m)
	b.version++
}

func (b *box) remove(dead map[*msg]bool) {
	var keep []*msg
	for _, m := range b.msgs {
		if !dead[m] {
			keep = append(keep, m)
		}
	}
	if len(keep) != len(b.msgs) {
		b.version++
	}
	b.msgs = keep
}

func (b *box) count(flag string, want bool) int {
	n := 0
	for _, m := range b.msgs {
		if m.flags[flag] == want {
			n++
		}
	}
	return n
}

func (b *box) size() int {
	n := 0
	for _, m := range b.msgs {
		n += len(m.raw)
	}
	return n
}

func clone(m *msg) *msg {
	c := *m
	c.flags = map[string]bool{}
	for f := range m.flags {
		c.flags[f] = true
	}
	return &c
}

// ---------------------------------------------------------------- number sets

// numset is a parsed sequence set; 0 stands for '*'.
type numset [][2]uint32

func (ns numset) String() string {
	var parts []string
	e := func(v uint32) string {
		if v == 0 {
			return "*"
		}
		return fmt.Sprint(v)
	}
	for _, r := range ns {
		if r[0] == r[1] {
			parts = append(parts, e(r[0]))
		} else {
			parts = append(parts, e(r[0])+":"+e(r[1]))
		}
	}
	return strings.Join(parts, ",")
}

// contains: RFC 3501 semantics, '*' = max (the largest number in use); when the
// mailbox is empty nothing matches.
func (ns numset) contains(n, max uint32) bool {
	if max == 0 {
		return false
	}
	for _, r := range ns {
		a, b := r[0], r[1]
		if a == 0 {
			a = max
		}
		if b == 0 {
			b = max
		}
		if a > b {
			a, b = b, a
		}
		if n >= a && n <= b {
			return true
		}
	}
	return false
}
