// Package c09 checks C09: the in-memory backend behind a real imapserver
// agrees with a reference mailbox model on every command of generated
// histories, and no syntactically valid command takes the connection down.
package c09

import (
	"fmt"
	"sort"
	"strconv"
	"strings"
	"testing"
	"time"

	"github.com/emersion/go-imap/v2/verifh/kit/ev"
	"github.com/emersion/go-imap/v2/verifh/kit/mem"
	"github.com/emersion/go-imap/v2/verifh/kit/tok"
	"pgregory.net/rapid"
)

func TestMain(m *testing.M) { ev.Main(m) }

type fataler interface {
	Fatalf(string, ...any)
}

type sess struct {
	c    *mem.Conn
	sel  *box
	name string
	view []*msg // messages announced to this session, in order
	seen int
	// saved: UIDs of the last SEARCH RETURN (SAVE) in the current selection
	// ("$", RFC 5182); nil after (re-)selecting
	saved map[uint32]bool
}

type world struct {
	t       fataler
	w       *mem.World
	st      *store
	ss      []*sess
	hist    []string
	t0      time.Time
	queries int // queries issued after >= 3 mutations
	classes map[string]int
}

func (wd *world) fail(f string, a ...any) {
	msg := fmt.Sprintf(f, a...)
	var log []string
	for _, s := range wd.ss {
		l := s.c.Log
		if len(l) > 60 {
			l = append([]string{"…"}, l[len(l)-60:]...)
		}
		log = append(log, l...)
	}
	wd.t.Fatalf("%s\nhistory:\n  %s\ntranscripts (tail):\n  %s", msg, strings.Join(wd.hist, "\n  "), strings.Join(log, "\n  "))
}

func (wd *world) stale(s *sess) bool { return s.sel != nil && s.sel.version != s.seen }

// run sends a command, checks that the connection survives and that the wire
// invariants hold, and applies the polling rule to the session's view.
func (wd *world) run(s *sess, name string, uid bool, text string) ([]*tok.Line, *tok.Line) {
	wd.hist = append(wd.hist, fmt.Sprintf("S%d %s", s.c.ID, text))
	wd.classes["cmd:"+name]++
	lines, st, err := s.c.Do(name, uid, text)
	wd.post(s, name, uid, text, st, err)
	return lines, st
}

func (wd *world) post(s *sess, name string, uid bool, text string, st *tok.Line, err error) {
	if err != nil {
		wd.fail("session %d: %q made the connection fail: %v (server log: %v)", s.c.ID, text, err, wd.w.Env.Log.Lines())
	}
	wd.hist[len(wd.hist)-1] += " -> " + st.Status
	if ps := wd.w.Env.Log.Panics(); len(ps) > 0 {
		wd.fail("session %d: %q: the server reported a panic: %s", s.c.ID, text, strings.Join(ps, " | "))
	}
	if st.Status == "BAD" {
		wd.fail("session %d: syntactically valid command %q was answered %s", s.c.ID, text, strings.TrimSpace(string(st.Raw)))
	}
	if v := s.c.Obs.Violations; len(v) > 0 {
		wd.fail("session %d, answering %q: %s", s.c.ID, text, strings.Join(v, "; "))
	}
	if s.sel == nil || st.Status != "OK" {
		return
	}
	if !uid && (name == "FETCH" || name == "STORE" || name == "SEARCH") {
		return // partial poll; the harness only issues these in sync
	}
	// full poll: the session has been told everything
	s.view = append([]*msg(nil), s.sel.msgs...)
	s.seen = s.sel.version
	got := s.c.Obs.View
	if len(got) != len(s.view) {
		wd.fail("session %d after %q: the server has announced %d messages in %s, the model holds %d (UIDs %v)", s.c.ID, text, len(got), s.name, len(s.view), uids(s.view))
	}
	for i, u := range got {
		if u != 0 && u != s.view[i].uid {
			wd.fail("session %d after %q: message %d was reported with UID %d, the model says %d (%v)", s.c.ID, text, i+1, u, s.view[i].uid, uids(s.view))
		}
	}
}

func uids(l []*msg) []uint32 {
	var o []uint32
	for _, m := range l {
		o = append(o, m.uid)
	}
	return o
}

func (wd *world) sync(s *sess) {
	if wd.stale(s) {
		wd.run(s, "NOOP", false, "NOOP")
	}
}

func (wd *world) mutated() { wd.st.mutations++ }
func (wd *world) query(kind string) {
	if wd.st.mutations >= 3 {
		wd.queries++
	}
	wd.classes["query:"+kind]++
}

// code extracts a response code "[NAME args...]" of a status line.
func code(l *tok.Line, name string) ([]string, bool) {
	f := strings.Fields(l.Code)
	if len(f) > 0 && strings.EqualFold(f[0], name) {
		return f[1:], true
	}
	return nil, false
}

func parseSet(s string) (numset, bool) {
	var ns numset
	for _, p := range strings.Split(s, ",") {
		a, b, isRange := strings.Cut(p, ":")
		x, err := strconv.ParseUint(a, 10, 32)
		if err != nil {
			return nil, false
		}
		y := x
		if isRange {
			if y, err = strconv.ParseUint(b, 10, 32); err != nil {
				return nil, false
			}
		}
		ns = append(ns, [2]uint32{uint32(x), uint32(y)})
	}
	return ns, true
}

func expand(ns numset) []uint32 {
	var out []uint32
	for _, r := range ns {
		a, b := r[0], r[1]
		if a > b {
			a, b = b, a
		}
		for v := a; v <= b && len(out) < 10000; v++ {
			out = append(out, v)
		}
	}
	sort.Slice(out, func(i, j int) bool { return out[i] < out[j] })
	return out
}

// checkValidity learns / verifies the UIDVALIDITY of a mailbox incarnation.
func (wd *world) checkValidity(name string, b *box, v uint32, where string) {
	if v == 0 {
		wd.fail("%s: UIDVALIDITY 0 for %s", where, name)
	}
	if b.validity == 0 {
		for _, old := range wd.st.past[name] {
			if old == v {
				wd.fail("%s: mailbox %s was deleted and recreated but has the UIDVALIDITY %d of an earlier incarnation", where, name, v)
			}
		}
		b.validity = v
		return
	}
	if b.validity != v {
		wd.fail("%s: UIDVALIDITY of %s changed from %d to %d without the mailbox being recreated", where, name, b.validity, v)
	}
}

// ---------------------------------------------------------------- generators

func pick(t *rapid.T, label string, n int) int {
	// rapid favours small values; scramble for a flat choice
	v := rapid.Uint64().Draw(t, label)
	v = (v ^ (v >> 30)) * 0xbf58476d1ce4e5b9
	v = (v ^ (v >> 27)) * 0x94d049bb133111eb
	v ^= v >> 31
	return int(v % uint64(n))
}

func genSet(t *rapid.T, max uint32) numset {
	hi := int(max) + 2
	var ns numset
	for i, k := 0, rapid.IntRange(1, 3).Draw(t, "nranges"); i < k; i++ {
		switch pick(t, "rk", 10) {
		case 0, 1, 2, 3, 4:
			v := uint32(rapid.IntRange(1, hi).Draw(t, "n"))
			ns = append(ns, [2]uint32{v, v})
		case 5:
			ns = append(ns, [2]uint32{0, 0})
		case 6:
			ns = append(ns, [2]uint32{uint32(rapid.IntRange(1, hi+3).Draw(t, "from")), 0})
		case 7:
			ns = append(ns, [2]uint32{0, uint32(rapid.IntRange(1, hi).Draw(t, "to"))})
		default:
			ns = append(ns, [2]uint32{uint32(rapid.IntRange(1, hi).Draw(t, "a")), uint32(rapid.IntRange(1, hi).Draw(t, "b"))})
		}
	}
	return ns
}

var namePool = []string{"INBOX", "A", "B", "A/x", "B/y/z", "C d", "inbox", "Inbox"}

func quoteName(n string) string {
	if strings.ContainsAny(n, " ") {
		return `"` + n + `"`
	}
	return n
}

var flagPool = []string{`\Seen`, `\Deleted`, `\Flagged`, `\Answered`, `\Draft`, "kw1", "KW1", "$Forwarded", `\deleted`, `\SEEN`}

func genFlags(t *rapid.T) []string {
	var l []string
	for i, k := 0, rapid.IntRange(0, 3).Draw(t, "nflags"); i < k; i++ {
		l = append(l, flagPool[pick(t, "flag", len(flagPool))])
	}
	return l
}

var appendDates = []struct {
	text string
	t    time.Time
}{
	{"01-Jan-2001 00:00:00 +0000", time.Date(2001, 1, 1, 0, 0, 0, 0, time.UTC)},
	{"15-Jun-2002 23:59:59 -0500", time.Date(2002, 6, 15, 23, 59, 59, 0, time.FixedZone("", -5*3600))},
	{"16-Jun-2002 00:00:01 +0200", time.Date(2002, 6, 16, 0, 0, 1, 0, time.FixedZone("", 2*3600))},
	{" 5-Mar-2010 12:30:00 +0530", time.Date(2010, 3, 5, 12, 30, 0, 0, time.FixedZone("", 5*3600+1800))},
	{"31-Dec-2003 23:00:00 -0100", time.Date(2003, 12, 31, 23, 0, 0, 0, time.FixedZone("", -3600))},
}

var searchDays = []string{"1-Jan-2001", "15-Jun-2002", "16-Jun-2002", "17-Jun-2002", "31-Dec-2003", "1-Jan-2004", "5-Mar-2010", "1-Jan-1999", "1-Jan-2030"}

func parseDay(s string) time.Time {
	t, err := time.Parse("2-Jan-2006", s)
	if err != nil {
		panic(err)
	}
	return t
}

// dayOf: the calendar day of t in t's own zone, as a UTC midnight.
func dayOf(t time.Time) time.Time {
	return time.Date(t.Year(), t.Month(), t.Day(), 0, 0, 0, 0, time.UTC)
}

// ---------------------------------------------------------------- search keys

type skey struct {
	kind string
	arg  string
	arg2 string
	set  numset
	kids []*skey
}

func (k *skey) String() string {
	switch k.kind {
	case "SEQ":
		return k.set.String()
	case "UID":
		return "UID " + k.set.String()
	case "NOT":
		return "NOT " + k.kids[0].String()
	case "OR":
		return "OR " + k.kids[0].String() + " " + k.kids[1].String()
	case "AND":
		var p []string
		for _, c := range k.kids {
			p = append(p, c.String())
		}
		return "(" + strings.Join(p, " ") + ")"
	case "HEADER":
		return "HEADER " + k.arg + " " + strconv.Quote(k.arg2)
	}
	if k.arg != "" {
		if strings.ContainsAny(k.arg, " @") || k.kind == "SUBJECT" || k.kind == "BODY" || k.kind == "TEXT" || k.kind == "FROM" || k.kind == "TO" || k.kind == "CC" {
			return k.kind + " " + strconv.Quote(k.arg)
		}
		return k.kind + " " + k.arg
	}
	return k.kind
}

var flagKeys = map[string]struct {
	flag string
	want bool
}{
	"ANSWERED": {`\answered`, true}, "DELETED": {`\deleted`, true}, "DRAFT": {`\draft`, true}, "FLAGGED": {`\flagged`, true}, "SEEN": {`\seen`, true},
	"UNANSWERED": {`\answered`, false}, "UNDELETED": {`\deleted`, false}, "UNDRAFT": {`\draft`, false}, "UNFLAGGED": {`\flagged`, false}, "UNSEEN": {`\seen`, false},
}

var flagKeyNames = []string{"ANSWERED", "DELETED", "DRAFT", "FLAGGED", "SEEN", "UNANSWERED", "UNDELETED", "UNDRAFT", "UNFLAGGED", "UNSEEN"}

func genKey(t *rapid.T, depth int, nmsgs, maxuid uint32, sizes []int) *skey {
	n := 16
	if depth >= 3 {
		n = 13
	}
	switch pick(t, "keykind", n) {
	case 0:
		return &skey{kind: "ALL"}
	case 1, 2:
		return &skey{kind: flagKeyNames[pick(t, "flagkey", len(flagKeyNames))]}
	case 3:
		return &skey{kind: []string{"KEYWORD", "UNKEYWORD"}[pick(t, "kw", 2)], arg: []string{"kw1", "KW1", "$Forwarded", "nosuch"}[pick(t, "kwname", 4)]}
	case 4:
		return &skey{kind: "SEQ", set: genSet(t, nmsgs)}
	case 5:
		return &skey{kind: "UID", set: genSet(t, maxuid)}
	case 6:
		pool := []int{0, 1, 100000}
		for _, n := range sizes { // the boundaries that matter: sizes of actual messages and their neighbours
			pool = append(pool, n-1, n, n+1)
		}
		kind, v := []string{"LARGER", "SMALLER"}[pick(t, "sz", 2)], pool[pick(t, "szv", len(pool))]
		if kind == "SMALLER" && v == 0 {
			// known finding F-C09e: SearchCriteria cannot express SMALLER 0
			ev.Excluded("F-C09e")
			v = 1
		}
		return &skey{kind: kind, arg: fmt.Sprint(v)}
	case 7:
		return &skey{kind: []string{"BEFORE", "ON", "SINCE"}[pick(t, "dk", 3)], arg: searchDays[pick(t, "day", len(searchDays))]}
	case 8:
		return &skey{kind: []string{"SENTBEFORE", "SENTON", "SENTSINCE"}[pick(t, "sdk", 3)], arg: searchDays[pick(t, "day", len(searchDays))]}
	case 9:
		return &skey{kind: []string{"SUBJECT", "FROM", "TO", "CC"}[pick(t, "hk", 4)], arg: []string{"alpha", "BETA", "gamma", "example.org", "bob@", "Topic", "inner", "zzz", "Sender"}[pick(t, "hv", 9)]}
	case 10:
		return &skey{kind: "HEADER", arg: []string{"X-Custom", "Message-ID", "subject", "Content-Type", "X-Missing"}[pick(t, "hn", 5)], arg2: []string{"", "value", "second", "multipart", "0.", "nothing"}[pick(t, "hv2", 6)]}
	case 11:
		return &skey{kind: []string{"BODY", "TEXT"}[pick(t, "bt", 2)], arg: []string{"alpha", "body", "HELLO", "Subject", "boundary", "inner", "code", "AAEC", "zzz", "Topic"}[pick(t, "bv", 10)]}
	case 12:
		return &skey{kind: []string{"NEW", "OLD", "RECENT"}[pick(t, "rk2", 3)]}
	case 13:
		return &skey{kind: "NOT", kids: []*skey{genKey(t, depth+1, nmsgs, maxuid, sizes)}}
	case 14:
		return &skey{kind: "OR", kids: []*skey{genKey(t, depth+1, nmsgs, maxuid, sizes), genKey(t, depth+1, nmsgs, maxuid, sizes)}}
	default:
		return &skey{kind: "AND", kids: []*skey{genKey(t, depth+1, nmsgs, maxuid, sizes), genKey(t, depth+1, nmsgs, maxuid, sizes)}}
	}
}

func containsFold(h, n string) bool { return strings.Contains(strings.ToLower(h), strings.ToLower(n)) }

// match: RFC 3501 6.4.4 over the model.
func (k *skey) match(m *msg, seq, nmsgs, maxuid uint32, now time.Time) bool {
	switch k.kind {
	case "ALL", "OLD":
		return true
	case "NEW", "RECENT":
		return false // the backend never sets \Recent
	case "KEYWORD":
		return m.flags[strings.ToLower(k.arg)]
	case "UNKEYWORD":
		return !m.flags[strings.ToLower(k.arg)]
	case "SEQ":
		return k.set.contains(seq, nmsgs)
	case "UID":
		return k.set.contains(m.uid, maxuid)
	case "LARGER":
		n, _ := strconv.Atoi(k.arg)
		return len(m.raw) > n
	case "SMALLER":
		n, _ := strconv.Atoi(k.arg)
		return len(m.raw) < n
	case "BEFORE", "ON", "SINCE":
		d := m.date
		if !m.dateKnown {
			d = now
		}
		return cmpDay(k.kind, dayOf(d), parseDay(k.arg))
	case "SENTBEFORE", "SENTON", "SENTSINCE":
		v, ok := m.p.get("Date")
		if !ok {
			return false
		}
		for _, sd := range sentDates {
			if sd.hdr == v {
				return cmpDay(k.kind[4:], dayOf(sd.t), parseDay(k.arg))
			}
		}
		panic("unknown Date header " + v)
	case "SUBJECT", "FROM", "TO", "CC":
		for _, v := range m.p.values(k.kind) {
			if containsFold(v, k.arg) {
				return true
			}
		}
		return false
	case "HEADER":
		vs := m.p.values(k.arg)
		if len(vs) == 0 {
			return false
		}
		if k.arg2 == "" {
			return true
		}
		for _, v := range vs {
			if containsFold(v, k.arg2) {
				return true
			}
		}
		return false
	case "BODY":
		return containsFold(string(m.p.content()), k.arg)
	case "TEXT":
		return containsFold(string(m.raw), k.arg)
	case "NOT":
		return !k.kids[0].match(m, seq, nmsgs, maxuid, now)
	case "OR":
		return k.kids[0].match(m, seq, nmsgs, maxuid, now) || k.kids[1].match(m, seq, nmsgs, maxuid, now)
	case "AND":
		for _, c := range k.kids {
			if !c.match(m, seq, nmsgs, maxuid, now) {
				return false
			}
		}
		return true
	}
	if fk, ok := flagKeys[k.kind]; ok {
		return m.flags[fk.flag] == fk.want
	}
	panic("unknown key " + k.kind)
}

func cmpDay(kind string, d, ref time.Time) bool {
	switch kind {
	case "BEFORE":
		return d.Before(ref)
	case "ON":
		return d.Equal(ref)
	default:
		return !d.Before(ref)
	}
}

// usesSent: SENTBEFORE/SENTON/SENTSINCE compare the Date header; what they
// mean for a message without one is not defined by the RFC.
func (k *skey) usesSent() bool {
	if strings.HasPrefix(k.kind, "SENT") {
		return true
	}
	for _, c := range k.kids {
		if c.usesSent() {
			return true
		}
	}
	return false
}

func (k *skey) usesSeq() bool {
	if k.kind == "SEQ" {
		return true
	}
	for _, c := range k.kids {
		if c.usesSeq() {
			return true
		}
	}
	return false
}

// ---------------------------------------------------------------- fetch items

type fitem struct {
	req  string // request text
	key  string // response item name
	want func(m *msg) (val []byte, defined bool)
	kind string // "bytes", "size", "flags", "uid", "date", "opaque"
	seen bool   // sets \Seen
}

func genSection(t *rapid.T) (req, key string, f func(m *msg) ([]byte, bool), seen bool, class string) {
	var path []int
	for i, k := 0, []int{0, 0, 0, 1, 1, 1, 2, 2, 3}[pick(t, "depth", 9)]; i < k; i++ {
		path = append(path, []int{1, 1, 2, 2, 3, 4}[pick(t, "partnum", 6)])
	}
	specs := []string{"", "HEADER", "TEXT", "HEADER.FIELDS", "HEADER.FIELDS.NOT"}
	if len(path) > 0 {
		specs = []string{"", "", "MIME", "HEADER", "TEXT", "HEADER.FIELDS"}
	}
	spec := specs[pick(t, "spec", len(specs))]
	var fields []string
	sec := ""
	var pp []string
	for _, n := range path {
		pp = append(pp, fmt.Sprint(n))
	}
	sec = strings.Join(pp, ".")
	if spec != "" {
		if sec != "" {
			sec += "."
		}
		sec += spec
	}
	if strings.HasPrefix(spec, "HEADER.FIELDS") {
		all := []string{"Subject", "from", "DATE", "X-Custom", "Content-Type", "X-Missing", "To"}
		for i, k := 0, rapid.IntRange(1, 3).Draw(t, "nfields"); i < k; i++ {
			fields = append(fields, all[pick(t, "field", len(all))])
		}
		sec += " (" + strings.Join(fields, " ") + ")"
	}
	peek := rapid.IntRange(0, 3).Draw(t, "peek") != 0
	verb := "BODY"
	if peek {
		verb = "BODY.PEEK"
	}
	partial := ""
	origin := ""
	off, size := int64(-1), int64(0)
	if rapid.IntRange(0, 2).Draw(t, "partial") == 0 {
		offs := []int64{0, 0, 1, 5, 20, 100, 1000, 100000, 1 << 31, 1<<63 - 1, 1<<63 - 2}
		sizes := []int64{1, 1, 2, 10, 50, 1000, 1 << 31, 1<<63 - 1, 1 << 62}
		off, size = offs[pick(t, "off", len(offs))], sizes[pick(t, "size", len(sizes))]
		partial = fmt.Sprintf("<%d.%d>", off, size)
		origin = fmt.Sprintf("<%d>", off)
	}
	req = fmt.Sprintf("%s[%s]%s", verb, sec, partial)
	key = strings.ToUpper(fmt.Sprintf("BODY[%s]%s", sec, origin))
	class = "section:" + spec
	if len(path) > 0 {
		class += "@part"
	}
	if off >= 0 {
		class += "+partial"
	}
	if off > 1<<32-1 {
		// the origin octet of the response is a 32-bit number (RFC 3501/9051
		// "number"): what a server echoes for a larger offset is not defined,
		// such requests are only required not to take the connection down
		key = ""
	}
	f = func(m *msg) ([]byte, bool) {
		b, ok := section(m.p, path, spec, fields)
		if !ok {
			return nil, false
		}
		if off >= 0 {
			if off >= int64(len(b)) {
				return nil, true
			}
			end := int64(len(b))
			if size < end-off {
				end = off + size
			}
			b = b[off:end]
		}
		return b, true
	}
	return req, key, f, !peek, class
}
