// Package c15 decides property C15: message number sets behave as
// mathematical sets under RFC semantics. Oracle: an explicit reference model
// (union of the inserted intervals, computed with 64-bit arithmetic) from which
// the expected canonical representation, membership, dynamic-ness, text form
// and enumeration are derived independently of internal/imapnum.
package c15

import (
	"fmt"
	"os"
	"os/exec"
	"regexp"
	"sort"
	"strconv"
	"strings"
	"syscall"
	"testing"
	"time"

	imap "github.com/emersion/go-imap/v2"
	"github.com/emersion/go-imap/v2/internal/imapnum"
	"github.com/emersion/go-imap/v2/internal/imapwire"
	"github.com/emersion/go-imap/v2/verifh/kit/ev"
	"pgregory.net/rapid"
)

func TestMain(m *testing.M) { ev.Main(m) }

const maxU = uint64(^uint32(0))

// ---------------------------------------------------------------- model

// item is one inserted value: a static interval [lo,hi], an open interval
// "lo:*" (open), or the bare "*" (star).
type item struct {
	lo, hi uint64
	open   bool
	star   bool
}

func itemNum(v uint32) item {
	if v == 0 {
		return item{star: true}
	}
	return item{lo: uint64(v), hi: uint64(v)}
}

func itemRange(a, b uint32) item {
	switch {
	case a == 0 && b == 0:
		return item{star: true}
	case a == 0:
		return item{lo: uint64(b), open: true}
	case b == 0:
		return item{lo: uint64(a), open: true}
	case a <= b:
		return item{lo: uint64(a), hi: uint64(b)}
	default:
		return item{lo: uint64(b), hi: uint64(a)}
	}
}

func (it item) contains(q uint64) bool {
	if it.star || q == 0 {
		return false
	}
	if it.open {
		return q >= it.lo
	}
	return it.lo <= q && q <= it.hi
}

type model []item

func (m model) contains(q uint64) bool {
	for _, it := range m {
		if it.contains(q) {
			return true
		}
	}
	return false
}

func (m model) dynamic() bool {
	for _, it := range m {
		if it.open || it.star {
			return true
		}
	}
	return false
}

// canonical computes the unique sorted/disjoint/non-adjacent representation.
func (m model) canonical() []imapnum.Range {
	var st [][2]uint64
	openLo, hasOpen, hasStar := uint64(0), false, false
	for _, it := range m {
		switch {
		case it.star:
			hasStar = true
		case it.open:
			if !hasOpen || it.lo < openLo {
				openLo = it.lo
			}
			hasOpen = true
		default:
			st = append(st, [2]uint64{it.lo, it.hi})
		}
	}
	sort.Slice(st, func(i, j int) bool { return st[i][0] < st[j][0] || (st[i][0] == st[j][0] && st[i][1] < st[j][1]) })
	var merged [][2]uint64
	for _, r := range st {
		if n := len(merged); n > 0 && r[0] <= merged[n-1][1]+1 {
			if r[1] > merged[n-1][1] {
				merged[n-1][1] = r[1]
			}
			continue
		}
		merged = append(merged, r)
	}
	var out []imapnum.Range
	if hasOpen {
		// absorb every static interval that touches or overlaps [openLo, inf)
		for len(merged) > 0 && merged[len(merged)-1][1]+1 >= openLo {
			if merged[len(merged)-1][0] < openLo {
				openLo = merged[len(merged)-1][0]
			}
			merged = merged[:len(merged)-1]
		}
	}
	for _, r := range merged {
		out = append(out, imapnum.Range{Start: uint32(r[0]), Stop: uint32(r[1])})
	}
	if hasOpen {
		out = append(out, imapnum.Range{Start: uint32(openLo), Stop: 0})
	} else if hasStar {
		out = append(out, imapnum.Range{Start: 0, Stop: 0})
	}
	return out
}

// members enumerates a static model (caller guarantees small width).
func (m model) members() []uint32 {
	var out []uint32
	for _, r := range m.canonical() {
		for n := uint64(r.Start); n <= uint64(r.Stop); n++ {
			out = append(out, uint32(n))
		}
	}
	return out
}

func (m model) staticWidth() uint64 {
	var w uint64
	for _, r := range m.canonical() {
		if r.Stop == 0 {
			continue
		}
		w += uint64(r.Stop) - uint64(r.Start) + 1
	}
	return w
}

func (m model) text() string {
	var parts []string
	for _, r := range m.canonical() {
		switch {
		case r.Start == 0:
			parts = append(parts, "*")
		case r.Stop == 0:
			parts = append(parts, fmt.Sprintf("%d:*", r.Start))
		case r.Start == r.Stop:
			parts = append(parts, fmt.Sprintf("%d", r.Start))
		default:
			parts = append(parts, fmt.Sprintf("%d:%d", r.Start, r.Stop))
		}
	}
	return strings.Join(parts, ",")
}

// ---------------------------------------------------------------- SUT triple

// sut runs every operation on the three public flavours.
type sut struct {
	raw imapnum.Set
	seq imap.SeqSet
	uid imap.UIDSet
}

type op struct {
	kind string // num, range, set
	a, b uint32
	nums []uint32
	sub  []op
}

func (o op) String() string {
	switch o.kind {
	case "num":
		return fmt.Sprintf("AddNum(%v)", o.nums)
	case "range":
		return fmt.Sprintf("AddRange(%d,%d)", o.a, o.b)
	case "arg":
		return fmt.Sprintf("on-an-earlier-AddSet-argument:%v", o.sub)
	default:
		return fmt.Sprintf("AddSet(%v)", o.sub)
	}
}

func (s *sut) apply(o op) {
	switch o.kind {
	case "num":
		s.raw.AddNum(o.nums...)
		s.seq.AddNum(o.nums...)
		u := make([]imap.UID, len(o.nums))
		for i, n := range o.nums {
			u[i] = imap.UID(n)
		}
		s.uid.AddNum(u...)
	case "range":
		s.raw.AddRange(o.a, o.b)
		s.seq.AddRange(o.a, o.b)
		s.uid.AddRange(imap.UID(o.a), imap.UID(o.b))
	case "set":
		var other sut
		for _, so := range o.sub {
			other.apply(so)
		}
		s.raw.AddSet(other.raw)
		s.seq.AddSet(other.seq)
		s.uid.AddSet(other.uid)
	}
}

func (m *model) apply(o op) {
	switch o.kind {
	case "num":
		for _, n := range o.nums {
			*m = append(*m, itemNum(n))
		}
	case "range":
		*m = append(*m, itemRange(o.a, o.b))
	case "set":
		var other model
		for _, so := range o.sub {
			other.apply(so)
		}
		// AddSet inserts the other set's canonical entries
		for _, r := range other.canonical() {
			*m = append(*m, itemRange(r.Start, r.Stop))
		}
	}
}

type fataler interface {
	Fatalf(format string, args ...any)
}

func rangesEqual(a, b []imapnum.Range) bool {
	if len(a) != len(b) {
		return false
	}
	for i := range a {
		if a[i] != b[i] {
			return false
		}
	}
	return true
}

// boundarySafe says whether Nums() may be invoked in-process: enumerating a
// static range that ends at 2^32-1 is only done in the child-process probe
// (an implementation whose loop counter wraps would never return and exhaust
// memory, which cannot be recovered in-process).
func boundarySafe(m model) bool {
	for _, r := range m.canonical() {
		if r.Stop == ^uint32(0) {
			return false
		}
	}
	return true
}

// checkAll compares the three flavours with the model. probes are the numbers
// whose membership is compared.
func checkAll(t fataler, s *sut, m model, probes []uint32, hist any) {
	want := m.canonical()
	raw := []imapnum.Range(s.raw)
	seq := make([]imapnum.Range, len(s.seq))
	for i, r := range s.seq {
		seq[i] = imapnum.Range{Start: r.Start, Stop: r.Stop}
	}
	uid := make([]imapnum.Range, len(s.uid))
	for i, r := range s.uid {
		uid[i] = imapnum.Range{Start: uint32(r.Start), Stop: uint32(r.Stop)}
	}
	if !rangesEqual(raw, want) {
		t.Fatalf("imapnum.Set not the canonical union: got %v want %v after %v", raw, want, hist)
	}
	if !rangesEqual(seq, want) {
		t.Fatalf("SeqSet not the canonical union: got %v want %v after %v", seq, want, hist)
	}
	if !rangesEqual(uid, want) {
		t.Fatalf("UIDSet not the canonical union: got %v want %v after %v", uid, want, hist)
	}
	// explicit canonical-form invariants on the observed value (independent
	// of the expected slice)
	for i, r := range raw {
		if r.Stop == 0 && i != len(raw)-1 {
			t.Fatalf("dynamic entry not last: %v after %v", raw, hist)
		}
		if r.Stop != 0 && (r.Start == 0 || r.Start > r.Stop) {
			t.Fatalf("malformed static entry %v in %v after %v", r, raw, hist)
		}
		if i > 0 {
			p := raw[i-1]
			if r.Start != 0 && uint64(p.Stop)+1 >= uint64(r.Start) {
				t.Fatalf("entries overlap or touch: %v after %v", raw, hist)
			}
		}
	}
	for _, q := range probes {
		w := m.contains(uint64(q))
		if g := s.raw.Contains(q); g != w {
			t.Fatalf("imapnum.Set%v.Contains(%d)=%v want %v after %v", raw, q, g, w, hist)
		}
		if g := s.seq.Contains(q); g != w {
			t.Fatalf("SeqSet%v.Contains(%d)=%v want %v after %v", raw, q, g, w, hist)
		}
		if g := s.uid.Contains(imap.UID(q)); g != w {
			t.Fatalf("UIDSet%v.Contains(%d)=%v want %v after %v", raw, q, g, w, hist)
		}
	}
	wd := m.dynamic()
	if s.raw.Dynamic() != wd || s.seq.Dynamic() != wd || s.uid.Dynamic() != wd {
		t.Fatalf("Dynamic()=%v/%v/%v want %v for %v after %v", s.raw.Dynamic(), s.seq.Dynamic(), s.uid.Dynamic(), wd, raw, hist)
	}
	wt := m.text()
	if s.raw.String() != wt || s.seq.String() != wt || s.uid.String() != wt {
		t.Fatalf("String()=%q/%q/%q want %q after %v", s.raw.String(), s.seq.String(), s.uid.String(), wt, hist)
	}
	if len(m) > 0 {
		back, err := imapnum.ParseSet(s.raw.String())
		if err != nil || !rangesEqual([]imapnum.Range(back), want) {
			t.Fatalf("ParseSet(String()=%q) = %v, %v; want %v", s.raw.String(), back, err, want)
		}
		back2, err := imapwire.ParseSeqSet(s.seq.String())
		if err != nil || back2.String() != wt {
			t.Fatalf("ParseSeqSet(%q) = %v, %v", s.seq.String(), back2, err)
		}
	} else if s.raw.String() != "" {
		t.Fatalf("empty set renders as %q", s.raw.String())
	}
	// enumeration (only when the static part is small: Nums() is linear in
	// the numeric width by design, and only away from 2^32-1 in-process)
	if m.staticWidth() > 4096 {
		ev.Class("nums-skipped-width>4096")
		return
	}
	if !boundarySafe(m) {
		ev.Class("nums-at-2^32-1-deferred-to-child-probe")
		return
	}
	if wd {
		if _, ok := s.raw.Nums(); ok {
			t.Fatalf("Nums() ok on dynamic set %v", raw)
		}
		if _, ok := s.seq.Nums(); ok {
			t.Fatalf("SeqSet.Nums() ok on dynamic set %v", raw)
		}
		if _, ok := s.uid.Nums(); ok {
			t.Fatalf("UIDSet.Nums() ok on dynamic set %v", raw)
		}
	} else {
		wantN := m.members()
		gotN, ok := s.raw.Nums()
		if !ok || !u32Equal(gotN, wantN) {
			t.Fatalf("Nums()=%v,%v want %v for %v", gotN, ok, wantN, raw)
		}
		gotS, ok := s.seq.Nums()
		if !ok || !u32Equal(gotS, wantN) {
			t.Fatalf("SeqSet.Nums()=%v,%v want %v for %v", gotS, ok, wantN, raw)
		}
		gotU, ok := s.uid.Nums()
		if !ok || len(gotU) != len(wantN) {
			t.Fatalf("UIDSet.Nums()=%v,%v want %v for %v", gotU, ok, wantN, raw)
		}
		for i := range gotU {
			if uint32(gotU[i]) != wantN[i] {
				t.Fatalf("UIDSet.Nums()=%v want %v for %v", gotU, wantN, raw)
			}
		}
	}
}

func u32Equal(a, b []uint32) bool {
	if len(a) != len(b) {
		return false
	}
	for i := range a {
		if a[i] != b[i] {
			return false
		}
	}
	return true
}

// ---------------------------------------------------------------- generators

var basePool = []uint32{0, 1, 2, 3, 4, 5, 6, 7, 8, 9, 10, 11, 12, 100, 4096, ^uint32(0) - 2, ^uint32(0) - 1, ^uint32(0)}

// genVal draws an endpoint: from the pool, or a neighbour (±1, ±2) of a value
// already used in this history (so that touching/overlapping ranges are
// common), or any uint32.
func genVal(t *rapid.T, used []uint32, label string) uint32 {
	k := rapid.IntRange(0, 9).Draw(t, label+"k")
	switch {
	case k < 5 || len(used) == 0:
		return rapid.SampledFrom(basePool).Draw(t, label)
	case k < 9:
		base := rapid.SampledFrom(used).Draw(t, label+"b")
		d := rapid.IntRange(-2, 2).Draw(t, label+"d")
		v := int64(base) + int64(d)
		if v < 0 {
			v = 0
		}
		if v > int64(maxU) {
			v = int64(maxU)
		}
		return uint32(v)
	default:
		return rapid.Uint32().Draw(t, label)
	}
}

func genOp(t *rapid.T, used *[]uint32, depth int) op {
	kinds := []string{"num", "num", "range", "range", "range"}
	if depth == 0 {
		kinds = append(kinds, "set")
	}
	switch rapid.SampledFrom(kinds).Draw(t, "kind") {
	case "num":
		n := rapid.IntRange(1, 3).Draw(t, "n")
		o := op{kind: "num"}
		for i := 0; i < n; i++ {
			v := genVal(t, *used, "v")
			o.nums = append(o.nums, v)
			*used = append(*used, v)
		}
		return o
	case "range":
		a, b := genVal(t, *used, "a"), genVal(t, *used, "b")
		*used = append(*used, a, b)
		return op{kind: "range", a: a, b: b}
	default:
		n := rapid.IntRange(0, 4).Draw(t, "subn")
		o := op{kind: "set"}
		for i := 0; i < n; i++ {
			o.sub = append(o.sub, genOp(t, used, 1))
		}
		return o
	}
}

func probesFor(used []uint32) []uint32 {
	seen := map[uint32]bool{}
	var out []uint32
	add := func(v int64) {
		if v < 0 || v > int64(maxU) {
			return
		}
		if !seen[uint32(v)] {
			seen[uint32(v)] = true
			out = append(out, uint32(v))
		}
	}
	for _, p := range basePool {
		add(int64(p))
	}
	for _, u := range used {
		add(int64(u) - 1)
		add(int64(u))
		add(int64(u) + 1)
	}
	return out
}

func countMerges(before, after int) bool { return after < before+1 }

// TestPropSetOps: histories of AddNum/AddRange/AddSet on all three flavours.
func TestPropSetOps(t *testing.T) {
	rapid.Check(t, func(t *rapid.T) {
		var s sut
		var m model
		var used []uint32
		var hist []op
		n := rapid.IntRange(1, 14).Draw(t, "steps")
		merged, big, star := false, false, false
		// argument sets of AddSet stay alive (a caller keeps using them): they
		// must not change when the receiver changes, and the receiver must not
		// change when they do
		type keptSet struct {
			s sut
			m model
		}
		var kept []*keptSet
		for i := 0; i < n; i++ {
			if len(kept) > 0 && rapid.IntRange(0, 4).Draw(t, "mutate-argument") == 0 {
				k := kept[rapid.IntRange(0, len(kept)-1).Draw(t, "which")]
				o := genOp(t, &used, 1)
				hist = append(hist, op{kind: "arg", sub: []op{o}})
				k.s.apply(o)
				k.m.apply(o)
				ev.Class("argument-set-mutated-after-AddSet")
			} else {
				o := genOp(t, &used, 0)
				hist = append(hist, o)
				before := len(s.raw)
				if o.kind == "set" {
					k := &keptSet{}
					for _, so := range o.sub {
						k.s.apply(so)
						k.m.apply(so)
					}
					s.raw.AddSet(k.s.raw)
					s.seq.AddSet(k.s.seq)
					s.uid.AddSet(k.s.uid)
					kept = append(kept, k)
				} else {
					s.apply(o)
				}
				m.apply(o)
				if len(s.raw) < before {
					merged = true
				}
			}
			probes := probesFor(used)
			checkAll(t, &s, m, probes, hist)
			for ki, k := range kept {
				checkAll(t, &k.s, k.m, probes, fmt.Sprintf("(argument set #%d of AddSet, after the later operations) %v", ki, hist))
			}
		}
		for _, u := range used {
			if u >= ^uint32(0)-1 {
				big = true
			}
			if u == 0 {
				star = true
			}
		}
		ev.Eval()
		if (len(hist) >= 3 && merged) || big || star {
			ev.NonTrivial(fmt.Sprint(hist))
		}
		if merged {
			ev.Class("merge-of-existing-ranges")
		}
		if big {
			ev.Class("value>=2^32-2")
		}
		if star {
			ev.Class("star")
		}
		for _, o := range hist {
			ev.Class("op:" + o.kind)
		}
		ev.Sample(fmt.Sprintf("%v => %q", hist, s.raw.String()))
	})
}

// ---------------------------------------------------------------- parsing

var refItem = regexp.MustCompile(`^(\*|[1-9][0-9]*)(:(\*|[1-9][0-9]*))?$`)

// refParse is the independent sequence-set parser (RFC 9051 sequence-set).
func refParse(s string) (model, bool) {
	var m model
	for _, part := range strings.Split(s, ",") {
		sub := refItem.FindStringSubmatch(part)
		if sub == nil {
			return nil, false
		}
		num := func(x string) (uint32, bool) {
			if x == "*" {
				return 0, true
			}
			v, err := strconv.ParseUint(x, 10, 64)
			if err != nil || v == 0 || v > maxU {
				return 0, false
			}
			return uint32(v), true
		}
		a, ok := num(sub[1])
		if !ok {
			return nil, false
		}
		if sub[2] == "" {
			m = append(m, itemNum(a))
			continue
		}
		b, ok := num(sub[3])
		if !ok {
			return nil, false
		}
		m = append(m, itemRange(a, b))
	}
	return m, true
}

func genNumText(t *rapid.T) string {
	switch rapid.IntRange(0, 9).Draw(t, "nk") {
	case 0, 1:
		return "*"
	case 2:
		return strconv.FormatUint(uint64(rapid.SampledFrom([]uint32{^uint32(0), ^uint32(0) - 1}).Draw(t, "big")), 10)
	case 3:
		return strconv.FormatUint(uint64(rapid.Uint32Min(1).Draw(t, "any")), 10)
	default:
		return strconv.Itoa(rapid.IntRange(1, 15).Draw(t, "small"))
	}
}

func genValidText(t *rapid.T) string {
	n := rapid.IntRange(1, 6).Draw(t, "items")
	var parts []string
	for i := 0; i < n; i++ {
		if rapid.Bool().Draw(t, "isrange") {
			parts = append(parts, genNumText(t)+":"+genNumText(t))
		} else {
			parts = append(parts, genNumText(t))
		}
	}
	return strings.Join(parts, ",")
}

var nearMisses = []string{"", "0", "01", "1:", ":1", ",", "1,,2", "4294967296", "a", "1:2:3", " 1", "1 ", "+1", "-1",
	"1:*:2", "**", "1,", ",1", "1:0", "0:1", "00", "1_0", "0x1", "1e3", "18446744073709551617", "4294967295,4294967296",
	"*:", ":*", ":", "1;2", "1.2", "$", "1:*,", "٣"}

func genText(t *rapid.T) string {
	switch rapid.IntRange(0, 9).Draw(t, "tk") {
	case 0:
		return rapid.SampledFrom(nearMisses).Draw(t, "near")
	case 1:
		return rapid.StringOfN(rapid.SampledFrom([]rune("0123456789:,*a +-$")), 0, 12, -1).Draw(t, "rand")
	case 2, 3:
		// mutate a valid text: insert/delete/replace one character
		s := []byte(genValidText(t))
		pos := rapid.IntRange(0, len(s)).Draw(t, "pos")
		ch := rapid.SampledFrom([]byte("0:,*a +-9")).Draw(t, "ch")
		switch rapid.IntRange(0, 2).Draw(t, "mut") {
		case 0:
			s = append(s[:pos], append([]byte{ch}, s[pos:]...)...)
		case 1:
			if pos < len(s) {
				s = append(s[:pos], s[pos+1:]...)
			}
		default:
			if pos < len(s) {
				s[pos] = ch
			}
		}
		return string(s)
	default:
		return genValidText(t)
	}
}

func checkParse(t fataler, text string) (valid bool) {
	m, valid := refParse(text)
	got, err := imapnum.ParseSet(text)
	gotSeq, errSeq := imapwire.ParseSeqSet(text)
	if (err == nil) != (errSeq == nil) {
		t.Fatalf("ParseSet and ParseSeqSet disagree on %q: %v vs %v", text, err, errSeq)
	}
	if !valid {
		if err == nil {
			t.Fatalf("ParseSet(%q) accepted invalid sequence-set text: %v", text, got)
		}
		return false
	}
	if err != nil {
		t.Fatalf("ParseSet(%q) rejected valid sequence-set text: %v", text, err)
	}
	want := m.canonical()
	if !rangesEqual([]imapnum.Range(got), want) {
		t.Fatalf("ParseSet(%q)=%v want %v", text, got, want)
	}
	if gotSeq.String() != m.text() {
		t.Fatalf("ParseSeqSet(%q).String()=%q want %q", text, gotSeq.String(), m.text())
	}
	// membership on every number named in the text and its neighbours
	var used []uint32
	for _, it := range m {
		used = append(used, uint32(it.lo), uint32(it.hi))
	}
	for _, q := range probesFor(used) {
		if g, w := got.Contains(q), m.contains(uint64(q)); g != w {
			t.Fatalf("ParseSet(%q).Contains(%d)=%v want %v", text, q, g, w)
		}
	}
	if got.Dynamic() != m.dynamic() {
		t.Fatalf("ParseSet(%q).Dynamic()=%v want %v", text, got.Dynamic(), m.dynamic())
	}
	return true
}

func TestPropParse(t *testing.T) {
	rapid.Check(t, func(t *rapid.T) {
		text := genText(t)
		valid := checkParse(t, text)
		ev.Eval()
		if valid {
			ev.Class("parse:valid")
			if strings.ContainsAny(text, ",:") {
				ev.NonTrivial("p:" + text)
			}
		} else {
			ev.Class("parse:invalid")
			ev.NonTrivial("p:" + text)
		}
		ev.Sample(fmt.Sprintf("ParseSet(%q) valid=%v", text, valid))
	})
}

// ---------------------------------------------------------------- exhaustive small scope

var enumPool = []uint32{0, 1, 2, 3, 4, 6, ^uint32(0) - 2, ^uint32(0) - 1, ^uint32(0)}

func enumInsertions() []op {
	var out []op
	for _, v := range enumPool {
		out = append(out, op{kind: "num", nums: []uint32{v}})
	}
	for _, a := range enumPool {
		for _, b := range enumPool {
			out = append(out, op{kind: "range", a: a, b: b})
		}
	}
	return out
}

// TestEnumSmallScope: every sequence of <=2 (quick) / <=3 (thorough)
// insertions over a 9-value pool, checked after every step.
func TestEnumSmallScope(t *testing.T) {
	ins := enumInsertions()
	depth := 2
	if ev.Thorough() {
		depth = 3
	}
	shard, nshard := envInt("VERIF_SHARD", 0), envInt("VERIF_NSHARD", 1)
	probes := probesFor(enumPool)
	var count int64
	var rec func(s sut, m model, hist []op, d int)
	rec = func(s sut, m model, hist []op, d int) {
		if d == depth {
			return
		}
		for i, o := range ins {
			if d == 0 && i%nshard != shard {
				continue
			}
			s2 := sut{raw: append(imapnum.Set(nil), s.raw...), seq: append(imap.SeqSet(nil), s.seq...), uid: append(imap.UIDSet(nil), s.uid...)}
			m2 := append(model(nil), m...)
			h2 := append(append([]op(nil), hist...), o)
			s2.apply(o)
			m2.apply(o)
			checkAll(t, &s2, m2, probes, h2)
			count++
			if d >= 1 {
				ev.NonTrivial(fmt.Sprint(h2))
			}
			rec(s2, m2, h2, d+1)
		}
	}
	rec(sut{}, nil, nil, 0)
	ev.EvalN(count)
	ev.ClassN("enum:histories", count)
	ev.Set("enum_small_scope", fmt.Sprintf("all histories of <=%d insertions over pool %v (AddNum + AddRange in both orders): complete", depth, enumPool))
	ev.Sample(fmt.Sprintf("exhaustive: every sequence of <=%d insertions from %d insertion kinds", depth, len(ins)))
}

func envInt(k string, def int) int {
	if v, err := strconv.Atoi(os.Getenv(k)); err == nil {
		return v
	}
	return def
}

// ---------------------------------------------------------------- boundary enumeration probe

// boundaryCases are static sets of <=1000 members that include 2^32-1.
func boundaryCases() [][]op {
	M := ^uint32(0)
	return [][]op{
		{{kind: "num", nums: []uint32{M}}},
		{{kind: "range", a: M - 2, b: M}},
		{{kind: "range", a: M, b: M - 5}},
		{{kind: "num", nums: []uint32{1, 3}}, {kind: "range", a: M - 1, b: M}},
		{{kind: "range", a: M - 999, b: M}},
		{{kind: "num", nums: []uint32{M - 1}}, {kind: "num", nums: []uint32{M}}},
		{{kind: "range", a: 5, b: 9}, {kind: "num", nums: []uint32{M}}, {kind: "num", nums: []uint32{M - 2}}},
	}
}

// TestChildNumsBoundary runs in a child process with an address-space limit.
func TestChildNumsBoundary(t *testing.T) {
	if os.Getenv("VERIF_CHILD") != "1" {
		t.Skip("child-process helper")
	}
	lim := syscall.Rlimit{Cur: 3 << 30, Max: 3 << 30}
	_ = syscall.Setrlimit(syscall.RLIMIT_AS, &lim)
	idx := envInt("VERIF_CASE", 0)
	ops := boundaryCases()[idx]
	var s sut
	var m model
	for _, o := range ops {
		s.apply(o)
		m.apply(o)
	}
	want := m.members()
	got, ok := s.raw.Nums()
	if !ok || !u32Equal(got, want) {
		t.Fatalf("imapnum.Set%v.Nums() = %d numbers, ok=%v; want %d numbers ending at %d", s.raw, len(got), ok, len(want), want[len(want)-1])
	}
	gotS, ok := s.seq.Nums()
	if !ok || !u32Equal(gotS, want) {
		t.Fatalf("SeqSet.Nums() wrong at the boundary for %v", s.raw)
	}
	gotU, ok := s.uid.Nums()
	if !ok || len(gotU) != len(want) || uint32(gotU[len(gotU)-1]) != want[len(want)-1] {
		t.Fatalf("UIDSet.Nums() wrong at the boundary for %v", s.raw)
	}
	sd := imap.SearchData{All: s.seq}
	if all := sd.AllSeqNums(); !u32Equal(all, want) {
		t.Fatalf("SearchData.AllSeqNums wrong at the boundary for %v", s.raw)
	}
}

// TestReplayNumsBoundary: enumerating a static set that includes 2^32-1 must
// terminate and yield exactly its members. The correct loop needs
// microseconds and kilobytes; the child gets 30 s and 3 GiB, so hitting either
// limit is a genuine non-termination.
func TestReplayNumsBoundary(t *testing.T) {
	for i, ops := range boundaryCases() {
		cmd := exec.Command(os.Args[0], "-test.run", "^TestChildNumsBoundary$", "-test.v")
		cmd.Env = append(os.Environ(), "VERIF_CHILD=1", "VERIF_CASE="+strconv.Itoa(i), "VERIF_OUT=")
		done := make(chan struct{})
		var out []byte
		var err error
		go func() { out, err = cmd.CombinedOutput(); close(done) }()
		select {
		case <-done:
		case <-time.After(30 * time.Second):
			_ = cmd.Process.Kill()
			<-done
			t.Fatalf("Nums() on the static set built by %v did not terminate within 30s (needs microseconds)", ops)
		}
		ev.Eval()
		ev.NonTrivial(fmt.Sprint("boundary", ops))
		ev.Class("boundary-probe")
		if err != nil {
			tail := string(out)
			if len(tail) > 1500 {
				tail = tail[:700] + "\n...\n" + tail[len(tail)-700:]
			}
			t.Fatalf("Nums() on the static set built by %v failed in the child process (%v):\n%s", ops, err, tail)
		}
	}
	ev.Sample("boundary probe: Nums()/AllSeqNums() on static sets containing 4294967295, child process, 3GiB/30s")
}

// ---------------------------------------------------------------- regressions

func TestReplayRegressions(t *testing.T) {
	texts := []string{"1", "*", "1:*", "*:1", "*:*", "5:1", "1,2,3", "1:3,2:5", "3,1", "4294967295", "4294967294:4294967295,*",
		"1:4294967295", "1:4294967295,*", "2:*,1", "1,3:*,2", "10:20,30:*", "*,1", "5,*:3", "0", "01", "1:", "", ",", "1,,2", "4294967296"}
	texts = append(texts, nearMisses...)
	for _, s := range texts {
		checkParse(t, s)
		ev.Eval()
	}
	hists := [][]op{
		{{kind: "num", nums: []uint32{1, 4}}, {kind: "num", nums: []uint32{2}}, {kind: "num", nums: []uint32{3}}},
		{{kind: "range", a: 5, b: 0}, {kind: "num", nums: []uint32{0}}, {kind: "range", a: 1, b: 4}},
		{{kind: "num", nums: []uint32{0}}, {kind: "range", a: 0, b: 7}, {kind: "range", a: 6, b: 2}},
		{{kind: "range", a: ^uint32(0) - 1, b: ^uint32(0)}, {kind: "range", a: ^uint32(0), b: 0}},
		{{kind: "num", nums: []uint32{1, 3, 5, 7, 9}}, {kind: "range", a: 2, b: 8}},
		{{kind: "num", nums: []uint32{1, 3, 5, 7, 9}}, {kind: "set", sub: []op{{kind: "num", nums: []uint32{2, 4, 6, 8}}}}},
	}
	for _, h := range hists {
		var s sut
		var m model
		var used []uint32
		for i, o := range h {
			s.apply(o)
			m.apply(o)
			used = append(used, o.a, o.b)
			used = append(used, o.nums...)
			checkAll(t, &s, m, probesFor(used), h[:i+1])
		}
		ev.Eval()
	}
	// constructors
	if got := imap.SeqSetNum(3, 1, 2).String(); got != "1:3" {
		t.Fatalf("SeqSetNum(3,1,2)=%q", got)
	}
	if got := imap.UIDSetNum(7, 9).String(); got != "7,9" {
		t.Fatalf("UIDSetNum(7,9)=%q", got)
	}
}
