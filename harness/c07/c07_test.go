// Package c07 decides property C07: sequence-number translation between a
// client's view and the mailbox (imapserver.MailboxTracker/SessionTracker).
// Oracle: a reference model of the true message list and of every session's
// client view (lists of unique message ids). The updates a session emits are
// captured from the wire of a real server connection whose stub session
// delegates Poll to the tracker, and are applied to the model's client view.
package c07

import (
	"fmt"
	"strconv"
	"strings"
	"sync"
	"testing"
	"time"

	imap "github.com/emersion/go-imap/v2"
	"github.com/emersion/go-imap/v2/imapserver"
	"github.com/emersion/go-imap/v2/verifh/kit/ev"
	"github.com/emersion/go-imap/v2/verifh/kit/srv"
	"github.com/emersion/go-imap/v2/verifh/kit/stub"
	"github.com/emersion/go-imap/v2/verifh/kit/tok"
	"pgregory.net/rapid"
)

func TestMain(m *testing.M) { ev.Main(m) }

// ---------------------------------------------------------------- server plumbing

var (
	envOnce  sync.Once
	env      *srv.Env
	coreMu   sync.Mutex
	nextCore []*stub.Core
)

func getEnv() *srv.Env {
	envOnce.Do(func() {
		env = srv.Start(imapserver.Options{
			NewSession: func(*imapserver.Conn) (imapserver.Session, *imapserver.GreetingData, error) {
				coreMu.Lock()
				c := nextCore[0]
				nextCore = nextCore[1:]
				coreMu.Unlock()
				return stub.Session(c, stub.FAll), &imapserver.GreetingData{PreAuth: true}, nil
			},
			InsecureAuth: true,
		})
	})
	return env
}

// expected is one queued update in the model.
type expected struct {
	kind  string // expunge exists flags fetch
	n     uint32 // expunge seq / exists count / fetch seq
	id    int    // message id concerned (expunge, fetch)
	ids   []int  // ids appended (exists)
	flags string
	uid   uint32
}

func (e expected) String() string {
	switch e.kind {
	case "expunge":
		return fmt.Sprintf("EXPUNGE %d(id%d)", e.n, e.id)
	case "exists":
		return fmt.Sprintf("EXISTS %d(+%v)", e.n, e.ids)
	case "flags":
		return "FLAGS " + e.flags
	}
	return fmt.Sprintf("FETCH %d(id%d uid%d %s)", e.n, e.id, e.uid, e.flags)
}

// session is one tracked client.
type session struct {
	name    string
	st      *imapserver.SessionTracker
	raw     *srv.Raw
	core    *stub.Core
	view    []int      // ids the client currently believes in, in order
	pending []expected // updates queued and not yet delivered
	tagN    int
}

type world struct {
	mt       *imapserver.MailboxTracker
	truth    []int
	nextID   int
	sessions []*session
	hist     []string
}

func (w *world) log(f string, a ...any) { w.hist = append(w.hist, fmt.Sprintf(f, a...)) }

type fataler interface {
	Fatalf(format string, args ...any)
}

func (w *world) fail(t fataler, f string, a ...any) {
	t.Fatalf("%s\nhistory:\n  %s", fmt.Sprintf(f, a...), strings.Join(w.hist, "\n  "))
}

func (w *world) newSession(t fataler) *session {
	s := &session{name: fmt.Sprintf("s%d", len(w.hist)), core: stub.NewCore()}
	s.st = w.mt.NewSession()
	s.view = append([]int(nil), w.truth...)
	st := s.st
	s.core.OnPoll = func(uw *imapserver.UpdateWriter, allowExpunge bool) error { return st.Poll(uw, allowExpunge) }
	s.core.OnSelect = func(string, *imap.SelectOptions) (*imap.SelectData, error) {
		return &imap.SelectData{NumMessages: uint32(len(s.view)), UIDNext: 1, UIDValidity: 1}, nil
	}
	coreMu.Lock()
	nextCore = append(nextCore, s.core)
	coreMu.Unlock()
	s.raw = getEnv().Dial()
	if _, err := s.raw.Greeting(); err != nil {
		w.fail(t, "HARNESS: greeting: %v", err)
	}
	// SELECT is answered from the stub; no poll happens for SELECT itself
	if _, st, err := s.raw.Cmd("sel", "SELECT INBOX"); err != nil || st.Status != "OK" {
		w.fail(t, "HARNESS: select: %v %v", st, err)
	}
	w.sessions = append(w.sessions, s)
	return s
}

func (w *world) closeSession(s *session) {
	s.st.Close()
	s.raw.Close()
	for i, x := range w.sessions {
		if x == s {
			w.sessions = append(w.sessions[:i], w.sessions[i+1:]...)
		}
	}
}

func indexOf(l []int, id int) int {
	for i, x := range l {
		if x == id {
			return i
		}
	}
	return -1
}

func flagText(fl []imap.Flag) string {
	var p []string
	for _, f := range fl {
		p = append(p, string(f))
	}
	return "(" + strings.Join(p, " ") + ")"
}

// ---- mutations

func (w *world) appendMsgs(k int) {
	var ids []int
	for i := 0; i < k; i++ {
		w.nextID++
		ids = append(ids, w.nextID)
	}
	w.truth = append(w.truth, ids...)
	n := uint32(len(w.truth))
	w.mt.QueueNumMessages(n)
	for _, s := range w.sessions {
		s.pending = append(s.pending, expected{kind: "exists", n: n, ids: ids})
	}
	w.log("QueueNumMessages(%d) (+%d)", n, k)
}

func (w *world) expunge(seq int) {
	id := w.truth[seq-1]
	w.mt.QueueExpunge(uint32(seq))
	w.truth = append(w.truth[:seq-1:seq-1], w.truth[seq:]...)
	for _, s := range w.sessions {
		s.pending = append(s.pending, expected{kind: "expunge", n: uint32(seq), id: id})
	}
	w.log("QueueExpunge(%d) id%d", seq, id)
}

func (w *world) msgFlags(seq int, uid uint32, flags []imap.Flag, source *session) {
	id := w.truth[seq-1]
	var src *imapserver.SessionTracker
	if source != nil {
		src = source.st
	}
	w.mt.QueueMessageFlags(uint32(seq), imap.UID(uid), flags, src)
	for _, s := range w.sessions {
		if s == source {
			continue
		}
		s.pending = append(s.pending, expected{kind: "fetch", n: uint32(seq), id: id, uid: uid, flags: flagText(flags)})
	}
	srcName := "nil"
	if source != nil {
		srcName = source.name
	}
	w.log("QueueMessageFlags(%d id%d, uid %d, %s, source=%s)", seq, id, uid, flagText(flags), srcName)
}

func (w *world) mboxFlags(flags []imap.Flag) {
	w.mt.QueueMailboxFlags(flags)
	for _, s := range w.sessions {
		s.pending = append(s.pending, expected{kind: "flags", flags: flagText(flags)})
	}
	w.log("QueueMailboxFlags(%s)", flagText(flags))
}

// ---- poll: run a command on the session's connection and interpret the
// untagged updates.

// inject, if not nil, is run when the server performs its atWrite-th network
// write while answering the poll, i.e. in the middle of SessionTracker.Poll
// (between two updates): the mailbox changes while a poll is under way, as it
// does when another session's command runs concurrently. The changes run in
// their own goroutine (a tracker may legitimately make them wait for the poll)
// and are joined before the model is consulted again.
func (w *world) poll(t fataler, s *session, allowExpunge bool, atWrite int, inject func()) {
	w.pollCmd(t, s, allowExpunge, "", atWrite, inject)
}

// pollCmd: failing != "" sends a non-UID FETCH/STORE/SEARCH that the server
// rejects (BAD): whatever it reports on that occasion, it must not be an EXPUNGE
// (and it may report nothing at all).
func (w *world) pollCmd(t fataler, s *session, allowExpunge bool, failing string, atWrite int, inject func()) {
	s.tagN++
	tag := fmt.Sprintf("p%d", s.tagN)
	cmd := "NOOP"
	if !allowExpunge {
		cmd = "FETCH 1 FLAGS" // non-UID FETCH: expunges must be withheld
	}
	if failing != "" {
		cmd, allowExpunge = failing, false
	}
	// command names are case-insensitive
	switch s.tagN % 4 {
	case 1:
		cmd = strings.ToLower(cmd[:strings.IndexAny(cmd+" ", " ")]) + cmd[strings.IndexAny(cmd+" ", " "):]
	case 2:
		w := cmd[:strings.IndexAny(cmd+" ", " ")]
		cmd = w[:1] + strings.ToLower(w[1:]) + cmd[len(w):]
	}
	pendingAtStart := len(s.pending)
	var injected chan struct{}
	if inject != nil {
		writes := 0
		s.raw.S.OnWrite = func([]byte) {
			writes++
			if writes == atWrite && injected == nil {
				injected = make(chan struct{})
				w.log("  (while %s.Poll is writing, before its network write #%d:)", s.name, atWrite)
				go func() { defer close(injected); inject() }()
				select {
				case <-injected:
				case <-time.After(2 * time.Second):
				}
			}
		}
	}
	lines, st, err := s.raw.Cmd(tag, cmd)
	if inject != nil {
		s.raw.S.OnWrite = nil
		if injected != nil {
			select {
			case <-injected:
			case <-time.After(20 * time.Second):
				w.fail(t, "%s: mailbox changes made while Poll was writing did not return 20 s after the poll ended", s.name)
			}
			ev.Class("mailbox-changed-during-poll")
		}
	}
	if err != nil {
		w.fail(t, "%s: Poll(allowExpunge=%v) via %q failed: %v (server log: %v)", s.name, allowExpunge, cmd, err, getEnv().Log.Lines())
	}
	if failing == "" && st.Status != "OK" {
		w.fail(t, "%s: Poll(allowExpunge=%v) via %q: %s %s", s.name, allowExpunge, cmd, st.Status, st.Text)
	}
	if failing != "" && st.Status == "OK" {
		w.fail(t, "HARNESS: %q was expected to be rejected", cmd)
	}
	w.log("%s.Poll(allowExpunge=%v) -> %d updates", s.name, allowExpunge, len(lines))
	var got []expected
	for _, l := range lines {
		if err := l.WellFormed(); err != nil {
			w.fail(t, "%s: malformed update line %q: %v", s.name, l.Raw, err)
		}
		tr, err := tok.Tree(l.Toks)
		if err != nil || len(tr) < 2 || !tr[0].IsAtom("*") {
			w.fail(t, "%s: unexpected line %q", s.name, l.Raw)
		}
		switch {
		case len(tr) == 3 && tr[2].IsAtom("EXPUNGE"):
			n, _ := strconv.ParseUint(tr[1].Str(), 10, 32)
			got = append(got, expected{kind: "expunge", n: uint32(n)})
		case len(tr) == 3 && tr[2].IsAtom("EXISTS"):
			n, _ := strconv.ParseUint(tr[1].Str(), 10, 32)
			got = append(got, expected{kind: "exists", n: uint32(n)})
		case len(tr) == 3 && tr[1].IsAtom("FLAGS") && tr[2].List:
			got = append(got, expected{kind: "flags", flags: tr[2].String()})
		case len(tr) == 4 && tr[2].IsAtom("FETCH") && tr[3].List:
			n, _ := strconv.ParseUint(tr[1].Str(), 10, 32)
			e := expected{kind: "fetch", n: uint32(n)}
			items := tr[3].Children
			for i := 0; i+1 < len(items); i += 2 {
				switch {
				case items[i].IsAtom("UID"):
					u, _ := strconv.ParseUint(items[i+1].Str(), 10, 32)
					e.uid = uint32(u)
				case items[i].IsAtom("FLAGS"):
					e.flags = items[i+1].String()
				}
			}
			got = append(got, e)
		default:
			w.fail(t, "%s: unexpected update line %q", s.name, l.Raw)
		}
	}
	// apply the emitted updates, in order, to the client's view
	for _, g := range got {
		if g.kind == "expunge" && !allowExpunge {
			w.fail(t, "%s: EXPUNGE %d emitted although expunges were not allowed", s.name, g.n)
		}
		if len(s.pending) == 0 {
			w.fail(t, "%s emitted %v but nothing was pending for it", s.name, g)
		}
		want := s.pending[0]
		// tolerate merging of consecutive EXISTS updates into the last one
		for want.kind == "exists" && g.kind == "exists" && g.n != want.n && len(s.pending) > 1 && s.pending[1].kind == "exists" {
			s.view = append(s.view, want.ids...)
			s.pending = s.pending[1:]
			want = s.pending[0]
		}
		if g.kind != want.kind {
			w.fail(t, "%s emitted %v but the next queued update is %v (updates reordered or lost)", s.name, g, want)
		}
		switch g.kind {
		case "expunge":
			if g.n < 1 || int(g.n) > len(s.view) {
				w.fail(t, "%s emitted EXPUNGE %d but its client has %d messages", s.name, g.n, len(s.view))
			}
			if s.view[g.n-1] != want.id {
				w.fail(t, "%s emitted EXPUNGE %d which removes id%d from the client's view %v, but id%d was expunged", s.name, g.n, s.view[g.n-1], s.view, want.id)
			}
			s.view = append(s.view[:g.n-1:g.n-1], s.view[g.n:]...)
		case "exists":
			if g.n != want.n {
				w.fail(t, "%s emitted EXISTS %d, queued EXISTS %d", s.name, g.n, want.n)
			}
			s.view = append(s.view, want.ids...)
			if int(g.n) != len(s.view) {
				w.fail(t, "%s emitted EXISTS %d but the client's view then has %d messages %v", s.name, g.n, len(s.view), s.view)
			}
		case "flags":
			if g.flags != want.flags {
				w.fail(t, "%s emitted FLAGS %s, queued %s", s.name, g.flags, want.flags)
			}
		case "fetch":
			if g.n < 1 || int(g.n) > len(s.view) || s.view[g.n-1] != want.id {
				w.fail(t, "%s emitted FETCH %d which is not id%d in the client's view %v", s.name, g.n, want.id, s.view)
			}
			if g.flags != want.flags || g.uid != want.uid {
				w.fail(t, "%s emitted FETCH %d uid %d %s, queued uid %d %s", s.name, g.n, g.uid, g.flags, want.uid, want.flags)
			}
		}
		s.pending = s.pending[1:]
	}
	// completeness of the poll: everything that was queued when the poll
	// started (updates queued while it was writing may wait for the next one)
	delivered := len(got)
	if allowExpunge {
		if delivered < pendingAtStart {
			w.fail(t, "%s: after Poll(allowExpunge=true) %d updates queued before the poll were not emitted: %v", s.name, pendingAtStart-delivered, s.pending)
		}
		if len(s.pending) == 0 && fmt.Sprint(s.view) != fmt.Sprint(w.truth) {
			w.fail(t, "%s: after a full poll the client's view %v differs from the mailbox %v", s.name, s.view, w.truth)
		}
	} else if failing == "" && delivered < pendingAtStart && len(s.pending) > 0 && s.pending[0].kind != "expunge" {
		w.fail(t, "%s: Poll(allowExpunge=false) stopped before %v although it is not an expunge", s.name, s.pending[0])
	}
}

// ---- translation invariants, checked after every step

func (w *world) checkTranslation(t fataler) {
	for _, s := range w.sessions {
		if g := s.st.DecodeSeqNum(0); g != 0 {
			w.fail(t, "%s.DecodeSeqNum(0)=%d", s.name, g)
		}
		if g := s.st.EncodeSeqNum(0); g != 0 {
			w.fail(t, "%s.EncodeSeqNum(0)=%d", s.name, g)
		}
		// the client's own message count (the value of '*' in its sequence sets)
		if g := s.st.NumMessages(); int(g) != len(s.view) {
			w.fail(t, "%s.NumMessages()=%d but its client has been told about %d messages %v (mailbox %v, pending %v)", s.name, g, len(s.view), s.view, w.truth, s.pending)
		}
		for c := 1; c <= len(s.view); c++ {
			want := uint32(indexOf(w.truth, s.view[c-1]) + 1)
			got := s.st.DecodeSeqNum(uint32(c))
			if got != want {
				w.fail(t, "%s.DecodeSeqNum(%d)=%d, want %d: client view %v, mailbox %v", s.name, c, got, want, s.view, w.truth)
			}
			if got != 0 {
				if back := s.st.EncodeSeqNum(got); back != uint32(c) {
					w.fail(t, "%s: Encode(Decode(%d)=%d)=%d; client view %v, mailbox %v", s.name, c, got, back, s.view, w.truth)
				}
			}
		}
		if len(s.pending) == 0 {
			if g := s.st.DecodeSeqNum(uint32(len(s.view) + 1)); g != 0 {
				w.fail(t, "%s.DecodeSeqNum(%d)=%d for a number beyond the in-sync client view", s.name, len(s.view)+1, g)
			}
		}
		for sv := 1; sv <= len(w.truth); sv++ {
			want := uint32(indexOf(s.view, w.truth[sv-1]) + 1)
			got := s.st.EncodeSeqNum(uint32(sv))
			if got != want {
				w.fail(t, "%s.EncodeSeqNum(%d)=%d, want %d: mailbox %v, client view %v, pending %v", s.name, sv, got, want, w.truth, s.view, s.pending)
			}
			if got != 0 {
				if back := s.st.DecodeSeqNum(got); back != uint32(sv) {
					w.fail(t, "%s: Decode(Encode(%d)=%d)=%d; mailbox %v, client view %v", s.name, sv, got, back, w.truth, s.view)
				}
			}
		}
		if g := s.st.EncodeSeqNum(uint32(len(w.truth) + 1)); g != 0 {
			w.fail(t, "%s.EncodeSeqNum(%d)=%d beyond the mailbox size", s.name, len(w.truth)+1, g)
		}
	}
}

var flagSets = [][]imap.Flag{{}, {imap.FlagSeen}, {imap.FlagSeen, imap.FlagDeleted}, {"kw", imap.FlagFlagged}}

func runHistory(t *rapid.T, maxInc []int) {
	w := &world{}
	n0 := rapid.IntRange(0, 8).Draw(t, "initial")
	for i := 0; i < n0; i++ {
		w.nextID++
		w.truth = append(w.truth, w.nextID)
	}
	w.mt = imapserver.NewMailboxTracker(uint32(n0))
	w.log("NewMailboxTracker(%d)", n0)
	defer func() {
		for _, s := range append([]*session(nil), w.sessions...) {
			w.closeSession(s)
		}
	}()
	if rapid.IntRange(0, 3).Draw(t, "startWithSession") != 0 {
		w.newSession(t)
	}
	staleQuery, sawMulti, polls, noSessionChange := false, false, 0, false
	t.Repeat(map[string]func(*rapid.T){
		"append": func(t *rapid.T) {
			if len(w.truth) > 40 {
				t.Skip("mailbox full")
			}
			k := rapid.SampledFrom(maxInc).Draw(t, "k")
			if k > 1 {
				sawMulti = true
			}
			if len(w.sessions) == 0 {
				noSessionChange = true
			}
			w.appendMsgs(k)
		},
		"expunge": func(t *rapid.T) {
			if len(w.truth) == 0 {
				t.Skip("empty")
			}
			if len(w.sessions) == 0 {
				noSessionChange = true
			}
			w.expunge(rapid.IntRange(1, len(w.truth)).Draw(t, "seq"))
		},
		"msgflags": func(t *rapid.T) {
			if len(w.truth) == 0 {
				t.Skip("empty")
			}
			seq := rapid.IntRange(1, len(w.truth)).Draw(t, "seq")
			var src *session
			if len(w.sessions) > 0 && rapid.Bool().Draw(t, "hasSource") {
				src = rapid.SampledFrom(w.sessions).Draw(t, "source")
			}
			uid := uint32(0)
			if rapid.Bool().Draw(t, "withUID") {
				uid = uint32(w.truth[seq-1])
			}
			w.msgFlags(seq, uid, rapid.SampledFrom(flagSets).Draw(t, "flags"), src)
		},
		"mboxflags": func(t *rapid.T) {
			w.mboxFlags(rapid.SampledFrom(flagSets).Draw(t, "flags"))
		},
		"newsession": func(t *rapid.T) {
			if len(w.sessions) >= 4 {
				t.Skip("max sessions")
			}
			s := w.newSession(t)
			w.log("NewSession -> %s", s.name)
		},
		"closesession": func(t *rapid.T) {
			// down to no session at all: the mailbox keeps changing while
			// nobody has it selected, and sessions opened later start from
			// whatever the tracker then believes
			if len(w.sessions) == 0 {
				t.Skip("no session")
			}
			s := rapid.SampledFrom(w.sessions).Draw(t, "which")
			w.log("%s.Close()", s.name)
			w.closeSession(s)
		},
		"poll": func(t *rapid.T) {
			if len(w.sessions) == 0 {
				t.Skip("no session")
			}
			s := rapid.SampledFrom(w.sessions).Draw(t, "which")
			allow := rapid.Bool().Draw(t, "allowExpunge")
			var inject func()
			atWrite := 0
			if len(s.pending) >= 2 && rapid.IntRange(0, 2).Draw(t, "changeDuringPoll") == 0 {
				// all choices are drawn here, in the test goroutine
				atWrite = rapid.IntRange(1, 3).Draw(t, "atWrite")
				type mut struct {
					kind    string
					pick, k int
					flags   []imap.Flag
				}
				var muts []mut
				for i, n := 0, rapid.IntRange(1, 3).Draw(t, "nchanges"); i < n; i++ {
					muts = append(muts, mut{kind: rapid.SampledFrom([]string{"msgflags", "msgflags", "append", "expunge", "mboxflags"}).Draw(t, "change"),
						pick: rapid.IntRange(0, 999).Draw(t, "pick"), k: rapid.SampledFrom(maxInc).Draw(t, "k"), flags: rapid.SampledFrom(flagSets).Draw(t, "flags")})
				}
				inject = func() {
					for _, m := range muts {
						switch {
						case m.kind == "append" && len(w.truth) <= 40:
							w.appendMsgs(m.k)
						case m.kind == "expunge" && len(w.truth) > 0:
							w.expunge(1 + m.pick%len(w.truth))
						case m.kind == "msgflags" && len(w.truth) > 0:
							w.msgFlags(1+m.pick%len(w.truth), 0, m.flags, nil)
						case m.kind == "mboxflags":
							w.mboxFlags(m.flags)
						}
					}
				}
			}
			if inject == nil && rapid.IntRange(0, 5).Draw(t, "failingCommand") == 0 {
				bad := rapid.SampledFrom([]string{"FETCH 1 BOGUSITEM", "FETCH 1", "STORE 1 BOGUS", "SEARCH BOGUSKEY", "FETCH 1 (FLAGS BOGUS)"}).Draw(t, "bad")
				w.pollCmd(t, s, false, bad, 0, nil)
				ev.Class("poll:failing-non-UID-command")
			} else {
				w.poll(t, s, allow, atWrite, inject)
			}
			polls++
			ev.Class(fmt.Sprintf("poll:allowExpunge=%v", allow))
		},
		"": func(t *rapid.T) {
			for _, s := range w.sessions {
				hasExp, hasApp := false, false
				for _, p := range s.pending {
					if p.kind == "expunge" {
						hasExp = true
					}
					if p.kind == "exists" {
						hasApp = true
					}
				}
				if hasExp && hasApp {
					staleQuery = true
				}
			}
			w.checkTranslation(t)
		},
	})
	ev.Eval()
	if staleQuery {
		ev.NonTrivial(strings.Join(w.hist, ";"))
		ev.Class("query-with-pending-expunge-and-append")
	}
	if sawMulti {
		ev.Class("append-increment>1")
	}
	if noSessionChange {
		ev.Class("mailbox-changed-while-no-session")
	}
	ev.Class(fmt.Sprintf("sessions-at-end:%d", len(w.sessions)))
	ev.ClassN("polls", int64(polls))
	ev.Sample(strings.Join(w.hist, "; "))
}

// TestPropTracker: full domain (QueueNumMessages with +k for any k>=1).
func TestPropTracker(t *testing.T) {
	rapid.Check(t, func(t *rapid.T) { runHistory(t, []int{1, 1, 1, 2, 3, 10}) })
}

func TestReplayRegressions(t *testing.T) {
	// the repository's own table (42 messages) through the model
	mt := imapserver.NewMailboxTracker(42)
	st := mt.NewSession()
	mt.QueueExpunge(3)
	mt.QueueExpunge(1)
	if st.DecodeSeqNum(2) != 1 || st.DecodeSeqNum(4) != 2 || st.DecodeSeqNum(3) != 0 || st.DecodeSeqNum(1) != 0 {
		t.Fatalf("multi expunge decode")
	}
	if st.EncodeSeqNum(1) != 2 || st.EncodeSeqNum(2) != 4 {
		t.Fatalf("multi expunge encode")
	}
	ev.Eval()
	// F-C07a: an increment larger than one hides all new messages
	mt = imapserver.NewMailboxTracker(5)
	st = mt.NewSession()
	mt.QueueNumMessages(8)
	for sv, want := range map[uint32]uint32{5: 5, 6: 0, 7: 0, 8: 0} {
		if got := st.EncodeSeqNum(sv); got != want {
			t.Fatalf("after QueueNumMessages(5->8): EncodeSeqNum(%d)=%d want %d (messages 6..8 are not yet known to the client)", sv, got, want)
		}
	}
	ev.Eval()
}
