package c19

// Part 2 of C19: a multi-key SEARCH command parsed by the real server selects
// exactly the messages satisfying all of its keys, in whatever order the keys
// are written. Every permutation of the top-level keys is sent over a raw
// connection to a real imapserver whose session is the recording stub; the
// recorded criteria are evaluated with the independent matcher and compared
// with the intersection of per-key predicates written from RFC 9051 6.4.4.

import (
	"fmt"
	"strings"
	"sync"
	"testing"

	imap "github.com/emersion/go-imap/v2"
	"github.com/emersion/go-imap/v2/imapserver"
	"github.com/emersion/go-imap/v2/verifh/kit/ev"
	"github.com/emersion/go-imap/v2/verifh/kit/smodel"
	"github.com/emersion/go-imap/v2/verifh/kit/srv"
	"github.com/emersion/go-imap/v2/verifh/kit/stub"
	"pgregory.net/rapid"
)

type key struct {
	text string
	pred func(m smodel.Msg) bool
}

var months = []string{"Jan", "Feb", "Mar", "Apr", "May", "Jun", "Jul", "Aug", "Sep", "Oct", "Nov", "Dec"}

func dateText(day int) string {
	d := smodel.Base.AddDate(0, 0, day)
	return fmt.Sprintf("%d-%s-%d", d.Day(), months[d.Month()-1], d.Year())
}

func hasFlag(f string) func(smodel.Msg) bool {
	return func(m smodel.Msg) bool { return m.Flags[f] }
}
func notp(p func(smodel.Msg) bool) func(smodel.Msg) bool {
	return func(m smodel.Msg) bool { return !p(m) }
}
func cf(h, n string) bool { return strings.Contains(strings.ToLower(h), strings.ToLower(n)) }

// keyDomain gives the key generator the value ranges of the universe at hand.
type keyDomain struct {
	larger, smaller []int64
	maxSeq, maxUID  int
	heavy           bool // text-heavy key mix (see genKey)
}

var stubDomain = keyDomain{larger: []int64{1, 3, 5, 9}, smaller: []int64{1, 5, 7, 9, 11}, maxSeq: 200, maxUID: 2000}

func quoteIfNeeded(v string) string {
	if strings.ContainsAny(v, " :") {
		return `"` + v + `"`
	}
	return v
}

func genKey(t *rapid.T, depth int, dom keyDomain) key {
	max := 21
	if depth > 0 {
		max = 24
	}
	kind := rapid.IntRange(0, max+1).Draw(t, "keykind")
	if dom.heavy {
		// text-heavy mode: several BODY/TEXT/header keys at several levels of
		// the NOT/OR tree of one command
		pool := []int{15, 16, 17, 17, 17, max + 1, max + 1}
		if depth > 0 {
			pool = append(pool, 22, 22, 23, 23, 24)
		}
		kind = rapid.SampledFrom(pool).Draw(t, "heavykind")
	}
	if kind == max+1 {
		v := rapid.SampledFrom([]string{"alpha", "gamma", "hello", "bye", "foo", "zzz", "subject: h", "x-a"}).Draw(t, "text")
		return key{"TEXT " + quoteIfNeeded(v), func(m smodel.Msg) bool {
			if cf(m.Body, v) {
				return true
			}
			for k, hv := range m.Headers {
				if cf(k+": "+hv, v) {
					return true
				}
			}
			return false
		}}
	}
	switch kind {
	case 0:
		return key{"SEEN", hasFlag("\\seen")}
	case 1:
		return key{"UNSEEN", notp(hasFlag("\\seen"))}
	case 2:
		return key{"NEW", func(m smodel.Msg) bool { return m.Flags["\\recent"] && !m.Flags["\\seen"] }}
	case 3:
		return key{"OLD", notp(hasFlag("\\recent"))}
	case 4:
		return key{"RECENT", hasFlag("\\recent")}
	case 5:
		f := rapid.SampledFrom([]string{"DELETED", "FLAGGED"}).Draw(t, "sysflag")
		return key{f, hasFlag("\\" + strings.ToLower(f))}
	case 6:
		f := rapid.SampledFrom([]string{"DELETED", "FLAGGED"}).Draw(t, "unsysflag")
		return key{"UN" + f, notp(hasFlag("\\" + strings.ToLower(f)))}
	case 7:
		n := rapid.SampledFrom(dom.larger).Draw(t, "larger")
		return key{fmt.Sprintf("LARGER %d", n), func(m smodel.Msg) bool { return m.Size > n }}
	case 8:
		n := rapid.SampledFrom(dom.smaller).Draw(t, "smaller")
		return key{fmt.Sprintf("SMALLER %d", n), func(m smodel.Msg) bool { return m.Size < n }}
	case 9:
		d := rapid.IntRange(0, 3).Draw(t, "since")
		return key{"SINCE " + dateText(d), func(m smodel.Msg) bool { return m.InternalDay >= d }}
	case 10:
		d := rapid.IntRange(0, 4).Draw(t, "before")
		return key{"BEFORE " + dateText(d), func(m smodel.Msg) bool { return m.InternalDay < d }}
	case 11:
		d := rapid.IntRange(0, 3).Draw(t, "on")
		return key{"ON " + dateText(d), func(m smodel.Msg) bool { return m.InternalDay == d }}
	case 12:
		d := rapid.IntRange(0, 3).Draw(t, "sentsince")
		return key{"SENTSINCE " + dateText(d), func(m smodel.Msg) bool { return m.SentDay >= d }}
	case 13:
		d := rapid.IntRange(0, 4).Draw(t, "sentbefore")
		return key{"SENTBEFORE " + dateText(d), func(m smodel.Msg) bool { return m.SentDay < d }}
	case 14:
		d := rapid.IntRange(0, 3).Draw(t, "senton")
		return key{"SENTON " + dateText(d), func(m smodel.Msg) bool { return m.SentDay == d }}
	case 15:
		v := rapid.SampledFrom([]string{"hello", "bye", "zzz"}).Draw(t, "subject")
		return key{"SUBJECT " + v, func(m smodel.Msg) bool { return cf(m.Headers["subject"], v) }}
	case 16:
		v := rapid.SampledFrom([]string{"foo", "bar", `""`}).Draw(t, "xa")
		return key{"HEADER X-A " + v, func(m smodel.Msg) bool {
			h, ok := m.Headers["x-a"]
			return ok && (v == `""` || cf(h, v))
		}}
	case 17:
		v := rapid.SampledFrom([]string{"alpha", "gamma", "zzz"}).Draw(t, "body")
		return key{"BODY " + v, func(m smodel.Msg) bool { return cf(m.Body, v) }}
	case 18:
		return key{"KEYWORD kw", hasFlag("kw")}
	case 19:
		return key{"UNKEYWORD kw", notp(hasFlag("kw"))}
	case 20:
		a := rapid.IntRange(1, dom.maxSeq).Draw(t, "seqa")
		b := a + rapid.IntRange(0, dom.maxSeq/2).Draw(t, "seqw")
		return key{fmt.Sprintf("%d:%d", a, b), func(m smodel.Msg) bool { return int(m.Seq) >= a && int(m.Seq) <= b }}
	case 21:
		a := rapid.IntRange(1, dom.maxUID).Draw(t, "uida")
		b := a + rapid.IntRange(0, dom.maxUID/2).Draw(t, "uidw")
		return key{fmt.Sprintf("UID %d:%d", a, b), func(m smodel.Msg) bool { return int(m.UID) >= a && int(m.UID) <= b }}
	case 22:
		k := genKey(t, depth-1, dom)
		return key{"NOT " + k.text, notp(k.pred)}
	case 23:
		k1, k2 := genKey(t, depth-1, dom), genKey(t, depth-1, dom)
		return key{"OR " + k1.text + " " + k2.text, func(m smodel.Msg) bool { return k1.pred(m) || k2.pred(m) }}
	default:
		k1, k2 := genKey(t, depth-1, dom), genKey(t, depth-1, dom)
		return key{"(" + k1.text + " " + k2.text + ")", func(m smodel.Msg) bool { return k1.pred(m) && k2.pred(m) }}
	}
}

func permutations(n int) [][]int {
	var out [][]int
	var rec func(cur []int, used []bool)
	rec = func(cur []int, used []bool) {
		if len(cur) == n {
			out = append(out, append([]int(nil), cur...))
			return
		}
		for i := 0; i < n; i++ {
			if !used[i] {
				used[i] = true
				rec(append(cur, i), used)
				used[i] = false
			}
		}
	}
	rec(nil, make([]bool, n))
	return out
}

type searchEnv struct {
	env  *srv.Env
	core *stub.Core
	raw  *srv.Raw
	n    int
}

var (
	seMu sync.Mutex
	se   *searchEnv
)

func getSearchEnv() (*searchEnv, error) {
	if se != nil {
		return se, nil
	}
	core := stub.NewCore()
	env := srv.Start(imapserver.Options{
		NewSession: func(*imapserver.Conn) (imapserver.Session, *imapserver.GreetingData, error) {
			return stub.Session(core, stub.FAll), nil, nil
		},
		InsecureAuth: true,
		Caps:         imap.CapSet{imap.CapIMAP4rev1: {}, imap.CapIMAP4rev2: {}},
	})
	raw := env.Dial()
	if _, err := raw.Greeting(); err != nil {
		return nil, err
	}
	if _, st, err := raw.Cmd("l", "LOGIN u p"); err != nil || st.Status != "OK" {
		return nil, fmt.Errorf("login: %v %v", st, err)
	}
	if _, st, err := raw.Cmd("s", "SELECT INBOX"); err != nil || st.Status != "OK" {
		return nil, fmt.Errorf("select: %v %v", st, err)
	}
	se = &searchEnv{env: env, core: core, raw: raw}
	return se, nil
}

// runSearch sends one SEARCH command and returns the criteria the backend got.
func (s *searchEnv) runSearch(cmd string) (*imap.SearchCriteria, string, error) {
	s.core.Reset()
	s.n++
	tag := fmt.Sprintf("t%d", s.n)
	_, st, err := s.raw.Cmd(tag, cmd)
	if err != nil {
		se = nil // connection is unusable; next case re-dials
		return nil, "", err
	}
	if st.Status != "OK" {
		return nil, st.Status + " " + st.Text, nil
	}
	calls := s.core.Calls()
	if len(calls) != 1 || calls[0].Method != "Search" {
		return nil, "", fmt.Errorf("expected exactly one Search call, got %v", calls)
	}
	c := calls[0].Args["criteria"].(imap.SearchCriteria)
	return &c, "", nil
}

func setOf(sel []int) string { return fmt.Sprint(sel) }

func checkPermutations(t fataler, keys []key) (perms int, expectN int) {
	seMu.Lock()
	defer seMu.Unlock()
	s, err := getSearchEnv()
	if err != nil {
		t.Fatalf("HARNESS: cannot set up server: %v", err)
	}
	var want []int
	for i, m := range uni.Msgs {
		ok := true
		for _, k := range keys {
			if !k.pred(m) {
				ok = false
				break
			}
		}
		if ok {
			want = append(want, i)
		}
	}
	for _, p := range permutations(len(keys)) {
		var parts []string
		for _, i := range p {
			parts = append(parts, keys[i].text)
		}
		cmd := "SEARCH " + strings.Join(parts, " ")
		crit, refused, err := s.runSearch(cmd)
		if err != nil {
			t.Fatalf("%q: %v", cmd, err)
		}
		if refused != "" {
			t.Fatalf("%q: valid SEARCH command refused: %s", cmd, refused)
		}
		got := uni.Select(crit)
		if setOf(got) != setOf(want) {
			t.Fatalf("%q selects %d messages, the intersection of its keys has %d.\n criteria received by the backend: %s\n first differing message: %s",
				cmd, len(got), len(want), render(crit), firstDiff(got, want))
		}
		perms++
	}
	return perms, len(want)
}

func firstDiff(got, want []int) string {
	g, w := map[int]bool{}, map[int]bool{}
	for _, i := range got {
		g[i] = true
	}
	for _, i := range want {
		w[i] = true
	}
	for i, m := range uni.Msgs {
		if g[i] != w[i] {
			return fmt.Sprintf("%v (selected=%v, expected=%v)", m, g[i], w[i])
		}
	}
	return "none"
}

func TestPropSearchPermutations(t *testing.T) {
	rapid.Check(t, func(t *rapid.T) {
		n := rapid.SampledFrom([]int{1, 2, 2, 3, 3, 3, 4, 4, 5}).Draw(t, "nkeys")
		dom := stubDomain
		dom.heavy = rapid.IntRange(0, 5).Draw(t, "textheavy") == 0
		var keys []key
		for i := 0; i < n; i++ {
			keys = append(keys, genKey(t, 1, dom))
		}
		perms, expectN := checkPermutations(t, keys)
		ev.Eval()
		ev.ClassN("permutations-sent", int64(perms))
		var texts []string
		for _, k := range keys {
			texts = append(texts, k.text)
			ev.Class("key:" + strings.SplitN(strings.TrimLeft(k.text, "("), " ", 2)[0])
		}
		if n >= 2 && expectN < len(uni.Msgs) {
			ev.NonTrivial("perm:" + strings.Join(texts, " | "))
		}
		ev.Sample(fmt.Sprintf("SEARCH %s  (%d permutations, %d/%d messages)", strings.Join(texts, " "), perms, expectN, len(uni.Msgs)))
	})
}

func TestReplayPermutations(t *testing.T) {
	sets := [][]key{
		{{"SMALLER 5", func(m smodel.Msg) bool { return m.Size < 5 }}, {"SINCE " + dateText(1), func(m smodel.Msg) bool { return m.InternalDay >= 1 }}},
		{{"UNFLAGGED", notp(hasFlag("\\flagged"))}, {"NEW", func(m smodel.Msg) bool { return m.Flags["\\recent"] && !m.Flags["\\seen"] }}},
		{{"SEEN", hasFlag("\\seen")}, {"NEW", func(m smodel.Msg) bool { return m.Flags["\\recent"] && !m.Flags["\\seen"] }}},
		{{"NEW", func(m smodel.Msg) bool { return m.Flags["\\recent"] && !m.Flags["\\seen"] }}},
		{{"LARGER 3", func(m smodel.Msg) bool { return m.Size > 3 }}, {"LARGER 5", func(m smodel.Msg) bool { return m.Size > 5 }}, {"SMALLER 9", func(m smodel.Msg) bool { return m.Size < 9 }}},
	}
	for _, ks := range sets {
		checkPermutations(t, ks)
		ev.Eval()
	}
}
