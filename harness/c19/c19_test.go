// Package c19 decides property C19: combining search criteria yields their
// intersection. Part 1 (this file): the algebraic law
//
//	forall m: Match(a.And(b), m) <=> Match(a, m) && Match(b, m)
//
// judged by the independent matcher kit/smodel over a finite universe.
package c19

import (
	"fmt"
	"testing"
	"time"

	imap "github.com/emersion/go-imap/v2"
	"github.com/emersion/go-imap/v2/verifh/kit/ev"
	"github.com/emersion/go-imap/v2/verifh/kit/smodel"
	"pgregory.net/rapid"
)

func TestMain(m *testing.M) { ev.Main(m) }

var uni = smodel.NewUniverse(240)

var locs = []*time.Location{time.UTC, time.FixedZone("+0530", 5*3600+1800), time.FixedZone("-0800", -8*3600)}

type fieldMask map[string]bool

func genSeqSet(t *rapid.T) imap.SeqSet {
	var s imap.SeqSet
	n := rapid.IntRange(1, 2).Draw(t, "nr")
	for i := 0; i < n; i++ {
		a := uint32(rapid.IntRange(1, 240).Draw(t, "a"))
		b := a + uint32(rapid.IntRange(0, 120).Draw(t, "w"))
		s.AddRange(a, b)
	}
	return s
}

func genUIDSet(t *rapid.T) imap.UIDSet {
	if rapid.IntRange(0, 5).Draw(t, "searchres") == 0 {
		return imap.SearchRes() // "$": the saved result of the universe
	}
	var s imap.UIDSet
	n := rapid.IntRange(1, 2).Draw(t, "nr")
	for i := 0; i < n; i++ {
		a := uint32(rapid.IntRange(1, 2400).Draw(t, "a"))
		b := a + uint32(rapid.IntRange(0, 1200).Draw(t, "w"))
		s.AddRange(imap.UID(a), imap.UID(b))
	}
	return s
}

func genDate(t *rapid.T, loc *time.Location) time.Time {
	return smodel.DayTime(rapid.IntRange(-1, 4).Draw(t, "day"), rapid.IntRange(0, 23).Draw(t, "h"), rapid.IntRange(0, 59).Draw(t, "m"), loc)
}

var headerPool = []imap.SearchCriteriaHeaderField{{Key: "X-A", Value: ""}, {Key: "X-A", Value: "foo"}, {Key: "x-a", Value: "BAR"},
	{Key: "Subject", Value: "hello"}, {Key: "SUBJECT", Value: "bye"}, {Key: "Missing", Value: ""}}
var flagPool = []imap.Flag{imap.FlagSeen, imap.FlagDeleted, "\\Recent", "kw", "\\seen", imap.FlagFlagged}

// genCriteria draws a criteria tree; p is the per-field probability in tenths.
func genCriteria(t *rapid.T, depth int, loc *time.Location, mask fieldMask) imap.SearchCriteria {
	var c imap.SearchCriteria
	on := func(name string) bool {
		if v := rapid.IntRange(0, 9).Draw(t, name+"?"); v == 4 || v == 5 { // ~15% (rapid favours small values; 0 shrinks to "unset")
			mask[name] = true
			return true
		}
		return false
	}
	if on("SeqNum") {
		for i, n := 0, rapid.IntRange(1, 2).Draw(t, "nseq"); i < n; i++ {
			c.SeqNum = append(c.SeqNum, genSeqSet(t))
		}
	}
	if on("UID") {
		for i, n := 0, rapid.IntRange(1, 2).Draw(t, "nuid"); i < n; i++ {
			c.UID = append(c.UID, genUIDSet(t))
		}
	}
	if on("Since") {
		c.Since = genDate(t, loc)
	}
	if on("Before") {
		c.Before = genDate(t, loc)
	}
	if on("SentSince") {
		c.SentSince = genDate(t, loc)
	}
	if on("SentBefore") {
		c.SentBefore = genDate(t, loc)
	}
	if on("Header") {
		for i, n := 0, rapid.IntRange(1, 2).Draw(t, "nh"); i < n; i++ {
			c.Header = append(c.Header, rapid.SampledFrom(headerPool).Draw(t, "hdr"))
		}
	}
	if on("Body") {
		for i, n := 0, rapid.IntRange(1, 2).Draw(t, "nb"); i < n; i++ {
			c.Body = append(c.Body, rapid.SampledFrom([]string{"alpha", "GAMMA", "zzz", "a"}).Draw(t, "body"))
		}
	}
	if on("Text") {
		for i, n := 0, rapid.IntRange(1, 2).Draw(t, "nt"); i < n; i++ {
			c.Text = append(c.Text, rapid.SampledFrom([]string{"hello", "beta", "zzz", "foo"}).Draw(t, "text"))
		}
	}
	if on("Flag") {
		for i, n := 0, rapid.IntRange(1, 2).Draw(t, "nf"); i < n; i++ {
			c.Flag = append(c.Flag, rapid.SampledFrom(flagPool).Draw(t, "flag"))
		}
	}
	if on("NotFlag") {
		for i, n := 0, rapid.IntRange(1, 2).Draw(t, "nnf"); i < n; i++ {
			c.NotFlag = append(c.NotFlag, rapid.SampledFrom(flagPool).Draw(t, "nflag"))
		}
	}
	if on("Larger") {
		c.Larger = rapid.SampledFrom([]int64{1, 3, 5, 9}).Draw(t, "larger")
	}
	if on("Smaller") {
		c.Smaller = rapid.SampledFrom([]int64{1, 5, 7, 9, 11}).Draw(t, "smaller")
	}
	if depth > 0 {
		if on("Not") {
			for i, n := 0, rapid.IntRange(1, 2).Draw(t, "nnot"); i < n; i++ {
				c.Not = append(c.Not, genCriteria(t, depth-1, loc, fieldMask{}))
			}
		}
		if on("Or") {
			for i, n := 0, rapid.IntRange(1, 2).Draw(t, "nor"); i < n; i++ {
				c.Or = append(c.Or, [2]imap.SearchCriteria{genCriteria(t, depth-1, loc, fieldMask{}), genCriteria(t, depth-1, loc, fieldMask{})})
			}
		}
	}
	return c
}

func render(c *imap.SearchCriteria) string {
	s := ""
	add := func(f string, a ...any) { s += fmt.Sprintf(f, a...) + " " }
	for _, x := range c.SeqNum {
		add("SEQ %s", x.String())
	}
	for _, x := range c.UID {
		add("UID %s", x.String())
	}
	if !c.Since.IsZero() {
		add("SINCE d%d", smodel.DayOf(c.Since))
	}
	if !c.Before.IsZero() {
		add("BEFORE d%d", smodel.DayOf(c.Before))
	}
	if !c.SentSince.IsZero() {
		add("SENTSINCE d%d", smodel.DayOf(c.SentSince))
	}
	if !c.SentBefore.IsZero() {
		add("SENTBEFORE d%d", smodel.DayOf(c.SentBefore))
	}
	for _, h := range c.Header {
		add("HEADER %q %q", h.Key, h.Value)
	}
	for _, x := range c.Body {
		add("BODY %q", x)
	}
	for _, x := range c.Text {
		add("TEXT %q", x)
	}
	for _, x := range c.Flag {
		add("FLAG %s", x)
	}
	for _, x := range c.NotFlag {
		add("NOTFLAG %s", x)
	}
	if c.Larger != 0 {
		add("LARGER %d", c.Larger)
	}
	if c.Smaller != 0 {
		add("SMALLER %d", c.Smaller)
	}
	for i := range c.Not {
		add("NOT (%s)", render(&c.Not[i]))
	}
	for i := range c.Or {
		add("OR (%s) (%s)", render(&c.Or[i][0]), render(&c.Or[i][1]))
	}
	if s == "" {
		return "ALL"
	}
	return s[:len(s)-1]
}

type fataler interface {
	Fatalf(format string, args ...any)
}

// checkLaw applies And and compares with the intersection on every message.
func checkLaw(t fataler, a, b imap.SearchCriteria) (na, nb, nab int) {
	ra, rb := render(&a), render(&b)
	selA, selB := map[int]bool{}, map[int]bool{}
	for _, i := range uni.Select(&a) {
		selA[i] = true
	}
	for _, i := range uni.Select(&b) {
		selB[i] = true
	}
	combined := a // And mutates its receiver; a's slices may be appended to
	combined.And(&b)
	for i, m := range uni.Msgs {
		want := selA[i] && selB[i]
		if want {
			nab++
		}
		if got := uni.Match(&combined, m); got != want {
			t.Fatalf("And is not the intersection:\n a = %s\n b = %s\n a.And(b) = %s\n message %v: a matches=%v b matches=%v, a.And(b) matches=%v",
				ra, rb, render(&combined), m, selA[i], selB[i], got)
		}
	}
	if after := render(&b); after != rb {
		t.Fatalf("And modified its argument: %s -> %s", rb, after)
	}
	return len(selA), len(selB), nab
}

func TestPropAndLaw(t *testing.T) {
	rapid.Check(t, func(t *rapid.T) {
		loc := rapid.SampledFrom(locs).Draw(t, "loc")
		ma, mb := fieldMask{}, fieldMask{}
		var a, b imap.SearchCriteria
		switch rapid.IntRange(0, 19).Draw(t, "zero") {
		case 0:
			b = genCriteria(t, 2, loc, mb)
		case 1:
			a = genCriteria(t, 2, loc, ma)
		default:
			a = genCriteria(t, 2, loc, ma)
			b = genCriteria(t, 2, loc, mb)
		}
		na, nb, nab := checkLaw(t, a, b)
		ev.Eval()
		n := len(uni.Msgs)
		oneSided := false
		for f := range ma {
			if !mb[f] {
				oneSided = true
			}
			ev.Class("a:" + f)
		}
		for f := range mb {
			if !ma[f] {
				oneSided = true
			}
			ev.Class("b:" + f)
		}
		if na < n && nb < n && na > 0 && nb > 0 && oneSided {
			ev.NonTrivial(render(&a) + " && " + render(&b))
		}
		if nab > 0 {
			ev.Class("intersection-non-empty")
		}
		ev.Sample(fmt.Sprintf("a=[%s] b=[%s] |a|=%d |b|=%d |a&b|=%d", render(&a), render(&b), na, nb, nab))
	})
}

// roomy gives every slice of the criteria spare capacity (as slices built by
// append usually have): sharing a backing array between two criteria then shows.
func roomy(c imap.SearchCriteria) imap.SearchCriteria {
	c.SeqNum = append(make([]imap.SeqSet, 0, len(c.SeqNum)+4), c.SeqNum...)
	c.UID = append(make([]imap.UIDSet, 0, len(c.UID)+4), c.UID...)
	c.Header = append(make([]imap.SearchCriteriaHeaderField, 0, len(c.Header)+4), c.Header...)
	c.Body = append(make([]string, 0, len(c.Body)+4), c.Body...)
	c.Text = append(make([]string, 0, len(c.Text)+4), c.Text...)
	c.Flag = append(make([]imap.Flag, 0, len(c.Flag)+4), c.Flag...)
	c.NotFlag = append(make([]imap.Flag, 0, len(c.NotFlag)+4), c.NotFlag...)
	c.Not = append(make([]imap.SearchCriteria, 0, len(c.Not)+4), c.Not...)
	c.Or = append(make([][2]imap.SearchCriteria, 0, len(c.Or)+4), c.Or...)
	return c
}

// TestPropAndChains: the way programs build criteria - a shared base
// criteria And-ed into several fresh ones, each of which is narrowed further.
// Every result must be the intersection of what went into it, and no operand
// (and no earlier result) may change when a later And runs.
func TestPropAndChains(t *testing.T) {
	rapid.Check(t, func(t *rapid.T) {
		loc := rapid.SampledFrom(locs).Draw(t, "loc")
		base := roomy(genCriteria(t, 1, loc, fieldMask{}))
		n := rapid.IntRange(2, 3).Draw(t, "branches")
		extras := make([]imap.SearchCriteria, n)
		results := make([]imap.SearchCriteria, n)
		for i := range extras {
			extras[i] = roomy(genCriteria(t, 1, loc, fieldMask{}))
		}
		baseText := render(&base)
		// (every result starts as the zero criteria: copying a criteria *struct*
		// and appending to both copies shares slice storage by the rules of the
		// language, which is the caller's affair, not And's)
		for i := range results {
			results[i].And(&base)
		}
		for i := range results {
			results[i].And(&extras[i])
		}
		selBase := map[int]bool{}
		for _, i := range uni.Select(&base) {
			selBase[i] = true
		}
		for i := range results {
			selX := map[int]bool{}
			for _, k := range uni.Select(&extras[i]) {
				selX[k] = true
			}
			for k, m := range uni.Msgs {
				want := selBase[k] && selX[k]
				if got := uni.Match(&results[i], m); got != want {
					t.Fatalf("criteria built as base.And(extra%d) beside %d sibling(s) sharing the base is not the intersection:\n base = %s\n extra%d = %s\n result = %s\n message %v: base matches=%v extra matches=%v, result matches=%v",
						i, n-1, baseText, i, render(&extras[i]), render(&results[i]), m, selBase[k], selX[k], got)
				}
			}
		}
		if after := render(&base); after != baseText {
			t.Fatalf("the shared base criteria changed: %s -> %s", baseText, after)
		}
		ev.Eval()
		ev.NonTrivial("chain:" + baseText)
		ev.Class("and-chain-with-shared-base")
	})
}

func TestReplayRegressions(t *testing.T) {
	d := func(day int) time.Time { return smodel.DayTime(day, 12, 0, time.UTC) }
	pairs := [][2]imap.SearchCriteria{
		{{Smaller: 5}, {Since: d(1)}}, // F-C19a: unset Smaller of the argument must not wipe a set one
		{{Since: d(1)}, {Smaller: 5}},
		{{Larger: 5}, {Before: d(2)}},
		{{Larger: 3}, {Larger: 5}}, {{Larger: 5}, {Larger: 3}},
		{{Smaller: 7}, {Smaller: 5}}, {{Smaller: 5}, {Smaller: 7}},
		{{Since: d(1)}, {Since: d(2)}}, {{Before: d(3)}, {Before: d(1)}},
		{{SentSince: d(1)}, {Since: d(2)}},
		{{Flag: []imap.Flag{imap.FlagSeen}}, {NotFlag: []imap.Flag{imap.FlagDeleted}}},
		{{Not: []imap.SearchCriteria{{Flag: []imap.Flag{imap.FlagSeen}}}}, {Or: [][2]imap.SearchCriteria{{{Larger: 5}, {Smaller: 3}}}}},
		{{}, {Smaller: 5}}, {{Smaller: 5}, {}},
	}
	for _, p := range pairs {
		checkLaw(t, p[0], p[1])
		ev.Eval()
	}
}
