package c19

// Part 3 of C19 (anchor imapserver/imapmemserver/message.go): the same
// permutation/intersection oracle, end to end through the real server parser
// AND the in-memory backend's matcher, on a mailbox of real messages whose
// attributes are known to the harness.

import (
	"fmt"
	"sort"
	"strconv"
	"strings"
	"sync"
	"testing"

	imap "github.com/emersion/go-imap/v2"
	"github.com/emersion/go-imap/v2/imapserver"
	"github.com/emersion/go-imap/v2/imapserver/imapmemserver"
	"github.com/emersion/go-imap/v2/verifh/kit/ev"
	"github.com/emersion/go-imap/v2/verifh/kit/smodel"
	"github.com/emersion/go-imap/v2/verifh/kit/srv"
	"github.com/emersion/go-imap/v2/verifh/kit/tok"
	"pgregory.net/rapid"
)

type backendEnv struct {
	raw  *srv.Raw
	msgs []smodel.Msg
	dom  keyDomain
	n    int
}

var (
	beMu sync.Mutex
	be   *backendEnv
)

func getBackend() (*backendEnv, error) {
	if be != nil {
		return be, nil
	}
	mem := imapmemserver.New()
	user := imapmemserver.NewUser("u", "p")
	user.Create("INBOX", nil)
	mem.AddUser(user)
	env := srv.Start(imapserver.Options{
		NewSession: func(*imapserver.Conn) (imapserver.Session, *imapserver.GreetingData, error) {
			return mem.NewSession(), nil, nil
		},
		InsecureAuth: true,
		Caps:         imap.CapSet{imap.CapIMAP4rev1: {}, imap.CapLiteralPlus: {}},
	})
	raw := env.Dial()
	if _, err := raw.Greeting(); err != nil {
		return nil, err
	}
	if _, st, err := raw.Cmd("l", "LOGIN u p"); err != nil || st.Status != "OK" {
		return nil, fmt.Errorf("login: %v %v", st, err)
	}
	src := smodel.NewUniverse(40)
	b := &backendEnv{raw: raw}
	sizes := map[int64]bool{}
	for i, m := range src.Msgs {
		var sb strings.Builder
		fmt.Fprintf(&sb, "Subject: %s\r\n", m.Headers["subject"])
		if v, ok := m.Headers["x-a"]; ok {
			fmt.Fprintf(&sb, "X-A: %s\r\n", v)
		}
		d := smodel.Base.AddDate(0, 0, m.SentDay)
		fmt.Fprintf(&sb, "Date: %s\r\n", d.Format("Mon, 02 Jan 2006")+" 12:00:00 +0000")
		sb.WriteString("\r\n")
		body := m.Body + strings.Repeat(".", int(m.Size)*7)
		if i%4 == 1 {
			// some messages are larger than any I/O buffer, with the searched
			// words at the very beginning of the body
			body += "\r\n" + strings.Repeat("padding line of a large message\r\n", 200+i)
		}
		sb.WriteString(body)
		text := sb.String()
		var flags []string
		for f := range m.Flags {
			flags = append(flags, f)
		}
		sort.Strings(flags)
		idate := smodel.Base.AddDate(0, 0, m.InternalDay).Format("02-Jan-2006") + " 10:00:00 +0000"
		cmd := fmt.Sprintf("APPEND INBOX (%s) \"%s\" {%d+}\r\n%s", strings.Join(flags, " "), idate, len(text), text)
		if _, st, err := raw.Cmd(fmt.Sprintf("a%d", i), cmd); err != nil || st.Status != "OK" {
			return nil, fmt.Errorf("append %d: %v %v", i, st, err)
		}
		m.Seq, m.UID = uint32(i+1), uint32(i+1)
		// the model sees the message as stored: every header line, whole body
		hdrs := map[string]string{}
		for k, v := range m.Headers {
			hdrs[k] = v
		}
		hdrs["date"] = d.Format("Mon, 02 Jan 2006") + " 12:00:00 +0000"
		m.Headers = hdrs
		m.Body = body
		m.Size = int64(len(text))
		sizes[m.Size] = true
		b.msgs = append(b.msgs, m)
	}
	for sz := range sizes {
		b.dom.larger = append(b.dom.larger, sz-1, sz)
		b.dom.smaller = append(b.dom.smaller, sz, sz+1)
	}
	sort.Slice(b.dom.larger, func(i, j int) bool { return b.dom.larger[i] < b.dom.larger[j] })
	sort.Slice(b.dom.smaller, func(i, j int) bool { return b.dom.smaller[i] < b.dom.smaller[j] })
	b.dom.maxSeq, b.dom.maxUID = len(b.msgs), len(b.msgs)
	if _, st, err := raw.Cmd("s", "EXAMINE INBOX"); err != nil || st.Status != "OK" {
		return nil, fmt.Errorf("examine: %v %v", st, err)
	}
	be = b
	return be, nil
}

func (b *backendEnv) search(cmd string) ([]int, string, error) {
	b.n++
	tag := fmt.Sprintf("t%d", b.n)
	lines, st, err := b.raw.Cmd(tag, cmd)
	if err != nil {
		be = nil
		return nil, "", err
	}
	if st.Status != "OK" {
		return nil, st.Status + " " + st.Text, nil
	}
	var out []int
	for _, l := range lines {
		if len(l.Toks) >= 3 && l.Toks[2].Kind == tok.Atom && l.Toks[2].S == "SEARCH" {
			for _, tk := range l.Toks[3:] {
				if tk.Kind == tok.Atom {
					n, err := strconv.Atoi(tk.S)
					if err != nil {
						return nil, "", fmt.Errorf("bad SEARCH response %q", l.Raw)
					}
					out = append(out, n)
				}
			}
		}
	}
	sort.Ints(out)
	return out, "", nil
}

func checkBackendPermutations(t fataler, keys []key) (perms, expectN int) {
	beMu.Lock()
	defer beMu.Unlock()
	b, err := getBackend()
	if err != nil {
		t.Fatalf("HARNESS: backend set-up: %v", err)
	}
	var want []int
	for _, m := range b.msgs {
		ok := true
		for _, k := range keys {
			if !k.pred(m) {
				ok = false
			}
		}
		if ok {
			want = append(want, int(m.Seq))
		}
	}
	for _, p := range permutations(len(keys)) {
		var parts []string
		for _, i := range p {
			parts = append(parts, keys[i].text)
		}
		cmd := "SEARCH " + strings.Join(parts, " ")
		got, refused, err := b.search(cmd)
		if err != nil {
			t.Fatalf("%q: %v", cmd, err)
		}
		if refused != "" {
			t.Fatalf("%q: valid SEARCH command refused: %s", cmd, refused)
		}
		if fmt.Sprint(got) != fmt.Sprint(want) {
			t.Fatalf("%q returned messages %v, the intersection of its keys is %v", cmd, got, want)
		}
		perms++
	}
	return perms, len(want)
}

func TestPropSearchBackend(t *testing.T) {
	rapid.Check(t, func(t *rapid.T) {
		beMu.Lock()
		b, err := getBackend()
		beMu.Unlock()
		if err != nil {
			t.Fatalf("HARNESS: %v", err)
		}
		n := rapid.SampledFrom([]int{1, 2, 2, 3, 3, 4}).Draw(t, "nkeys")
		dom := b.dom
		dom.heavy = rapid.IntRange(0, 3).Draw(t, "textheavy") == 0
		if dom.heavy {
			ev.Class("backend-text-heavy-command")
		}
		var keys []key
		for i := 0; i < n; i++ {
			keys = append(keys, genKey(t, 2, dom))
		}
		perms, expectN := checkBackendPermutations(t, keys)
		ev.Eval()
		ev.ClassN("backend-permutations-sent", int64(perms))
		var texts []string
		for _, k := range keys {
			texts = append(texts, k.text)
			ev.Class("backend-key:" + strings.SplitN(strings.TrimLeft(k.text, "("), " ", 2)[0])
		}
		if n >= 2 && expectN < len(b.msgs) && expectN > 0 {
			ev.NonTrivial("backend:" + strings.Join(texts, " | "))
		}
		ev.Sample(fmt.Sprintf("backend SEARCH %s  (%d permutations, %d/%d messages)", strings.Join(texts, " "), perms, expectN, len(b.msgs)))
	})
}

func TestReplayBackend(t *testing.T) {
	seen, flagged, deleted, kw := hasFlag("\\seen"), hasFlag("\\flagged"), hasFlag("\\deleted"), hasFlag("kw")
	or := func(a, b func(smodel.Msg) bool) func(smodel.Msg) bool {
		return func(m smodel.Msg) bool { return a(m) || b(m) }
	}
	sets := [][]key{
		{{"OR SEEN FLAGGED", or(seen, flagged)}, {"OR DELETED KEYWORD kw", or(deleted, kw)}},
		{{"OR DELETED KEYWORD kw", or(deleted, kw)}, {"OR SEEN FLAGGED", or(seen, flagged)}, {"NOT SEEN", notp(seen)}},
		{{"NOT OR SEEN FLAGGED", notp(or(seen, flagged))}},
	}
	for _, ks := range sets {
		checkBackendPermutations(t, ks)
		ev.Eval()
	}
}
