// Package c08 checks C08: on-the-wire mailbox view consistency across
// sessions of a server running the in-memory backend.
//
// Generated histories of commands issued one at a time by 1..4 raw sessions
// sharing two mailboxes; every session may be arbitrarily stale. The oracle is
// the per-connection Observer of kit/mem (invariants over the response stream)
// plus, after every NOOP and at the end of the history, the comparison of the
// list the observer reconstructed with the mailbox's actual list as seen by a
// freshly selecting oracle connection.
package c08

import (
	"fmt"
	"os"
	"sort"
	"strings"
	"testing"

	"github.com/emersion/go-imap/v2/verifh/kit/ev"
	"github.com/emersion/go-imap/v2/verifh/kit/mem"
	"github.com/emersion/go-imap/v2/verifh/kit/tok"
	"pgregory.net/rapid"
)

func TestMain(m *testing.M) { ev.Main(m) }

var boxes = []string{"INBOX", "Other"}

type sess struct {
	c    *mem.Conn
	sel  string // selected mailbox ("" = none)
	seen int    // mailbox version this session has been told about
}

type world struct {
	t        *rapid.T
	w        *mem.World
	orc      *mem.Conn
	ss       []*sess
	version  map[string]int
	hist     []string
	staleCmd int // commands started by a session with pending updates
	counts   map[string]int
}

func (wd *world) fail(f string, a ...any) {
	msg := fmt.Sprintf(f, a...)
	var log []string
	for _, s := range wd.ss {
		log = append(log, s.c.Log...)
	}
	wd.t.Fatalf("%s\nhistory:\n  %s\nper-connection transcripts:\n  %s", msg, strings.Join(wd.hist, "\n  "), strings.Join(log, "\n  "))
}

func (wd *world) checkObs(s *sess, what string) {
	if v := s.c.Obs.Violations; len(v) > 0 {
		wd.fail("session %d, %s: %s", s.c.ID, what, strings.Join(v, "; "))
	}
}

// do runs one command on s and checks the wire invariants.
func (wd *world) do(s *sess, name string, uid bool, text string) (lines []*tok.Line, st *tok.Line) {
	if s.sel != "" && wd.version[s.sel] > s.seen {
		wd.staleCmd++
	}
	wd.hist = append(wd.hist, fmt.Sprintf("S%d %s", s.c.ID, text))
	wd.counts[name]++
	lines, st, err := s.c.Do(name, uid, text)
	if err != nil {
		wd.fail("session %d: %q: %v", s.c.ID, text, err)
	}
	wd.hist[len(wd.hist)-1] += " -> " + st.Status
	wd.checkObs(s, fmt.Sprintf("answering %q", text))
	wd.after(s, name, uid)
	return lines, st
}

// after updates the staleness bookkeeping (evidence only).
func (wd *world) after(s *sess, name string, uid bool) {
	if s.sel == "" {
		return
	}
	if !uid && (name == "FETCH" || name == "STORE" || name == "SEARCH") {
		return
	}
	s.seen = wd.version[s.sel]
}

// truth returns the actual UID list of a mailbox, read by a connection that
// selects it afresh.
func (wd *world) truth(box string) []uint32 {
	_, st, err := wd.orc.Do("EXAMINE", false, "EXAMINE "+box)
	if err != nil || st.Status != "OK" {
		wd.fail("oracle connection: EXAMINE %s: %v %v", box, st, err)
	}
	n := len(wd.orc.Obs.View)
	if n > 0 {
		if _, st, err = wd.orc.Do("FETCH", false, "FETCH 1:* (UID)"); err != nil || st.Status != "OK" {
			wd.fail("oracle connection: FETCH 1:* (UID): %v %v", st, err)
		}
	}
	if v := wd.orc.Obs.Violations; len(v) > 0 {
		wd.fail("oracle connection (fresh selection of %s): %s", box, strings.Join(v, "; "))
	}
	out := append([]uint32(nil), wd.orc.Obs.View...)
	for i, u := range out {
		if u == 0 {
			wd.fail("oracle connection: FETCH 1:* (UID) on %s (%d messages) did not report message %d", box, n, i+1)
		}
	}
	if !sort.SliceIsSorted(out, func(i, j int) bool { return out[i] < out[j] }) {
		wd.fail("oracle connection: UIDs of %s are not ascending: %v", box, out)
	}
	if _, st, err = wd.orc.Do("UNSELECT", false, "UNSELECT"); err != nil || st.Status != "OK" {
		wd.fail("oracle connection: UNSELECT: %v %v", st, err)
	}
	return out
}

// quiescent: after a NOOP on s, the list s can reconstruct equals the truth.
func (wd *world) quiescent(s *sess) {
	if s.sel == "" || s.c.Idle {
		return
	}
	wd.do(s, "NOOP", false, "NOOP")
	want := wd.truth(s.sel)
	got := s.c.Obs.View
	if len(got) != len(want) {
		wd.fail("session %d after NOOP: it has been told of %d messages in %s (view %v) but the mailbox holds %d (UIDs %v)", s.c.ID, len(got), s.sel, got, len(want), want)
	}
	for i := range got {
		if got[i] != 0 && got[i] != want[i] {
			wd.fail("session %d after NOOP: its message %d is UID %d according to what it was sent (view %v) but the mailbox's message %d is UID %d (%v)", s.c.ID, i+1, got[i], got, i+1, want[i], want)
		}
	}
	// what the session is told when it asks must be the same list
	if len(want) > 0 {
		wd.do(s, "FETCH", false, "FETCH 1:* (UID)")
		got = s.c.Obs.View
		if fmt.Sprint(got) != fmt.Sprint(want) {
			wd.fail("session %d after NOOP: FETCH 1:* (UID) reconstructs %v but the mailbox holds %v", s.c.ID, got, want)
		}
	}
	ev.Class("quiescence-check")
}

func seqSet(t *rapid.T, n int) string {
	elem := func() string {
		switch k := rapid.IntRange(0, 9).Draw(t, "elemkind"); {
		case k <= 5:
			return fmt.Sprint(rapid.IntRange(1, n+2).Draw(t, "num"))
		case k == 6:
			return "*"
		case k == 7:
			return fmt.Sprintf("%d:*", rapid.IntRange(1, n+2).Draw(t, "from"))
		default:
			a, b := rapid.IntRange(1, n+2).Draw(t, "a"), rapid.IntRange(1, n+2).Draw(t, "b")
			return fmt.Sprintf("%d:%d", a, b)
		}
	}
	k := rapid.IntRange(1, 3).Draw(t, "nelems")
	var parts []string
	for i := 0; i < k; i++ {
		parts = append(parts, elem())
	}
	return strings.Join(parts, ",")
}

func (wd *world) pick(t *rapid.T, pred func(*sess) bool) *sess {
	var c []*sess
	for _, s := range wd.ss {
		if pred(s) {
			c = append(c, s)
		}
	}
	if len(c) == 0 {
		return nil
	}
	return c[rapid.IntRange(0, len(c)-1).Draw(t, "session")]
}

func selected(s *sess) bool { return s.sel != "" && !s.c.Idle }
func free(s *sess) bool     { return !s.c.Idle }

var flagPool = []string{`\Deleted`, `\Deleted`, `\Seen`, `\Flagged`, "kw1", `\Deleted \Seen`}

func runHistory(t *rapid.T) {
	w := mem.Start(boxes...)
	defer w.Stop()
	wd := &world{t: t, w: w, version: map[string]int{}, counts: map[string]int{}}
	orc, err := w.Dial()
	if err != nil {
		t.Fatalf("oracle dial: %v", err)
	}
	wd.orc = orc
	defer orc.Close()
	open := func() *sess {
		c, err := w.Dial()
		if err != nil {
			t.Fatalf("dial: %v", err)
		}
		s := &sess{c: c}
		wd.ss = append(wd.ss, s)
		wd.hist = append(wd.hist, fmt.Sprintf("S%d connects and logs in", c.ID))
		return s
	}
	defer func() {
		for _, s := range wd.ss {
			s.c.Close()
		}
	}()
	// start with some content and one selected session
	first := open()
	for i, n := 0, rapid.IntRange(0, 5).Draw(t, "initial"); i < n; i++ {
		first.c.Append("INBOX", "", []byte(fmt.Sprintf("Subject: init %d\r\n\r\nbody\r\n", i)))
		wd.version["INBOX"]++
	}
	mutate := func(box string) { wd.version[box]++ }
	uidWord := func(uid bool) string {
		if uid {
			return "UID "
		}
		return ""
	}
	numset := func(t *rapid.T, s *sess, uid bool) string {
		n := len(s.c.Obs.View)
		if uid {
			n += 4
		}
		return seqSet(t, n)
	}
	other := func(box string) string {
		if box == "INBOX" {
			return "Other"
		}
		return "INBOX"
	}
	actions := map[string]func(*rapid.T){
		"open": func(t *rapid.T) {
			if len(wd.ss) >= 4 {
				return
			}
			s := open()
			if rapid.IntRange(0, 3).Draw(t, "selectnow") != 0 {
				box := rapid.SampledFrom(boxes).Draw(t, "box")
				if _, st := wd.do(s, "SELECT", false, "SELECT "+box); st.Status == "OK" {
					s.sel, s.seen = box, wd.version[box]
				}
			}
		},
		"select": func(t *rapid.T) {
			s := wd.pick(t, free)
			if s == nil {
				return
			}
			box := rapid.SampledFrom(boxes).Draw(t, "box")
			verb := rapid.SampledFrom([]string{"SELECT", "SELECT", "EXAMINE"}).Draw(t, "verb")
			s.sel = ""
			_, st := wd.do(s, verb, false, verb+" "+box)
			if st.Status == "OK" {
				s.sel = box
				s.seen = wd.version[box]
			}
		},
		"append": func(t *rapid.T) {
			s := wd.pick(t, free)
			if s == nil {
				return
			}
			box := rapid.SampledFrom(boxes).Draw(t, "box")
			fl := ""
			if rapid.Bool().Draw(t, "withflags") {
				fl = "(" + rapid.SampledFrom(flagPool).Draw(t, "flags") + ")"
			}
			wd.hist = append(wd.hist, fmt.Sprintf("S%d APPEND %s %s", s.c.ID, box, fl))
			wd.counts["APPEND"]++
			if s.sel != "" && wd.version[s.sel] > s.seen {
				wd.staleCmd++
			}
			_, st, err := s.c.Append(box, fl, []byte("Subject: x\r\n\r\nhello\r\n"))
			if err != nil || st.Status != "OK" {
				wd.fail("session %d: APPEND: %v %v", s.c.ID, st, err)
			}
			wd.checkObs(s, "answering APPEND")
			mutate(box)
			wd.after(s, "APPEND", false)
		},
		"store": func(t *rapid.T) {
			s := wd.pick(t, selected)
			if s == nil {
				return
			}
			uid := rapid.Bool().Draw(t, "uid")
			op := rapid.SampledFrom([]string{"+FLAGS", "+FLAGS", "-FLAGS", "FLAGS", "+FLAGS.SILENT", "-FLAGS.SILENT"}).Draw(t, "op")
			fl := rapid.SampledFrom(flagPool).Draw(t, "flags")
			wd.do(s, "STORE", uid, fmt.Sprintf("%sSTORE %s %s (%s)", uidWord(uid), numset(t, s, uid), op, fl))
			mutate(s.sel)
		},
		"expunge": func(t *rapid.T) {
			s := wd.pick(t, selected)
			if s == nil {
				return
			}
			if rapid.IntRange(0, 3).Draw(t, "uidexpunge") == 0 {
				wd.do(s, "EXPUNGE", true, "UID EXPUNGE "+numset(t, s, true))
			} else {
				wd.do(s, "EXPUNGE", false, "EXPUNGE")
			}
			mutate(s.sel)
		},
		"copymove": func(t *rapid.T) {
			s := wd.pick(t, selected)
			if s == nil {
				return
			}
			uid := rapid.Bool().Draw(t, "uid")
			verb := rapid.SampledFrom([]string{"COPY", "MOVE", "MOVE"}).Draw(t, "verb")
			dest := other(s.sel)
			if rapid.IntRange(0, 9).Draw(t, "samebox") == 0 {
				dest = s.sel
			}
			_, st := wd.do(s, verb, uid, fmt.Sprintf("%s%s %s %s", uidWord(uid), verb, numset(t, s, uid), dest))
			if st.Status == "OK" {
				mutate(dest)
				if verb == "MOVE" {
					mutate(s.sel)
				}
			}
		},
		"fetch": func(t *rapid.T) {
			s := wd.pick(t, selected)
			if s == nil {
				return
			}
			uid := rapid.Bool().Draw(t, "uid")
			items := rapid.SampledFrom([]string{"(UID)", "(FLAGS)", "(UID FLAGS RFC822.SIZE)", "(BODY.PEEK[])", "(BODY[])"}).Draw(t, "items")
			wd.do(s, "FETCH", uid, fmt.Sprintf("%sFETCH %s %s", uidWord(uid), numset(t, s, uid), items))
			if items == "(BODY[])" {
				mutate(s.sel) // sets \Seen
			}
		},
		"search": func(t *rapid.T) {
			s := wd.pick(t, selected)
			if s == nil {
				return
			}
			uid := rapid.Bool().Draw(t, "uid")
			ret := rapid.SampledFrom([]string{"", "", "RETURN (ALL) ", "RETURN (MIN MAX COUNT) ", "RETURN () "}).Draw(t, "return")
			var key string
			switch rapid.IntRange(0, 5).Draw(t, "key") {
			case 0:
				key = "ALL"
			case 1:
				key = "DELETED"
			case 2:
				key = "UNDELETED"
			case 3:
				key = seqSet(t, len(s.c.Obs.View))
			case 4:
				key = "UID " + seqSet(t, len(s.c.Obs.View)+4)
			default:
				key = "NOT " + seqSet(t, len(s.c.Obs.View))
			}
			wd.do(s, "SEARCH", uid, fmt.Sprintf("%sSEARCH %s%s", uidWord(uid), ret, key))
		},
		"rejected": func(t *rapid.T) {
			// a non-UID FETCH/STORE/SEARCH that the server rejects: what it
			// reports on that occasion is subject to the same rule (no EXPUNGE)
			s := wd.pick(t, selected)
			if s == nil {
				return
			}
			bad := rapid.SampledFrom([]string{"FETCH 1 BOGUSITEM", "FETCH 1", "STORE 1 BOGUS", "SEARCH BOGUSKEY", "FETCH 1 (FLAGS BOGUS)", "STORE 1 +FLAGS", "SEARCH LARGER x"}).Draw(t, "bad")
			if _, st := wd.do(s, strings.Fields(bad)[0], false, bad); st.Status == "OK" {
				wd.fail("HARNESS: %q was expected to be rejected", bad)
			}
		},
		"noop": func(t *rapid.T) {
			s := wd.pick(t, selected)
			if s == nil {
				return
			}
			wd.quiescent(s)
		},
		"idle": func(t *rapid.T) {
			s := wd.pick(t, selected)
			if s == nil {
				return
			}
			if s.sel != "" && wd.version[s.sel] > s.seen {
				wd.staleCmd++
			}
			wd.hist = append(wd.hist, fmt.Sprintf("S%d IDLE", s.c.ID))
			wd.counts["IDLE"]++
			if err := s.c.StartIdle(); err != nil {
				wd.fail("session %d: %v", s.c.ID, err)
			}
			wd.checkObs(s, "entering IDLE")
		},
		"done": func(t *rapid.T) {
			s := wd.pick(t, func(s *sess) bool { return s.c.Idle })
			if s == nil {
				return
			}
			wd.hist = append(wd.hist, fmt.Sprintf("S%d DONE", s.c.ID))
			_, st, err := s.c.Done()
			if err != nil || st.Status != "OK" {
				wd.fail("session %d: DONE: %v %v", s.c.ID, st, err)
			}
			wd.checkObs(s, "during IDLE")
			wd.after(s, "IDLE", false)
		},
		"close": func(t *rapid.T) {
			s := wd.pick(t, selected)
			if s == nil {
				return
			}
			verb := rapid.SampledFrom([]string{"CLOSE", "UNSELECT"}).Draw(t, "verb")
			box := s.sel
			_, st := wd.do(s, verb, false, verb)
			if st.Status == "OK" {
				s.sel = ""
				if verb == "CLOSE" {
					mutate(box)
				}
			}
		},
		"reconnect": func(t *rapid.T) {
			if len(wd.ss) < 2 || rapid.IntRange(0, 3).Draw(t, "really") != 0 {
				return
			}
			i := rapid.IntRange(0, len(wd.ss)-1).Draw(t, "session")
			wd.hist = append(wd.hist, fmt.Sprintf("S%d disconnects", wd.ss[i].c.ID))
			wd.ss[i].c.Close()
			wd.ss = append(wd.ss[:i], wd.ss[i+1:]...)
		},
	}
	// weighted choice (rapid's Repeat picks uniformly): mutations of selected
	// mailboxes and the commands that observe them dominate
	var weighted []string
	for name, wgt := range map[string]int{"open": 3, "select": 5, "append": 10, "store": 14, "expunge": 10, "copymove": 10, "fetch": 9,
		"search": 8, "rejected": 3, "noop": 8, "idle": 4, "done": 8, "close": 2, "reconnect": 2} {
		for i := 0; i < wgt; i++ {
			weighted = append(weighted, name)
		}
	}
	sort.Strings(weighted)
	second := open()
	for _, s := range []*sess{first, second} {
		box := rapid.SampledFrom([]string{"INBOX", "INBOX", "Other"}).Draw(t, "box0")
		if _, st := wd.do(s, "SELECT", false, "SELECT "+box); st.Status == "OK" {
			s.sel, s.seen = box, wd.version[box]
		}
	}
	t.Repeat(map[string]func(*rapid.T){
		"step": func(t *rapid.T) {
			// rapid favours small values: scramble so that no action is favoured
			v := rapid.Uint64().Draw(t, "action")
			v = (v ^ (v >> 30)) * 0xbf58476d1ce4e5b9
			v = (v ^ (v >> 27)) * 0x94d049bb133111eb
			v ^= v >> 31
			actions[weighted[v%uint64(len(weighted))]](t)
		},
	})
	// end of history: every session catches up and must agree with the truth
	for _, s := range wd.ss {
		if s.c.Idle {
			_, st, err := s.c.Done()
			if err != nil || st.Status != "OK" {
				wd.fail("session %d: final DONE: %v %v", s.c.ID, st, err)
			}
			wd.checkObs(s, "during IDLE")
		}
		wd.quiescent(s)
	}
	if ps := w.Env.Log.Panics(); len(ps) > 0 {
		wd.fail("server log reports a panic: %s", strings.Join(ps, " | "))
	}
	// evidence
	ev.Eval()
	shared := map[string]int{}
	for _, s := range wd.ss {
		if s.sel != "" {
			shared[s.sel]++
		}
	}
	multi := false
	for _, n := range shared {
		if n >= 2 {
			multi = true
		}
	}
	if wd.staleCmd > 0 {
		ev.NonTrivial(strings.Join(wd.hist, "|"))
		ev.Class("history-with-command-under-pending-updates")
	}
	if multi {
		ev.Class("ends-with->=2-sessions-on-one-mailbox")
	}
	ev.ClassN("commands-started-while-stale", int64(wd.staleCmd))
	for k, n := range wd.counts {
		ev.ClassN("cmd:"+k, int64(n))
	}
	var nexp int
	for _, s := range wd.ss {
		nexp += s.c.Obs.NExpunge
	}
	ev.ClassN("EXPUNGE-responses-observed", int64(nexp))
	ev.Sample(strings.Join(wd.hist, " ; "))
}

func TestPropViews(t *testing.T) {
	rapid.Check(t, runHistory)
}

var _ = os.Getenv
