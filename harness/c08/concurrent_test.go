package c08

import (
	"fmt"
	"strings"
	"sync"
	"testing"

	"github.com/emersion/go-imap/v2/verifh/kit/ev"
	"github.com/emersion/go-imap/v2/verifh/kit/mem"
	"pgregory.net/rapid"
)

// TestPropConcurrentSelect: the histories of TestPropViews await every
// command before the next one starts. Here a session SELECTs a mailbox at the
// very moment other sessions remove messages from it (MOVE / EXPUNGE of many
// messages, so that the removal takes a while) or append to it; all commands
// of a round start together. After the round every session synchronises
// (NOOP) and the list it can reconstruct from what it was sent - the count of
// its SELECT, plus EXISTS, minus EXPUNGE - must be the mailbox as a freshly
// selecting connection sees it. The oracle is exact; the interleavings are the
// Go runtime's, searched by repetition.
func TestPropConcurrentSelect(t *testing.T) {
	rapid.Check(t, func(t *rapid.T) {
		w := mem.Start(boxes...)
		defer w.Stop()
		wd := &world{t: t, w: w, version: map[string]int{}, counts: map[string]int{}}
		orc, err := w.Dial()
		if err != nil {
			t.Fatalf("oracle dial: %v", err)
		}
		wd.orc = orc
		defer orc.Close()
		nsess := rapid.IntRange(2, 4).Draw(t, "sessions")
		for i := 0; i < nsess; i++ {
			c, err := w.Dial()
			if err != nil {
				t.Fatalf("dial: %v", err)
			}
			defer c.Close()
			wd.ss = append(wd.ss, &sess{c: c})
		}
		body := strings.Repeat("a line of the message body\r\n", rapid.SampledFrom([]int{1, 40, 400}).Draw(t, "bodylines"))
		fill := func(n int) {
			for i := 0; i < n; i++ {
				if _, st, err := orc.Append("INBOX", "", []byte(fmt.Sprintf("Subject: m%d\r\n\r\n%s", i, body))); err != nil || st.Status != "OK" {
					t.Fatalf("filling INBOX: %v %v", st, err)
				}
			}
		}
		fill(rapid.IntRange(20, 120).Draw(t, "initial"))
		rounds := rapid.IntRange(3, 10).Draw(t, "rounds")
		for r := 0; r < rounds; r++ {
			// roles of this round (drawn in the test goroutine)
			type job struct {
				s    *sess
				cmds [][3]string // name, "uid"/"", text
			}
			var jobs []job
			selector := rapid.IntRange(0, nsess-1).Draw(t, "selector")
			for i, s := range wd.ss {
				if i == selector {
					box := "INBOX"
					verb := rapid.SampledFrom([]string{"SELECT", "EXAMINE"}).Draw(t, "verb")
					jobs = append(jobs, job{s, [][3]string{{verb, "", verb + " " + box}}})
					continue
				}
				// the others work on INBOX; they select it first (sequentially,
				// below) if they have not yet
				switch rapid.SampledFrom([]string{"move", "move", "expunge", "append", "uidmove"}).Draw(t, "role") {
				case "move":
					jobs = append(jobs, job{s, [][3]string{{"MOVE", "", "MOVE 1:* Other"}}})
				case "uidmove":
					jobs = append(jobs, job{s, [][3]string{{"MOVE", "uid", "UID MOVE 1:* Other"}}})
				case "expunge":
					jobs = append(jobs, job{s, [][3]string{{"STORE", "", `STORE 1:* +FLAGS.SILENT (\Deleted)`}, {"EXPUNGE", "", "EXPUNGE"}}})
				default:
					jobs = append(jobs, job{s, [][3]string{{"APPEND", "", ""}}})
				}
			}
			for i, s := range wd.ss {
				if i != selector && s.sel != "INBOX" {
					wd.do(s, "SELECT", false, "SELECT INBOX")
					s.sel = "INBOX"
				}
			}
			start := make(chan struct{})
			errs := make(chan string, len(jobs))
			var wg sync.WaitGroup
			for _, j := range jobs {
				wg.Add(1)
				go func(j job) {
					defer wg.Done()
					<-start
					for _, c := range j.cmds {
						if c[0] == "APPEND" {
							if _, st, err := j.s.c.Append("INBOX", "", []byte("Subject: new\r\n\r\n"+body)); err != nil || st.Status != "OK" {
								errs <- fmt.Sprintf("session %d: APPEND: %v %v", j.s.c.ID, st, err)
								return
							}
							continue
						}
						_, st, err := j.s.c.Do(c[0], c[1] == "uid", c[2])
						if err != nil {
							errs <- fmt.Sprintf("session %d: %q: %v", j.s.c.ID, c[2], err)
							return
						}
						if st.Status != "OK" && c[0] != "MOVE" && c[0] != "STORE" {
							errs <- fmt.Sprintf("session %d: %q answered %s", j.s.c.ID, c[2], st.Raw)
							return
						}
					}
				}(j)
			}
			close(start)
			wg.Wait()
			close(errs)
			for e := range errs {
				wd.fail("%s", e)
			}
			for _, j := range jobs {
				for _, c := range j.cmds {
					wd.hist = append(wd.hist, fmt.Sprintf("round %d, concurrently: S%d %s", r, j.s.c.ID, c[0]+" "+c[2]))
				}
			}
			wd.ss[selector].sel = "INBOX"
			for _, s := range wd.ss {
				wd.checkObs(s, fmt.Sprintf("round %d (commands of all sessions started together)", r))
			}
			for _, s := range wd.ss {
				wd.quiescent(s)
			}
			ev.Eval()
			// refill for the next round
			if len(wd.truth("INBOX")) < 20 {
				fill(rapid.IntRange(20, 80).Draw(t, "refill"))
			}
		}
		ev.NonTrivial(fmt.Sprintf("concsel:%d:%d:%d", nsess, rounds, len(body)))
		ev.Class(fmt.Sprintf("concurrent-select:sessions=%d", nsess))
		if n := len(wd.hist); n > 0 {
			ev.Sample(strings.Join(wd.hist[max(0, n-6):], "; "))
		}
	})
}
