// Package c05 decides property C05: the server reaches the backend only in
// states where RFC 9051 permits the command, accepts credentials only over TLS
// unless InsecureAuth is set, and its connection state evolves as the RFC
// state diagram prescribes for every backend outcome.
// Oracle: a reference connection state machine (table command x state ->
// permitted, backend calls expected, transition per outcome) stepped alongside
// a real imapserver driven over a raw connection with a recording stub session.
package c05

import (
	"encoding/base64"
	"errors"
	"fmt"
	"io"
	"strings"
	"sync"
	"testing"
	"time"

	imap "github.com/emersion/go-imap/v2"
	"github.com/emersion/go-imap/v2/imapserver"
	"github.com/emersion/go-imap/v2/verifh/kit/ev"
	"github.com/emersion/go-imap/v2/verifh/kit/srv"
	"github.com/emersion/go-imap/v2/verifh/kit/stub"
	"github.com/emersion/go-imap/v2/verifh/kit/tlsutil"
	"github.com/emersion/go-imap/v2/verifh/kit/tok"
	"pgregory.net/rapid"
)

func TestMain(m *testing.M) { ev.Main(m) }

type state int

const (
	sNotAuth state = iota
	sAuth
	sSelected
	sLogout
)

func (s state) String() string { return [...]string{"notauth", "auth", "selected", "logout"}[s] }

type config struct {
	tls          bool // implicit TLS from the first byte
	startTLS     bool // server has a TLSConfig (STARTTLS offerable on plaintext)
	insecureAuth bool
	preauth      bool
	features     stub.Feature
}

func (c config) String() string {
	return fmt.Sprintf("tls=%v starttls=%v insecureAuth=%v preauth=%v features=%04b", c.tls, c.startTLS, c.insecureAuth, c.preauth, c.features)
}

// cmdSpec describes one command shape of the alphabet.
type cmdSpec struct {
	name  string // label
	text  string // command text after the tag
	min   state  // lowest state in which the command is permitted: sNotAuth(only), sAuth(+selected), sSelected
	only  bool   // permitted only in exactly min (LOGIN/AUTHENTICATE/STARTTLS)
	any   bool   // permitted in any state, no backend call
	calls []string
	needs stub.Feature
}

var alphabet = []cmdSpec{
	{name: "CAPABILITY", text: "CAPABILITY", any: true},
	{name: "NOOP", text: "NOOP", any: true},
	{name: "CHECK", text: "CHECK", any: true},
	{name: "LOGOUT", text: "LOGOUT", any: true},
	{name: "STARTTLS", text: "STARTTLS", min: sNotAuth, only: true},
	{name: "LOGIN", text: "LOGIN user pass", min: sNotAuth, only: true, calls: []string{"Login"}},
	{name: "AUTHENTICATE-IR", text: "AUTHENTICATE PLAIN " + base64.StdEncoding.EncodeToString([]byte("\x00user\x00pass")), min: sNotAuth, only: true},
	{name: "AUTHENTICATE", text: "AUTHENTICATE PLAIN", min: sNotAuth, only: true},
	// other SASL mechanisms: subject to exactly the same channel rule; a session
	// without SASL support only knows the built-in PLAIN
	{name: "AUTHENTICATE-X", text: "AUTHENTICATE XOAUTH2", min: sNotAuth, only: true},
	{name: "AUTHENTICATE-X-IR", text: "AUTHENTICATE cram-md5 " + base64.StdEncoding.EncodeToString([]byte("\x00user\x00pass")), min: sNotAuth, only: true},
	{name: "UNAUTHENTICATE", text: "UNAUTHENTICATE", min: sAuth, calls: []string{"Unauthenticate"}, needs: stub.FUnauth},
	{name: "ENABLE", text: "ENABLE IMAP4rev2", min: sAuth},
	{name: "SELECT", text: "SELECT mbox", min: sAuth},
	{name: "EXAMINE", text: "EXAMINE mbox", min: sAuth},
	{name: "CREATE", text: "CREATE mbox", min: sAuth, calls: []string{"Create"}},
	{name: "DELETE", text: "DELETE mbox", min: sAuth, calls: []string{"Delete"}},
	{name: "RENAME", text: "RENAME a b", min: sAuth, calls: []string{"Rename"}},
	{name: "SUBSCRIBE", text: "SUBSCRIBE mbox", min: sAuth, calls: []string{"Subscribe"}},
	{name: "UNSUBSCRIBE", text: "UNSUBSCRIBE mbox", min: sAuth, calls: []string{"Unsubscribe"}},
	{name: "LIST", text: `LIST "" *`, min: sAuth, calls: []string{"List"}},
	{name: "LSUB", text: `LSUB "" *`, min: sAuth, calls: []string{"List"}},
	{name: "NAMESPACE", text: "NAMESPACE", min: sAuth, calls: []string{"Namespace"}, needs: stub.FNamespace},
	{name: "STATUS", text: "STATUS mbox (MESSAGES UNSEEN)", min: sAuth, calls: []string{"Status"}},
	{name: "APPEND", text: "APPEND mbox {5+}\r\nhello", min: sAuth, calls: []string{"Append"}},
	{name: "IDLE", text: "IDLE", min: sAuth, calls: []string{"Idle"}},
	{name: "CLOSE", text: "CLOSE", min: sSelected},
	{name: "UNSELECT", text: "UNSELECT", min: sSelected, calls: []string{"Unselect"}},
	{name: "EXPUNGE", text: "EXPUNGE", min: sSelected, calls: []string{"Expunge"}},
	{name: "UID EXPUNGE", text: "UID EXPUNGE 1:5", min: sSelected, calls: []string{"Expunge"}},
	{name: "SEARCH", text: "SEARCH ALL", min: sSelected, calls: []string{"Search"}},
	{name: "UID SEARCH", text: "UID SEARCH UNSEEN", min: sSelected, calls: []string{"Search"}},
	{name: "FETCH", text: "FETCH 1:2 (FLAGS)", min: sSelected, calls: []string{"Fetch"}},
	{name: "UID FETCH", text: "UID FETCH 1:* (UID)", min: sSelected, calls: []string{"Fetch"}},
	{name: "STORE", text: `STORE 1 +FLAGS (\Seen)`, min: sSelected, calls: []string{"Store"}},
	{name: "UID STORE", text: `UID STORE 1 FLAGS.SILENT (\Seen)`, min: sSelected, calls: []string{"Store"}},
	{name: "COPY", text: "COPY 1 dest", min: sSelected, calls: []string{"Copy"}},
	{name: "UID COPY", text: "UID COPY 1 dest", min: sSelected, calls: []string{"Copy"}},
	{name: "MOVE", text: "MOVE 1 dest", min: sSelected, calls: []string{"Move"}, needs: stub.FMove},
	{name: "UID MOVE", text: "UID MOVE 1 dest", min: sSelected, calls: []string{"Move"}, needs: stub.FMove},
	{name: "UNKNOWN", text: "FROBNICATE now"},
	{name: "UNKNOWN-UID", text: "UID FROBNICATE 1"},
}

type outcome string // "ok", "no", "bad", "err"

func outcomeErr(o outcome) error {
	switch o {
	case "no":
		return &imap.Error{Type: imap.StatusResponseTypeNo, Text: "backend says no"}
	case "bad":
		return &imap.Error{Type: imap.StatusResponseTypeBad, Text: "backend says bad"}
	case "err":
		return errors.New("backend exploded")
	}
	return nil
}

type fataler interface {
	Fatalf(format string, args ...any)
}

type run struct {
	cfg   config
	env   *srv.Env
	core  *stub.Core
	raw   *srv.Raw
	st    state
	isTLS bool
	hist  []string
	mu    sync.Mutex
	plan  map[string]outcome // outcome per backend method for the current command
	tagN  int
	cells map[string]bool
}

func (r *run) fail(t fataler, f string, a ...any) {
	t.Fatalf("[%s] %s\nhistory:\n  %s\nserver log: %v", r.cfg, fmt.Sprintf(f, a...), strings.Join(r.hist, "\n  "), r.env.Log.Lines())
}

func capsFor(f stub.Feature) imap.CapSet {
	caps := imap.CapSet{imap.CapIMAP4rev1: {}}
	if f&stub.FMove != 0 {
		caps[imap.CapMove] = struct{}{}
	}
	if f&stub.FNamespace != 0 {
		caps[imap.CapNamespace] = struct{}{}
	}
	if f&stub.FUnauth != 0 {
		caps[imap.CapUnauthenticate] = struct{}{}
	}
	if f&stub.FMove != 0 && f&stub.FNamespace != 0 {
		caps[imap.CapIMAP4rev2] = struct{}{}
	}
	return caps
}

func start(t fataler, cfg config) *run {
	r := &run{cfg: cfg, core: stub.NewCore(), plan: map[string]outcome{}, cells: map[string]bool{}}
	r.core.Outcome = func(method string) error {
		r.mu.Lock()
		defer r.mu.Unlock()
		return outcomeErr(r.plan[method])
	}
	opts := imapserver.Options{
		NewSession: func(*imapserver.Conn) (imapserver.Session, *imapserver.GreetingData, error) {
			return stub.Session(r.core, cfg.features), &imapserver.GreetingData{PreAuth: cfg.preauth}, nil
		},
		InsecureAuth: cfg.insecureAuth,
		Caps:         capsFor(cfg.features),
	}
	if cfg.startTLS || cfg.tls {
		opts.TLSConfig = tlsutil.ServerConfig()
	}
	r.env = srv.Start(opts)
	if cfg.tls {
		r.raw = r.env.DialTLS(tlsutil.ServerConfig(), tlsutil.ClientConfig())
		r.isTLS = true
	} else {
		r.raw = r.env.Dial()
	}
	g, err := r.raw.Greeting()
	if err != nil {
		r.fail(t, "no greeting: %v", err)
	}
	r.st = sNotAuth
	wantGreeting := "OK"
	if cfg.preauth {
		r.st = sAuth
		wantGreeting = "PREAUTH"
	}
	if g.Status != wantGreeting || g.Tag != "*" {
		r.fail(t, "greeting %q, want * %s", g.Raw, wantGreeting)
	}
	r.hist = append(r.hist, fmt.Sprintf("greeting %s [%s]", g.Status, g.Code))
	r.checkCaps(t, strings.Fields(g.Code), "greeting")
	return r
}

func (r *run) stop() {
	r.raw.Close()
	r.env.Stop()
}

func (r *run) canAuth() bool { return r.st == sNotAuth && (r.isTLS || r.cfg.insecureAuth) }

// checkCaps compares a capability list with the model state.
func (r *run) checkCaps(t fataler, caps []string, where string) {
	if len(caps) > 0 && caps[0] == "CAPABILITY" {
		caps = caps[1:]
	}
	has := func(c string) bool {
		for _, x := range caps {
			if strings.EqualFold(x, c) {
				return true
			}
		}
		return false
	}
	hasAuth := false
	for _, x := range caps {
		if strings.HasPrefix(strings.ToUpper(x), "AUTH=") {
			hasAuth = true
		}
	}
	if r.st == sNotAuth {
		if r.canAuth() {
			if !hasAuth || has("LOGINDISABLED") {
				r.fail(t, "%s: capabilities %v in state notauth with authentication allowed: want AUTH= and no LOGINDISABLED", where, caps)
			}
		} else if hasAuth || !has("LOGINDISABLED") {
			r.fail(t, "%s: capabilities %v on an unencrypted connection without InsecureAuth: credentials are offered", where, caps)
		}
		wantStartTLS := (r.cfg.startTLS || r.cfg.tls) && !r.isTLS
		if has("STARTTLS") != wantStartTLS {
			r.fail(t, "%s: STARTTLS advertised=%v, want %v (caps %v)", where, has("STARTTLS"), wantStartTLS, caps)
		}
		if has("IDLE") || has("UNSELECT") {
			r.fail(t, "%s: capabilities %v look authenticated but the model state is notauth", where, caps)
		}
	} else {
		if hasAuth || has("LOGINDISABLED") || has("STARTTLS") {
			r.fail(t, "%s: capabilities %v in state %s still offer authentication/STARTTLS", where, caps, r.st)
		}
		if !has("IDLE") || !has("UNSELECT") {
			r.fail(t, "%s: capabilities %v look unauthenticated but the model state is %s", where, caps, r.st)
		}
	}
}

func methods(calls []stub.Call) []string {
	var out []string
	for _, c := range calls {
		out = append(out, c.Method)
	}
	return out
}

// step issues one command and compares everything observable with the model.
func (r *run) step(t fataler, spec cmdSpec, plan map[string]outcome) {
	r.tagN++
	tag := fmt.Sprintf("a%d", r.tagN)
	r.mu.Lock()
	r.plan = plan
	r.mu.Unlock()
	r.core.Reset()
	before := r.st
	r.cells[before.String()+"/"+spec.name] = true

	// ---- model: permitted? expected calls? expected final state?
	permitted := false
	switch {
	case spec.any:
		permitted = true
	case strings.HasPrefix(spec.name, "UNKNOWN"):
		permitted = false
	case spec.only:
		permitted = before == spec.min
	default:
		permitted = before >= spec.min && before != sLogout
	}
	var wantCalls []string
	ok := permitted
	after := before
	expectClose := false
	oc := func(m string) outcome {
		if o, ok := plan[m]; ok {
			return o
		}
		return "ok"
	}
	switch spec.name {
	case "LOGOUT":
		after, expectClose = sLogout, true
	case "UNKNOWN", "UNKNOWN-UID":
		if before == sNotAuth {
			after, expectClose = sLogout, true
		}
	case "STARTTLS":
		if permitted {
			switch {
			case !(r.cfg.startTLS || r.cfg.tls):
				ok = false
			case r.isTLS:
				ok = false
			}
		}
	case "LOGIN", "AUTHENTICATE", "AUTHENTICATE-IR", "AUTHENTICATE-X", "AUTHENTICATE-X-IR":
		if permitted && !r.canAuth() {
			permitted, ok = false, false
		}
		if permitted && strings.HasPrefix(spec.name, "AUTHENTICATE-X") && r.cfg.features&stub.FSASL == 0 {
			// mechanism unknown to the built-in fallback: refused, backend not reached
			ok = false
		} else if permitted {
			if spec.name == "LOGIN" || r.cfg.features&stub.FSASL == 0 {
				wantCalls = []string{"Login"}
				ok = oc("Login") == "ok"
			} else {
				wantCalls = []string{"Authenticate"}
				ok = oc("Authenticate") == "ok"
				if ok {
					wantCalls = append(wantCalls, "SASL-PLAIN")
					ok = oc("SASL-PLAIN") == "ok"
				}
			}
			if ok {
				after = sAuth
			}
		}
	case "SELECT", "EXAMINE":
		if permitted {
			if before == sSelected {
				wantCalls = append(wantCalls, "Unselect")
				if oc("Unselect") != "ok" {
					ok = false
					break
				}
				after = sAuth
			}
			wantCalls = append(wantCalls, "Select")
			if oc("Select") == "ok" {
				after = sSelected
			} else {
				ok = false
			}
		}
	case "CLOSE":
		if permitted {
			wantCalls = []string{"Expunge"}
			if oc("Expunge") != "ok" {
				ok = false
				break
			}
			wantCalls = append(wantCalls, "Unselect")
			if oc("Unselect") != "ok" {
				ok = false
				break
			}
			after = sAuth
		}
	default:
		if permitted && spec.needs != 0 && r.cfg.features&spec.needs == 0 {
			permitted, ok = false, false
		}
		if permitted {
			wantCalls = append(wantCalls, spec.calls...)
			for _, m := range spec.calls {
				if oc(m) != "ok" {
					ok = false
				}
			}
			if ok {
				switch spec.name {
				case "UNSELECT":
					after = sAuth
				case "UNAUTHENTICATE":
					after = sNotAuth
				}
			}
		}
	}

	// ---- drive the server
	wire := tag + " " + spec.text + "\r\n"
	if expectClose {
		// a command pipelined in the same segment behind a connection-ending
		// command must never be processed
		wire += "zz LOGIN user pass\r\n"
	}
	if err := r.raw.Send(wire); err != nil {
		r.fail(t, "send %s: %v", spec.name, err)
	}
	var lines []*tok.Line
	var final *tok.Line
	sawCont := 0
	for {
		l, err := r.raw.ReadLine()
		if err != nil {
			if err == io.EOF && final != nil {
				break
			}
			r.fail(t, "%s %q in state %s: reading response: %v (lines so far: %d)", tag, spec.text, before, err, len(lines))
		}
		if l.IsCont {
			sawCont++
			switch {
			case spec.name == "IDLE":
				r.raw.Send("DONE\r\n")
			case spec.name == "AUTHENTICATE" || spec.name == "AUTHENTICATE-X":
				r.raw.Send(base64.StdEncoding.EncodeToString([]byte("\x00user\x00pass")) + "\r\n")
			default:
				r.fail(t, "%s %q: unexpected continuation request %q", tag, spec.text, l.Raw)
			}
			if sawCont > 3 {
				r.fail(t, "%s %q: too many continuation requests", tag, spec.text)
			}
			continue
		}
		lines = append(lines, l)
		if l.Status != "" && l.Tag == tag {
			final = l
			break
		}
	}
	r.hist = append(r.hist, fmt.Sprintf("%s %s [state %s, plan %v] -> %s %s", tag, spec.name, before, plan, final.Status, final.Text))

	// ---- compare
	got := methods(r.core.Calls())
	if fmt.Sprint(got) != fmt.Sprint(wantCalls) {
		r.fail(t, "%s in state %s (permitted=%v): backend calls %v, the model expects %v", spec.name, before, permitted, got, wantCalls)
	}
	// Session.Poll is a session operation too: it may only be reached while
	// somebody is logged in. It runs after the handler, i.e. in the state
	// the command leaves the connection in.
	if after == sNotAuth || after == sLogout {
		for _, c := range r.core.AllCalls() {
			if c.Method == "Poll" {
				r.fail(t, "%s in state %s leaves the connection in state %s, yet the backend was polled for mailbox updates (Session.Poll) on its behalf", spec.name, before, after)
			}
		}
	}
	if ok && final.Status != "OK" {
		r.fail(t, "%s in state %s: permitted and every backend call succeeded, but the server answered %s %s", spec.name, before, final.Status, final.Text)
	}
	if !ok && final.Status == "OK" {
		r.fail(t, "%s in state %s: answered OK although it is not permitted here or the backend failed (plan %v)", spec.name, before, plan)
	}
	if !ok && final.Status != "NO" && final.Status != "BAD" {
		r.fail(t, "%s: tagged response %q is neither NO nor BAD", spec.name, final.Raw)
	}
	if spec.name == "IDLE" && (sawCont > 0) != permitted {
		r.fail(t, "IDLE in state %s: continuation sent=%v, permitted=%v", before, sawCont > 0, permitted)
	}
	sawBye := false
	for _, l := range lines {
		if l.Status == "BYE" && l.Tag == "*" {
			sawBye = true
		}
	}
	r.st = after
	if spec.name == "STARTTLS" && ok {
		if err := r.raw.StartTLS(tlsutil.ClientConfig()); err != nil {
			r.fail(t, "TLS handshake after STARTTLS OK failed: %v", err)
		}
		r.isTLS = true
	}
	if expectClose {
		// nothing further may be answered: expect EOF
		rest, err := r.raw.Drain()
		if err != nil {
			r.fail(t, "after %s the server did not close the connection: %v", spec.name, err)
		}
		for _, l := range rest {
			if l.Tag == "zz" {
				r.fail(t, "a command sent after %s was answered: %q", spec.name, l.Raw)
			}
			if l.Status == "BYE" && l.Tag == "*" {
				sawBye = true
			}
		}
		if !sawBye {
			r.fail(t, "%s in state %s: expected an untagged BYE", spec.name, before)
		}
		if !r.raw.WaitServerClosed(5 * time.Second) {
			r.fail(t, "after %s the server kept its end of the connection open", spec.name)
		}
		if got := methods(r.core.Calls()); fmt.Sprint(got) != fmt.Sprint(wantCalls) {
			r.fail(t, "a command pipelined behind %s reached the backend: calls %v, expected %v", spec.name, got, wantCalls)
		}
		return
	}
	if sawBye {
		r.fail(t, "%s in state %s: unexpected BYE", spec.name, before)
	}
	// capability fingerprint of the state: from this response if it carries
	// one, otherwise via a CAPABILITY command (no backend involvement)
	if spec.name == "CAPABILITY" {
		for _, l := range lines {
			if l.Status == "" && len(l.Toks) > 2 && l.Toks[2].S == "CAPABILITY" {
				var caps []string
				for _, tk := range l.Toks[3:] {
					if tk.Kind == tok.Atom {
						caps = append(caps, tk.S)
					}
				}
				r.checkCaps(t, caps, "CAPABILITY")
			}
		}
	} else if final.Status == "OK" && strings.HasPrefix(final.Code, "CAPABILITY") {
		r.checkCaps(t, strings.Fields(final.Code), spec.name+" completion")
	}
}

func (r *run) probeCaps(t fataler) {
	r.tagN++
	tag := fmt.Sprintf("c%d", r.tagN)
	r.core.Reset()
	lines, st, err := r.raw.Cmd(tag, "CAPABILITY")
	if err != nil || st.Status != "OK" {
		r.fail(t, "CAPABILITY probe failed: %v %v", st, err)
	}
	for _, l := range lines {
		if len(l.Toks) > 2 && l.Toks[2].S == "CAPABILITY" {
			var caps []string
			for _, tk := range l.Toks[3:] {
				if tk.Kind == tok.Atom {
					caps = append(caps, tk.S)
				}
			}
			r.checkCaps(t, caps, "CAPABILITY probe")
		}
	}
	if c := r.core.Calls(); len(c) != 0 {
		r.fail(t, "CAPABILITY reached the backend: %v", c)
	}
}

func genConfig(t *rapid.T) config {
	c := config{
		tls:          rapid.Bool().Draw(t, "tls"),
		insecureAuth: rapid.Bool().Draw(t, "insecureAuth"),
		preauth:      rapid.IntRange(0, 4).Draw(t, "preauth") == 3,
		features:     stub.Feature(rapid.SampledFrom([]int{0, 15, 15, 3, 4, 8, 12, 7, 11, 1, 2}).Draw(t, "features")),
	}
	if !c.tls {
		c.startTLS = rapid.Bool().Draw(t, "startTLS")
	}
	return c
}

func genPlan(t *rapid.T) map[string]outcome {
	plan := map[string]outcome{}
	for _, m := range []string{"Login", "Authenticate", "SASL-PLAIN", "Select", "Unselect", "Expunge", "Create", "Delete", "Rename", "Subscribe", "Unsubscribe",
		"List", "Namespace", "Status", "Append", "Idle", "Search", "Fetch", "Store", "Copy", "Move", "Unauthenticate"} {
		if v := rapid.IntRange(0, 11).Draw(t, "out."+m); v >= 4 && v <= 6 {
			plan[m] = []outcome{"no", "bad", "err"}[v-4]
		}
	}
	return plan
}

func TestPropStateMachine(t *testing.T) {
	rapid.Check(t, func(t *rapid.T) {
		cfg := genConfig(t)
		r := start(t, cfg)
		defer r.stop()
		forbidden, changes := 0, 0
		steps := rapid.IntRange(1, 25).Draw(t, "steps")
		for i := 0; i < steps && r.st != sLogout; i++ {
			// bias towards commands that make progress through the state diagram
			var spec cmdSpec
			switch rapid.IntRange(0, 9).Draw(t, "bias") {
			case 4:
				spec = alphabet[5] // LOGIN
			case 5:
				spec = alphabet[10] // SELECT
			default:
				spec = rapid.SampledFrom(alphabet).Draw(t, "cmd")
			}
			plan := genPlan(t)
			before := r.st
			r.step(t, spec, plan)
			if r.st != before {
				changes++
			}
			if !spec.any && !strings.HasPrefix(spec.name, "UNKNOWN") {
				perm := (spec.only && before == spec.min) || (!spec.only && before >= spec.min)
				if !perm {
					forbidden++
				}
			}
			if r.st != sLogout && rapid.IntRange(0, 3).Draw(t, "probe") == 2 {
				r.probeCaps(t)
			}
		}
		ev.Eval()
		if forbidden > 0 && changes > 0 {
			ev.NonTrivial(cfg.String() + strings.Join(r.hist, ";"))
		}
		for c := range r.cells {
			ev.Class("cell:" + c)
		}
		ev.Class("cfg:" + fmt.Sprintf("tls=%v,insecure=%v,preauth=%v", cfg.tls, cfg.insecureAuth, cfg.preauth))
		if r.core.CloseCount() > 1 {
			r.fail(t, "session closed %d times", r.core.CloseCount())
		}
		ev.Sample(cfg.String() + " :: " + strings.Join(r.hist, " | "))
	})
}

// TestReplayScenarios: the named clauses of the statement as fixed histories.
func TestReplayScenarios(t *testing.T) {
	find := func(name string) cmdSpec {
		for _, s := range alphabet {
			if s.name == name {
				return s
			}
		}
		panic(name)
	}
	ok := map[string]outcome{}
	// failed SELECT from selected leaves no mailbox selected
	r := start(t, config{insecureAuth: true, features: stub.FAll})
	r.step(t, find("LOGIN"), ok)
	r.step(t, find("SELECT"), ok)
	r.step(t, find("FETCH"), ok)
	r.step(t, find("SELECT"), map[string]outcome{"Select": "no"})
	r.step(t, find("FETCH"), ok)
	r.step(t, find("EXPUNGE"), ok)
	r.step(t, find("LOGOUT"), ok)
	r.stop()
	ev.Eval()
	// credentials on plaintext without InsecureAuth
	r = start(t, config{startTLS: true, features: stub.FAll})
	r.step(t, find("LOGIN"), ok)
	r.step(t, find("AUTHENTICATE-IR"), ok)
	r.step(t, find("SELECT"), ok)
	r.step(t, find("STARTTLS"), ok)
	r.step(t, find("STARTTLS"), ok)
	r.step(t, find("LOGIN"), ok)
	r.step(t, find("LOGIN"), ok)
	r.step(t, find("UNAUTHENTICATE"), ok)
	r.step(t, find("AUTHENTICATE"), ok)
	r.step(t, find("UNKNOWN"), ok)
	r.step(t, find("LOGOUT"), ok)
	r.stop()
	ev.Eval()
	// unknown command before authentication terminates the connection
	r = start(t, config{insecureAuth: true})
	r.step(t, find("UNKNOWN"), ok)
	r.stop()
	ev.Eval()
	// preauth over TLS
	r = start(t, config{tls: true, preauth: true, features: stub.FMove | stub.FNamespace})
	r.step(t, find("LOGIN"), ok)
	r.step(t, find("EXAMINE"), ok)
	r.step(t, find("CLOSE"), map[string]outcome{"Expunge": "err"})
	r.step(t, find("CLOSE"), ok)
	r.step(t, find("CLOSE"), ok)
	r.step(t, find("IDLE"), ok)
	r.step(t, find("UNAUTHENTICATE"), ok)
	r.stop()
	ev.Eval()
}

// TestReplayStartTLSPipelining: credentials pipelined in cleartext behind
// STARTTLS (same segment) must not reach the backend: when they were sent the
// connection was neither encrypted nor allowed to authenticate in the clear.
// (The STARTTLS boundary itself is property C17; this is its C05 face: a
// backend method reached in a state that does not permit it.)
func TestReplayStartTLSPipelining(t *testing.T) {
	for _, inj := range []string{"p2 LOGIN u p\r\n", "p2 AUTHENTICATE PLAIN AHUAcA==\r\n", "p2 LOGIN {1+}\r\nu {1+}\r\np\r\n"} {
		r := start(t, config{startTLS: true, features: stub.FAll})
		if err := r.raw.Send("p1 STARTTLS\r\n" + inj); err != nil {
			t.Fatalf("send: %v", err)
		}
		_, st, err := r.raw.WaitTag("p1")
		if err != nil || st.Status != "OK" {
			t.Fatalf("STARTTLS: %v %v", st, err)
		}
		if err := r.raw.StartTLS(tlsutil.ClientConfig()); err == nil {
			r.raw.Timeout = 2 * time.Second
			r.raw.Send("p3 NOOP\r\n")
			r.raw.WaitTag("p3") // whatever the server makes of the injected bytes, give it time to act on them
		}
		for _, c := range r.core.AllCalls() {
			if c.Method == "Login" || c.Method == "Authenticate" {
				t.Fatalf("credentials sent in cleartext behind STARTTLS (%q in the same segment) reached the backend: %s %v", inj, c.Method, c.Args)
			}
		}
		r.stop()
		ev.Eval()
	}
	ev.NonTrivial("scenario:credentials-pipelined-behind-starttls")
	// the peer breaks the upgrade with something that is not TLS, waits for
	// the reaction, and carries on in cleartext: the connection is not
	// protected, credentials must not be accepted (InsecureAuth is off)
	for _, late := range []string{"p3 LOGIN u p\r\n", "p3 AUTHENTICATE PLAIN AHUAcA==\r\n"} {
		r := start(t, config{startTLS: true, features: stub.FAll})
		if err := r.raw.Send("p1 STARTTLS\r\n"); err != nil {
			t.Fatalf("send: %v", err)
		}
		if _, st, err := r.raw.WaitTag("p1"); err != nil || st.Status != "OK" {
			t.Fatalf("STARTTLS: %v %v", st, err)
		}
		r.raw.Send("certainly not a TLS record\r\n")
		time.Sleep(20 * time.Millisecond)
		r.raw.Send(late)
		r.raw.Timeout = 300 * time.Millisecond
		r.raw.WaitTag("p3")
		for _, c := range r.core.AllCalls() {
			if c.Method == "Login" || c.Method == "Authenticate" {
				t.Fatalf("after a failed TLS handshake the server accepted cleartext credentials (%q): %s %v", late, c.Method, c.Args)
			}
		}
		r.stop()
		ev.Eval()
	}
	ev.NonTrivial("scenario:cleartext-credentials-after-failed-handshake")
}

// TestReplaySlowIdle: a backend whose Idle takes its time to return after DONE.
// IDLE is one command: nothing else of the session may be invoked (no next
// command, no Close) before it has returned.
func TestReplaySlowIdle(t *testing.T) {
	for _, next := range []string{"n1 NOOP\r\nn2 LOGOUT\r\n", "n1 LOGOUT\r\n", "n1 UNAUTHENTICATE\r\nn2 LOGIN u p\r\n"} {
		r := start(t, config{insecureAuth: true, features: stub.FAll})
		r.core.IdleExitDelay = 1500 * time.Millisecond
		r.raw.Timeout = 5 * time.Second
		r.raw.Send("a1 LOGIN u p\r\na2 SELECT INBOX\r\na3 IDLE\r\n")
		r.raw.WaitTag("a2")
		time.Sleep(20 * time.Millisecond)
		r.raw.Send("DONE\r\n" + next)
		r.raw.WaitTag("a3")
		lines := strings.Split(strings.TrimSuffix(next, "\r\n"), "\r\n")
		r.raw.WaitTag(strings.Fields(lines[len(lines)-1])[0])
		time.Sleep(50 * time.Millisecond)
		if ov := r.core.Overlaps(); len(ov) > 0 {
			t.Fatalf("session methods %v were invoked while Session.Idle had not returned yet (commands after DONE: %q)", ov, next)
		}
		r.stop()
		ev.Eval()
	}
	ev.NonTrivial("scenario:slow-idle-backend")
}
