// Package tok is an independent IMAP framer/tokenizer written from RFC 9051
// sections 4 and 9. It imports nothing from go-imap, so that bytes produced by
// the library are never judged by the library's own decoder.
//
// A "line" is one response or command: text up to CRLF, where a "{n}" /
// "{n+}" / "~{n}" immediately before CRLF announces n literal octets after
// which the line continues. Status responses (tag SP OK/NO/BAD/BYE/PREAUTH)
// and continuation requests ("+ ...") carry free text and are never
// tokenized past their response code.
package tok

import (
	"bytes"
	"errors"
	"fmt"
	"io"
	"strconv"
	"strings"
)

type Kind int

const (
	Atom Kind = iota
	Quoted
	Literal
	SP
	LParen
	RParen
	LBrack
	RBrack
)

func (k Kind) String() string {
	return [...]string{"atom", "quoted", "literal", "SP", "(", ")", "[", "]"}[k]
}

type Tok struct {
	Kind    Kind
	S       string // atom text, decoded quoted string, or literal payload
	NonSync bool   // literal announced with '+'
	Binary  bool   // literal8 ('~' prefix)
	N       int64  // announced literal size
	Raw8bit bool   // quoted string contains bytes >= 0x80
	RawCtl  bool   // quoted string contains CR, LF or NUL
}

// Line is one framed response/command.
type Line struct {
	Raw    []byte
	Toks   []Tok  // empty for status/continuation lines beyond the head
	Tag    string // first token ("*", "+", or a tag)
	Status string // OK/NO/BAD/BYE/PREAUTH when this is a status response
	Code   string // response code text between [ ] for status responses
	Text   string // free text of status / continuation lines
	IsCont bool   // "+" continuation request
}

var ErrIncomplete = errors.New("tok: incomplete line")

// SyntaxError reports malformed framing.
type SyntaxError struct {
	Msg string
	Pos int
}

func (e *SyntaxError) Error() string { return fmt.Sprintf("tok: %s at offset %d", e.Msg, e.Pos) }

func isStatusWord(s string) bool {
	switch strings.ToUpper(s) {
	case "OK", "NO", "BAD", "BYE", "PREAUTH":
		return true
	}
	return false
}

// Next frames and tokenizes the first line of b. It returns the line and the
// number of bytes consumed. server=true parses a server->client stream
// (status/continuation lines are recognised); server=false parses client
// commands.
func Next(b []byte, server bool) (*Line, int, error) {
	eol := bytes.Index(b, []byte("\r\n"))
	if eol < 0 {
		if bytes.IndexByte(b, '\n') >= 0 {
			return nil, 0, &SyntaxError{"bare LF", bytes.IndexByte(b, '\n')}
		}
		return nil, 0, ErrIncomplete
	}
	first := string(b[:eol])
	if server {
		if first == "+" || strings.HasPrefix(first, "+ ") {
			l := &Line{Raw: b[:eol+2], Tag: "+", IsCont: true, Text: strings.TrimPrefix(strings.TrimPrefix(first, "+"), " ")}
			return l, eol + 2, nil
		}
		parts := strings.SplitN(first, " ", 3)
		if len(parts) >= 2 && isStatusWord(parts[1]) && parts[0] != "" {
			l := &Line{Raw: b[:eol+2], Tag: parts[0], Status: strings.ToUpper(parts[1])}
			if len(parts) == 3 {
				rest := parts[2]
				if strings.HasPrefix(rest, "[") {
					if end := strings.IndexByte(rest, ']'); end >= 0 {
						l.Code = rest[1:end]
						rest = strings.TrimPrefix(rest[end+1:], " ")
					}
				}
				l.Text = rest
			}
			return l, eol + 2, nil
		}
	}
	// generic tokenization with literals
	l := &Line{}
	pos := 0
	for {
		if pos >= len(b) {
			return nil, 0, ErrIncomplete
		}
		c := b[pos]
		switch {
		case c == '\r':
			if pos+1 >= len(b) {
				return nil, 0, ErrIncomplete
			}
			if b[pos+1] != '\n' {
				return nil, 0, &SyntaxError{"CR not followed by LF", pos}
			}
			l.Raw = b[:pos+2]
			if len(l.Toks) > 0 && l.Toks[0].Kind == Atom {
				l.Tag = l.Toks[0].S
			}
			return l, pos + 2, nil
		case c == '\n':
			return nil, 0, &SyntaxError{"bare LF", pos}
		case c == ' ':
			l.Toks = append(l.Toks, Tok{Kind: SP})
			pos++
		case c == '(':
			l.Toks = append(l.Toks, Tok{Kind: LParen})
			pos++
		case c == ')':
			l.Toks = append(l.Toks, Tok{Kind: RParen})
			pos++
		case c == '[':
			l.Toks = append(l.Toks, Tok{Kind: LBrack})
			pos++
		case c == ']':
			l.Toks = append(l.Toks, Tok{Kind: RBrack})
			pos++
		case c == '"':
			var sb []byte
			t := Tok{Kind: Quoted}
			i := pos + 1
			for {
				if i >= len(b) {
					return nil, 0, ErrIncomplete
				}
				ch := b[i]
				if ch == '"' {
					break
				}
				if ch == '\\' {
					i++
					if i >= len(b) {
						return nil, 0, ErrIncomplete
					}
					ch = b[i]
					if ch != '"' && ch != '\\' {
						return nil, 0, &SyntaxError{"invalid quoted-pair", i}
					}
				}
				if ch >= 0x80 {
					t.Raw8bit = true
				}
				if ch == '\r' || ch == '\n' || ch == 0 {
					t.RawCtl = true
				}
				sb = append(sb, ch)
				i++
			}
			t.S = string(sb)
			l.Toks = append(l.Toks, t)
			pos = i + 1
		case c == '{' || (c == '~' && pos+1 < len(b) && b[pos+1] == '{'):
			t := Tok{Kind: Literal}
			i := pos
			if c == '~' {
				t.Binary = true
				i++
			}
			i++ // '{'
			j := i
			for j < len(b) && b[j] >= '0' && b[j] <= '9' {
				j++
			}
			if j >= len(b) {
				return nil, 0, ErrIncomplete
			}
			if j == i {
				return nil, 0, &SyntaxError{"literal without size", i}
			}
			n, err := strconv.ParseInt(string(b[i:j]), 10, 64)
			if err != nil {
				return nil, 0, &SyntaxError{"literal size overflow", i}
			}
			t.N = n
			if b[j] == '+' {
				t.NonSync = true
				j++
			}
			if j >= len(b) {
				return nil, 0, ErrIncomplete
			}
			if b[j] != '}' {
				return nil, 0, &SyntaxError{"malformed literal header", j}
			}
			if j+2 >= len(b) {
				return nil, 0, ErrIncomplete
			}
			if b[j+1] != '\r' || b[j+2] != '\n' {
				return nil, 0, &SyntaxError{"literal header not followed by CRLF", j + 1}
			}
			start := j + 3
			if int64(len(b)-start) < n {
				return nil, 0, ErrIncomplete
			}
			t.S = string(b[start : start+int(n)])
			l.Toks = append(l.Toks, t)
			pos = start + int(n)
		default:
			i := pos
			for i < len(b) {
				ch := b[i]
				if ch == ' ' || ch == '(' || ch == ')' || ch == '[' || ch == ']' || ch == '"' || ch == '\r' || ch == '\n' || ch == '{' {
					break
				}
				i++
			}
			if i == pos { // a lone '{' handled above; anything else would loop
				return nil, 0, &SyntaxError{"unexpected byte", pos}
			}
			l.Toks = append(l.Toks, Tok{Kind: Atom, S: string(b[pos:i])})
			pos = i
		}
	}
}

// All frames every complete line of b. rest is the unconsumed tail (an
// incomplete line), err a framing error.
func All(b []byte, server bool) (lines []*Line, rest []byte, err error) {
	for len(b) > 0 {
		l, n, e := Next(b, server)
		if e == ErrIncomplete {
			return lines, b, nil
		}
		if e != nil {
			return lines, b, e
		}
		lines = append(lines, l)
		b = b[n:]
	}
	return lines, nil, nil
}

// Node is a token tree: lists are nested.
type Node struct {
	Tok      Tok
	List     bool
	Bracket  bool // [ ... ] group
	Children []*Node
}

func (n *Node) String() string {
	if n.List || n.Bracket {
		var parts []string
		for _, c := range n.Children {
			parts = append(parts, c.String())
		}
		if n.Bracket {
			return "[" + strings.Join(parts, " ") + "]"
		}
		return "(" + strings.Join(parts, " ") + ")"
	}
	switch n.Tok.Kind {
	case Quoted:
		return strconv.Quote(n.Tok.S)
	case Literal:
		return fmt.Sprintf("{%d}%q", n.Tok.N, n.Tok.S)
	}
	return n.Tok.S
}

// IsAtom reports whether n is the atom s (case-insensitive).
func (n *Node) IsAtom(s string) bool {
	return !n.List && !n.Bracket && n.Tok.Kind == Atom && strings.EqualFold(n.Tok.S, s)
}

// Str returns the string value of an atom/quoted/literal node.
func (n *Node) Str() string { return n.Tok.S }

// IsNIL reports whether n is the atom NIL.
func (n *Node) IsNIL() bool { return n.IsAtom("NIL") }

// Tree builds the nested structure of a tokenized line: SP separators are
// dropped, ( ) and [ ] must balance.
func Tree(toks []Tok) ([]*Node, error) {
	root := &Node{List: true}
	stack := []*Node{root}
	for _, t := range toks {
		cur := stack[len(stack)-1]
		switch t.Kind {
		case SP:
		case LParen:
			n := &Node{List: true}
			cur.Children = append(cur.Children, n)
			stack = append(stack, n)
		case LBrack:
			n := &Node{Bracket: true}
			cur.Children = append(cur.Children, n)
			stack = append(stack, n)
		case RParen:
			if len(stack) == 1 || !cur.List {
				return nil, errors.New("tok: unbalanced ')'")
			}
			stack = stack[:len(stack)-1]
		case RBrack:
			if len(stack) == 1 || !cur.Bracket {
				return nil, errors.New("tok: unbalanced ']'")
			}
			stack = stack[:len(stack)-1]
		default:
			cur.Children = append(cur.Children, &Node{Tok: t})
		}
	}
	if len(stack) != 1 {
		return nil, errors.New("tok: unbalanced '(' or '['")
	}
	return root.Children, nil
}

// WellFormed checks that separators are single spaces between items, no
// leading/trailing space, and brackets balance.
func (l *Line) WellFormed() error {
	if l.Status != "" || l.IsCont {
		return nil
	}
	if len(l.Toks) == 0 {
		return errors.New("tok: empty line")
	}
	if l.Toks[0].Kind == SP || l.Toks[len(l.Toks)-1].Kind == SP {
		return errors.New("tok: leading or trailing space")
	}
	for i := 1; i < len(l.Toks); i++ {
		if l.Toks[i].Kind == SP && l.Toks[i-1].Kind == SP {
			return errors.New("tok: double space")
		}
	}
	_, err := Tree(l.Toks)
	return err
}

// Reader incrementally frames a stream.
type Reader struct {
	R      io.Reader
	Server bool
	buf    []byte
	eof    bool
	err    error
}

// ReadLine blocks until one complete line is framed. At end of stream it
// returns io.EOF (with any partial bytes available through Rest).
func (r *Reader) ReadLine() (*Line, error) {
	for {
		if len(r.buf) > 0 {
			l, n, err := Next(r.buf, r.Server)
			if err == nil {
				l.Raw = append([]byte(nil), l.Raw...)
				r.buf = r.buf[n:]
				return l, nil
			}
			if err != ErrIncomplete {
				return nil, err
			}
		}
		if r.eof {
			if r.err != nil && r.err != io.EOF {
				return nil, r.err
			}
			return nil, io.EOF
		}
		tmp := make([]byte, 65536)
		n, err := r.R.Read(tmp)
		r.buf = append(r.buf, tmp[:n]...)
		if err != nil {
			if te, ok := err.(interface{ Timeout() bool }); ok && te.Timeout() && n == 0 {
				return nil, err // a read deadline is not the end of the stream
			}
			r.eof, r.err = true, err
		}
	}
}

// Rest returns bytes received but not yet framed.
func (r *Reader) Rest() []byte { return r.buf }
