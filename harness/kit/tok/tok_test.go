package tok

import "testing"

func TestBasics(t *testing.T) {
	in := "* 1 FETCH (UID 5 BODY[HEADER.FIELDS (A B)]<0> {3}\r\nabc FLAGS (\\Seen))\r\na1 OK [READ-WRITE] done \"x\r\n+ go\r\n* LIST () \"/\" \"a\\\"b\"\r\npartial"
	lines, rest, err := All([]byte(in), true)
	if err != nil || len(lines) != 4 || string(rest) != "partial" {
		t.Fatalf("%v %d %q", err, len(lines), rest)
	}
	if lines[1].Status != "OK" || lines[1].Code != "READ-WRITE" || lines[1].Text != "done \"x" || lines[1].Tag != "a1" {
		t.Fatalf("%+v", lines[1])
	}
	if !lines[2].IsCont || lines[2].Text != "go" {
		t.Fatalf("%+v", lines[2])
	}
	tr, err := Tree(lines[0].Toks)
	if err != nil {
		t.Fatal(err)
	}
	if tr[3].String() != `(UID 5 BODY [HEADER.FIELDS (A B)] <0> {3}"abc" FLAGS (\Seen))` {
		t.Fatalf("%s", tr[3].String())
	}
	tr, _ = Tree(lines[3].Toks)
	if tr[4].Str() != `a"b` {
		t.Fatalf("%q", tr[4].Str())
	}
	for _, l := range lines {
		if err := l.WellFormed(); err != nil {
			t.Fatal(err)
		}
	}
	cl, _, err := All([]byte("a LOGIN {3+}\r\nabc {2}\r\nxy\r\nb NOOP\r\n"), false)
	if err != nil || len(cl) != 2 || cl[0].Toks[4].S != "abc" || !cl[0].Toks[4].NonSync || cl[0].Toks[6].NonSync {
		t.Fatalf("%v %+v", err, cl)
	}
}
