// Package smodel is the independent reference matcher for IMAP SEARCH criteria
// (RFC 9051 section 6.4.4) over a finite synthetic message universe. It is
// written from the RFC key semantics, not from imapmemserver's message.search.
package smodel

import (
	"fmt"
	"strings"
	"time"

	imap "github.com/emersion/go-imap/v2"
)

// Msg is a synthetic message.
type Msg struct {
	Seq, UID    uint32
	InternalDay int // days since Base
	SentDay     int
	Headers     map[string]string // canonical lower-case key -> value
	Body        string
	Flags       map[string]bool // lower-case flag -> present
	Size        int64
}

func (m Msg) String() string {
	return fmt.Sprintf("{seq=%d uid=%d iday=%d sday=%d hdr=%v body=%q flags=%v size=%d}", m.Seq, m.UID, m.InternalDay, m.SentDay, m.Headers, m.Body, m.Flags, m.Size)
}

// Base is day 0 of the universe (dates are calendar days; clock and zone of a
// criteria time are ignored, as documented on imap.SearchCriteria).
var Base = time.Date(2023, time.December, 30, 0, 0, 0, 0, time.UTC) // the universe straddles a year boundary

// DayOf maps a criteria time to its day index using its own calendar date.
func DayOf(t time.Time) int {
	y, mo, d := t.Date()
	return int(time.Date(y, mo, d, 0, 0, 0, 0, time.UTC).Sub(Base).Hours() / 24)
}

// DayTime returns a time on the given day with an arbitrary clock, in loc.
func DayTime(day, hour, min int, loc *time.Location) time.Time {
	d := Base.AddDate(0, 0, day)
	return time.Date(d.Year(), d.Month(), d.Day(), hour, min, 0, 0, loc)
}

func containsFold(hay, needle string) bool {
	return strings.Contains(strings.ToLower(hay), strings.ToLower(needle))
}

// MaxSeq/MaxUID give '*' its meaning when dynamic sets are used.
type Universe struct {
	Msgs           []Msg
	MaxSeq, MaxUID uint32
	// Saved is the result of the last SEARCH RETURN (SAVE): what the "$"
	// marker (imap.SearchRes) stands for in this universe.
	Saved map[uint32]bool
}

func inSeqSet(s imap.SeqSet, n, max uint32) bool {
	for _, r := range s {
		lo, hi := r.Start, r.Stop
		if lo == 0 {
			lo = max
		}
		if hi == 0 {
			hi = max
		}
		if lo > hi {
			lo, hi = hi, lo
		}
		if lo <= n && n <= hi {
			return true
		}
	}
	return false
}

func inUIDSet(s imap.UIDSet, n, max uint32) bool {
	for _, r := range s {
		lo, hi := uint32(r.Start), uint32(r.Stop)
		if lo == 0 {
			lo = max
		}
		if hi == 0 {
			hi = max
		}
		if lo > hi {
			lo, hi = hi, lo
		}
		if lo <= n && n <= hi {
			return true
		}
	}
	return false
}

// Match reports whether message m satisfies criteria c.
func (u *Universe) Match(c *imap.SearchCriteria, m Msg) bool {
	for _, s := range c.SeqNum {
		if !inSeqSet(s, m.Seq, u.MaxSeq) {
			return false
		}
	}
	for _, s := range c.UID {
		if imap.IsSearchRes(s) {
			if !u.Saved[m.UID] {
				return false
			}
			continue
		}
		if !inUIDSet(s, m.UID, u.MaxUID) {
			return false
		}
	}
	if !c.Since.IsZero() && !(m.InternalDay >= DayOf(c.Since)) {
		return false
	}
	if !c.Before.IsZero() && !(m.InternalDay < DayOf(c.Before)) {
		return false
	}
	if !c.SentSince.IsZero() && !(m.SentDay >= DayOf(c.SentSince)) {
		return false
	}
	if !c.SentBefore.IsZero() && !(m.SentDay < DayOf(c.SentBefore)) {
		return false
	}
	for _, h := range c.Header {
		v, ok := m.Headers[strings.ToLower(h.Key)]
		if !ok {
			return false
		}
		if h.Value != "" && !containsFold(v, h.Value) {
			return false
		}
	}
	for _, b := range c.Body {
		if !containsFold(m.Body, b) {
			return false
		}
	}
	for _, t := range c.Text {
		found := containsFold(m.Body, t)
		for k, v := range m.Headers {
			if containsFold(k+": "+v, t) {
				found = true
			}
		}
		if !found {
			return false
		}
	}
	for _, f := range c.Flag {
		if !m.Flags[strings.ToLower(string(f))] {
			return false
		}
	}
	for _, f := range c.NotFlag {
		if m.Flags[strings.ToLower(string(f))] {
			return false
		}
	}
	if c.Larger != 0 && !(m.Size > c.Larger) {
		return false
	}
	if c.Smaller != 0 && !(m.Size < c.Smaller) {
		return false
	}
	for i := range c.Not {
		if u.Match(&c.Not[i], m) {
			return false
		}
	}
	for i := range c.Or {
		if !u.Match(&c.Or[i][0], m) && !u.Match(&c.Or[i][1], m) {
			return false
		}
	}
	return true
}

// Select returns the indices of matching messages.
func (u *Universe) Select(c *imap.SearchCriteria) []int {
	var out []int
	for i, m := range u.Msgs {
		if u.Match(c, m) {
			out = append(out, i)
		}
	}
	return out
}

// NewUniverse builds a deterministic universe: a pseudo-random sample of the
// product of distinguishing values per field, so that every single-field
// constraint splits it and fields vary independently.
func NewUniverse(n int) *Universe {
	u := &Universe{}
	x := uint64(0x9E3779B97F4A7C15)
	next := func(k int) int {
		x ^= x << 13
		x ^= x >> 7
		x ^= x << 17
		return int(x>>33) % k
	}
	xa := []string{"", "foo", "bar baz"}
	// some words occur in headers of some messages and in bodies of others
	subj := []string{"hello world", "bye", "alpha news"}
	body := []string{"alpha beta", "gamma", "", "hello there"}
	sizes := []int64{0, 1, 3, 5, 7, 9, 10}
	for i := 0; i < n; i++ {
		m := Msg{
			Seq: uint32(i + 1), UID: uint32(10*(i+1) + next(3)),
			InternalDay: next(4), SentDay: next(4),
			Headers: map[string]string{"subject": subj[next(3)]},
			Body:    body[next(4)],
			Flags:   map[string]bool{},
			Size:    sizes[next(len(sizes))],
		}
		if v := xa[next(3)]; v != "" {
			m.Headers["x-a"] = v
		}
		for _, f := range []string{"\\seen", "\\deleted", "\\recent", "kw", "\\flagged"} {
			if next(2) == 0 {
				m.Flags[f] = true
			}
		}
		u.Msgs = append(u.Msgs, m)
	}
	u.MaxSeq = uint32(n)
	u.MaxUID = u.Msgs[n-1].UID
	u.Saved = map[uint32]bool{}
	for i, m := range u.Msgs {
		if i%3 != 1 {
			u.Saved[m.UID] = true
		}
	}
	return u
}
