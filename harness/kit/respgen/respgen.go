// Package respgen generates IMAP server responses of every kind imapclient
// parses (RFC 9051 section 7 plus SORT, THREAD, QUOTA, METADATA, ESEARCH,
// CONDSTORE items), as raw text with embedded literals, with boundary numbers.
package respgen

import (
	"fmt"
	"strings"

	"pgregory.net/rapid"
)

func pick[T any](t *rapid.T, label string, xs ...T) T { return rapid.SampledFrom(xs).Draw(t, label) }

// Num draws number text incl. boundaries and overflows.
func Num(t *rapid.T, label string) string {
	return pick(t, label, "0", "1", "2", "3", "7", "42", "4294967295", "4294967296", "9223372036854775807", "9223372036854775808", "18446744073709551615", "18446744073709551616", "00", "-1")
}

// Small draws small valid numbers (mostly).
func Small(t *rapid.T, label string) string {
	return pick(t, label, "1", "2", "3", "4", "5", "10", "1", "2", "0", "4294967295")
}

func quote(s string) string {
	return `"` + strings.NewReplacer(`\`, `\\`, `"`, `\"`).Replace(s) + `"`
}

// Str renders a string as quoted or literal.
func Str(t *rapid.T, label string) string {
	s := pick(t, label, "", "a", "hello world", "q\"uote", "b\\s", "é", "=?utf-8?q?x?=", "NIL", "INBOX", "x/y", "&AOk-", "&bad", "line\r\nbreak", "{3}", "(", strings.Repeat("L", 300))
	if strings.ContainsAny(s, "\r\n") || pick(t, label+".lit", 0, 0, 0, 1) == 1 {
		return fmt.Sprintf("{%d}\r\n%s", len(s), s)
	}
	return quote(s)
}

// NStr is Str or NIL.
func NStr(t *rapid.T, label string) string {
	if pick(t, label+".nil", 0, 0, 1) == 1 {
		return "NIL"
	}
	return Str(t, label)
}

func flagList(t *rapid.T, label string) string {
	n := rapid.IntRange(0, 3).Draw(t, label+".n")
	var l []string
	for i := 0; i < n; i++ {
		l = append(l, pick(t, label+".f", `\Seen`, `\Deleted`, `\*`, "kw", "$Junk", `\seen`, `\`, `\Weird`, "a(b"))
	}
	return "(" + strings.Join(l, " ") + ")"
}

// Set draws number-set text incl. invalid and dynamic forms.
func Set(t *rapid.T, label string) string {
	return pick(t, label, "1", "1:3", "1,3,5", "7:9,12", "4294967295", "1:4294967295", "*", "1:*", "0", "0:5", "1,,2", "$", "5:1", "4294967296", "1:2:3", "")
}

func address(t *rapid.T, label string) string {
	return "(" + NStr(t, label+".name") + " NIL " + NStr(t, label+".mbox") + " " + NStr(t, label+".host") + ")"
}

func addrList(t *rapid.T, label string) string {
	if pick(t, label+".nil", 0, 1) == 1 {
		return "NIL"
	}
	n := rapid.IntRange(0, 2).Draw(t, label+".n")
	var l []string
	for i := 0; i < n; i++ {
		l = append(l, address(t, label))
	}
	return "(" + strings.Join(l, "") + ")"
}

// Envelope draws an envelope.
func Envelope(t *rapid.T, label string) string {
	date := pick(t, label+".date", "NIL", `"Mon, 7 Feb 1994 21:52:25 -0800 (PST)"`, `"garbage"`, `""`)
	parts := []string{date, NStr(t, label+".subj")}
	for i := 0; i < 6; i++ {
		parts = append(parts, addrList(t, fmt.Sprintf("%s.a%d", label, i)))
	}
	parts = append(parts, pick(t, label+".irt", "NIL", `"<a@b> <c@d>"`, `"junk"`), pick(t, label+".mid", "NIL", `"<id@host>"`, `"<>"`, `"no brackets"`))
	return "(" + strings.Join(parts, " ") + ")"
}

func params(t *rapid.T, label string) string {
	switch pick(t, label, 0, 1, 2, 3) {
	case 0:
		return "NIL"
	case 1:
		return `("charset" "utf-8")`
	case 2:
		return `("NAME" ` + Str(t, label+".v") + ` "x" "y")`
	default:
		return `("odd")`
	}
}

// Body draws a body structure of bounded depth.
func Body(t *rapid.T, label string, depth int, ext bool) string {
	kind := rapid.IntRange(0, 5).Draw(t, label+".kind")
	if depth > 0 && kind >= 4 {
		n := rapid.IntRange(1, 3).Draw(t, label+".nparts")
		var sb strings.Builder
		sb.WriteString("(")
		for i := 0; i < n; i++ {
			sb.WriteString(Body(t, fmt.Sprintf("%s.p%d", label, i), depth-1, ext))
		}
		sb.WriteString(" " + Str(t, label+".subtype"))
		if ext {
			sb.WriteString(" " + params(t, label+".mp") + pick(t, label+".mext", "", ` NIL`, ` ("inline" NIL) NIL`, ` ("attachment" ("filename" "x")) ("en" "fr") "loc"`, ` NIL NIL NIL "ext1" (1 2 ("deep")) 3`))
		}
		sb.WriteString(")")
		return sb.String()
	}
	var sb strings.Builder
	sb.WriteString("(")
	typ, sub := `"application"`, `"octet-stream"`
	switch {
	case depth > 0 && kind == 3:
		typ, sub = pick(t, label+".mt", `"message"`, `"MESSAGE"`), pick(t, label+".ms", `"rfc822"`, `"RFC822"`, `"global"`)
	case kind <= 1:
		typ, sub = pick(t, label+".tt", `"text"`, `"TEXT"`), `"plain"`
	}
	fmt.Fprintf(&sb, "%s %s %s %s %s %s %s", typ, sub, params(t, label+".par"), NStr(t, label+".id"), NStr(t, label+".desc"), pick(t, label+".enc", `"7bit"`, `"BASE64"`, "NIL"), pick(t, label+".size", "0", "42", "4294967295", "-1", "4294967296"))
	if strings.EqualFold(typ, `"message"`) && pick(t, label+".msgext", 0, 1, 1) == 1 {
		sb.WriteString(" " + Envelope(t, label+".env") + " " + Body(t, label+".inner", depth-1, ext) + " " + Small(t, label+".lines"))
	} else if strings.EqualFold(typ, `"text"`) && pick(t, label+".txtext", 0, 1, 1) == 1 {
		sb.WriteString(" " + Small(t, label+".lines"))
	}
	if ext {
		sb.WriteString(pick(t, label+".ext", "", ` NIL`, ` "md5" NIL`, ` NIL ("inline" ("a" "b")) NIL NIL`, ` NIL NIL "en" "http://x" "future" (1 (2)) 9`))
	}
	sb.WriteString(")")
	return sb.String()
}

func section(t *rapid.T, label string) string {
	return pick(t, label, "[]", "[HEADER]", "[TEXT]", "[1]", "[1.2.MIME]", "[2.HEADER]", "[HEADER.FIELDS (From To)]", "[HEADER.FIELDS.NOT (X)]", "[]<0>", "[TEXT]<4294967295>", "[1.]", "[", "[]<>", "[HEADER.FIELDS]")
}

func nstringOrLiteral(t *rapid.T, label string) string {
	switch pick(t, label, 0, 1, 2, 3, 4) {
	case 0:
		return "NIL"
	case 1:
		return `"short body"`
	case 2:
		return "{0}\r\n"
	case 3:
		body := strings.Repeat("body line\r\n", rapid.IntRange(1, 400).Draw(t, label+".n"))
		return fmt.Sprintf("{%d}\r\n%s", len(body), body)
	default:
		return "{5}\r\nhello"
	}
}

// FetchItem draws one msg-att.
func FetchItem(t *rapid.T, label string) string {
	switch pick(t, label+".item", "FLAGS", "ENVELOPE", "INTERNALDATE", "RFC822.SIZE", "UID", "BODY", "BODYSTRUCTURE", "BODY[]", "BINARY[]", "BINARY.SIZE", "MODSEQ", "X-UNKNOWN", "BODY[]", "UID") {
	case "FLAGS":
		return "FLAGS " + flagList(t, label+".fl")
	case "ENVELOPE":
		return "ENVELOPE " + Envelope(t, label+".env")
	case "INTERNALDATE":
		return "INTERNALDATE " + pick(t, label+".idate", `"17-Jul-1996 02:44:25 -0700"`, `" 1-Jan-2024 00:00:00 +0000"`, `"garbage"`, "NIL", `""`)
	case "RFC822.SIZE":
		return "RFC822.SIZE " + Num(t, label+".size")
	case "UID":
		return "UID " + Num(t, label+".uid")
	case "BODY":
		return "BODY " + Body(t, label+".body", 3, false)
	case "BODYSTRUCTURE":
		return "BODYSTRUCTURE " + Body(t, label+".bs", 3, true)
	case "BODY[]":
		return "BODY" + section(t, label+".sect") + " " + nstringOrLiteral(t, label+".lit")
	case "BINARY[]":
		return "BINARY" + pick(t, label+".bsect", "[]", "[1]", "[1.2]", "[1.]") + " " + pick(t, label+".l8", "", "~") + nstringOrLiteral(t, label+".blit")
	case "BINARY.SIZE":
		return "BINARY.SIZE" + pick(t, label+".bss", "[]", "[1]", "[2.3]") + " " + Num(t, label+".bsz")
	case "MODSEQ":
		return "MODSEQ (" + Num(t, label+".modseq") + ")"
	}
	return "X-UNKNOWN 1"
}

// Kinds lists the response kinds Line can generate.
var Kinds = []string{"CAPABILITY", "ENABLED", "NAMESPACE", "FLAGS", "EXISTS", "RECENT", "LIST", "LSUB", "STATUS", "FETCH", "FETCH", "FETCH", "EXPUNGE", "SEARCH", "ESEARCH", "SORT", "THREAD",
	"METADATA", "QUOTA", "QUOTAROOT", "OK", "NO", "BAD", "BYE", "PREAUTH", "CONT", "TAGGED", "UNKNOWN"}

func mailbox(t *rapid.T, label string) string {
	return pick(t, label, "INBOX", "inbox", `"Sent Items"`, `"&AOk-"`, `"&bad"`, "box", `""`, "{3}\r\nlit", `"a/b"`, "NIL")
}

func code(t *rapid.T, label string, tags []string) string {
	switch pick(t, label, "", "", "ALERT", "CAPABILITY", "PERMANENTFLAGS", "UIDNEXT", "UIDVALIDITY", "COPYUID", "APPENDUID", "HIGHESTMODSEQ", "NOMODSEQ", "CLOSED", "UNKNOWN-CODE", "BROKEN") {
	case "":
		return ""
	case "ALERT":
		return "[ALERT] "
	case "CAPABILITY":
		return "[CAPABILITY IMAP4rev1 " + pick(t, label+".cap", "IMAP4rev2", "LITERAL+", "MOVE UIDPLUS", "") + "] "
	case "PERMANENTFLAGS":
		return "[PERMANENTFLAGS " + flagList(t, label+".pf") + "] "
	case "UIDNEXT":
		return "[UIDNEXT " + Num(t, label+".n") + "] "
	case "UIDVALIDITY":
		return "[UIDVALIDITY " + Num(t, label+".n") + "] "
	case "COPYUID":
		return "[COPYUID " + Num(t, label+".v") + " " + Set(t, label+".src") + " " + Set(t, label+".dst") + "] "
	case "APPENDUID":
		return "[APPENDUID " + Num(t, label+".v") + " " + Num(t, label+".u") + "] "
	case "HIGHESTMODSEQ":
		return "[HIGHESTMODSEQ " + Num(t, label+".n") + "] "
	case "NOMODSEQ":
		return "[NOMODSEQ] "
	case "CLOSED":
		return "[CLOSED] "
	case "UNKNOWN-CODE":
		return "[XCODE some (data) here] "
	}
	return "[BROKEN "
}

func thread(t *rapid.T, label string, depth int) string {
	var sb strings.Builder
	sb.WriteString("(")
	n := rapid.IntRange(1, 3).Draw(t, label+".n")
	for i := 0; i < n; i++ {
		if i > 0 {
			sb.WriteString(" ")
		}
		sb.WriteString(Small(t, label+".num"))
	}
	if depth > 0 && pick(t, label+".sub", 0, 1) == 1 {
		for i, k := 0, rapid.IntRange(1, 2).Draw(t, label+".nsub"); i < k; i++ {
			sb.WriteString(" " + thread(t, fmt.Sprintf("%s.s%d", label, i), depth-1))
		}
	}
	sb.WriteString(")")
	return sb.String()
}

// Line draws one complete response (CRLF included) of the given kind. tags
// are the tags of pending commands (for tagged responses and correlators).
func Line(t *rapid.T, kind string, tags []string) string {
	tag := "T1"
	if len(tags) > 0 {
		tag = pick(t, "tag", tags...)
	}
	switch kind {
	case "CAPABILITY":
		return "* CAPABILITY IMAP4rev1 " + pick(t, "caps", "", "IMAP4rev2 LITERAL+", "AUTH=PLAIN X(Y", "UTF8=ACCEPT") + "\r\n"
	case "ENABLED":
		return "* ENABLED " + pick(t, "enabled", "", "UTF8=ACCEPT", "IMAP4rev2 X-FOO") + "\r\n"
	case "NAMESPACE":
		ns := func(l string) string {
			return pick(t, l, "NIL", `(("" "/"))`, `(("INBOX." ".")("#shared/" "/"))`, `(("" NIL))`, `(("a" "/" "X-PARAM" ("v1" "v2")))`, `(("" "ab"))`, "()")
		}
		return "* NAMESPACE " + ns("ns1") + " " + ns("ns2") + " " + ns("ns3") + "\r\n"
	case "FLAGS":
		return "* FLAGS " + flagList(t, "flags") + "\r\n"
	case "EXISTS":
		return "* " + Num(t, "exists") + " EXISTS\r\n"
	case "RECENT":
		return "* " + Num(t, "recent") + " RECENT\r\n"
	case "LIST", "LSUB":
		s := "* " + kind + " " + pick(t, "lattrs", "()", `(\Noselect)`, `(\HasChildren \Subscribed)`, `(\)`, `(kw)`) + " " + pick(t, "ldelim", `"/"`, "NIL", `"."`, `"ab"`, `""`, `"\""`) + " " + mailbox(t, "lmbox")
		s += pick(t, "lext", "", "", ` ("CHILDINFO" ("SUBSCRIBED"))`, ` ("OLDNAME" (old))`, ` ("X-EXT" (1 (2 3)) "CHILDINFO" ())`, ` (`, ` ("OLDNAME" old)`)
		return s + "\r\n"
	case "STATUS":
		var items []string
		for i, n := 0, rapid.IntRange(0, 4).Draw(t, "nstatus"); i < n; i++ {
			name := pick(t, "sitem", "MESSAGES", "UIDNEXT", "UIDVALIDITY", "UNSEEN", "DELETED", "SIZE", "APPENDLIMIT", "DELETED-STORAGE", "HIGHESTMODSEQ", "X-FUTURE", "RECENT")
			val := Num(t, "sval")
			if name == "APPENDLIMIT" && pick(t, "alnil", 0, 1) == 1 {
				val = "NIL"
			}
			if name == "X-FUTURE" {
				val = pick(t, "xval", "1", `"str"`, "(1 2)", "NIL")
			}
			items = append(items, name+" "+val)
		}
		return "* STATUS " + mailbox(t, "smbox") + " (" + strings.Join(items, " ") + ")\r\n"
	case "FETCH":
		var items []string
		for i, n := 0, rapid.IntRange(0, 4).Draw(t, "nitems"); i < n; i++ {
			items = append(items, FetchItem(t, fmt.Sprintf("it%d", i)))
		}
		return "* " + Small(t, "fseq") + " FETCH (" + strings.Join(items, " ") + ")\r\n"
	case "EXPUNGE":
		return "* " + Small(t, "eseq") + " EXPUNGE\r\n"
	case "SEARCH":
		s := "* SEARCH"
		for i, n := 0, rapid.IntRange(0, 5).Draw(t, "nsearch"); i < n; i++ {
			s += " " + Small(t, "snum")
		}
		if pick(t, "smodseq", 0, 0, 1) == 1 {
			s += " (MODSEQ " + Num(t, "smod") + ")"
		}
		return s + "\r\n"
	case "ESEARCH":
		s := "* ESEARCH"
		if pick(t, "etag", 0, 1, 1) == 1 {
			s += ` (TAG "` + tag + `")`
		}
		if pick(t, "euid", 0, 1) == 1 {
			s += " UID"
		}
		for i, n := 0, rapid.IntRange(0, 4).Draw(t, "nret"); i < n; i++ {
			switch pick(t, "eret", "MIN", "MAX", "ALL", "COUNT", "MODSEQ", "X-FUTURE") {
			case "MIN":
				s += " MIN " + Small(t, "emin")
			case "MAX":
				s += " MAX " + Num(t, "emax")
			case "ALL":
				s += " ALL " + Set(t, "eall")
			case "COUNT":
				s += " COUNT " + Num(t, "ecount")
			case "MODSEQ":
				s += " MODSEQ " + Num(t, "emod")
			default:
				s += " X-FUTURE " + pick(t, "ex", "1", "(1 (2))", `"s"`)
			}
		}
		return s + "\r\n"
	case "SORT":
		s := "* SORT"
		for i, n := 0, rapid.IntRange(0, 5).Draw(t, "nsort"); i < n; i++ {
			s += " " + Small(t, "sortnum")
		}
		return s + "\r\n"
	case "THREAD":
		s := "* THREAD"
		for i, n := 0, rapid.IntRange(0, 3).Draw(t, "nthread"); i < n; i++ {
			s += " " + thread(t, fmt.Sprintf("th%d", i), 3)
		}
		return s + "\r\n"
	case "METADATA":
		return "* METADATA " + mailbox(t, "mmbox") + " " + pick(t, "mdata", `(/shared/comment "x")`, `(/private/a NIL /shared/b {3}`+"\r\nabc)", `/shared/comment /private/x`, `()`, `(/odd)`, `(/a ~{3}`+"\r\nabc)") + "\r\n"
	case "QUOTA":
		return "* QUOTA " + pick(t, "qroot", `""`, "root", `"my root"`) + " " + pick(t, "qres", "(STORAGE 10 512)", "()", "(STORAGE 1 2 MESSAGE 3 4)", "(STORAGE 10)", "(STORAGE 9223372036854775808 1)", "(X 0 0)") + "\r\n"
	case "QUOTAROOT":
		return "* QUOTAROOT " + mailbox(t, "qmbox") + pick(t, "qroots", "", ` ""`, " root1 root2", ` "r 1"`) + "\r\n"
	case "OK", "NO", "BAD", "BYE", "PREAUTH":
		return "* " + kind + " " + code(t, "ucode", tags) + pick(t, "utext", "text", "", "more [text] here") + "\r\n"
	case "CONT":
		return pick(t, "cont", "+ go\r\n", "+\r\n", "+ \r\n", "+ AAAA\r\n")
	case "TAGGED":
		return tag + " " + pick(t, "tstatus", "OK", "NO", "BAD", "BYE", "PREAUTH", "XX") + " " + code(t, "tcode", tags) + pick(t, "ttext", "done", "", "x") + "\r\n"
	}
	return pick(t, "unknown", "* XUNKNOWN data\r\n", "* 5 XNUM\r\n", "*\r\n", "* \r\n", "T999 OK stray\r\n", "garbage line\r\n", "* OK\r\n", "* 12\r\n")
}
