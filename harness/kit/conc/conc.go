// Package conc holds the concurrent-session workload shared by the C14 checks:
// trial generator, renderer and runner (one goroutine and one raw connection
// per session against a real imapserver + imapmemserver).
package conc

import (
	"fmt"
	"os"
	"runtime"
	"strings"
	"sync"
	"time"

	"github.com/emersion/go-imap/v2/verifh/kit/mem"
	"pgregory.net/rapid"
)

// Hooks lets an instrumented build observe a trial.
type Hooks struct {
	// Deadlock is polled while the sessions run; a non-empty string ends the
	// trial at once with that report.
	Deadlock func() string
}

var Boxes = []string{"A", "B", "C"}

type Fataler interface {
	Fatalf(string, ...any)
}

// op is one step of a session program.
type Op struct {
	Kind string // select, copy, move, fetch, store, expunge, append, list, status, create, delete, rename, idle, noop, search, close
	Box  string
	Arg  string
}

func (o Op) String() string { return strings.TrimSpace(o.Kind + " " + o.Box + " " + o.Arg) }

type Trial struct {
	Progs   [][]Op
	Procs   int
	Preload int
}

func (tr Trial) String() string {
	var p []string
	for i, prog := range tr.Progs {
		var l []string
		for _, o := range prog {
			l = append(l, o.String())
		}
		p = append(p, fmt.Sprintf("S%d[%s]", i, strings.Join(l, "; ")))
	}
	return fmt.Sprintf("GOMAXPROCS=%d preload=%d %s", tr.Procs, tr.Preload, strings.Join(p, " "))
}

const Watchdog = 60 * time.Second

func serverStacks() string {
	buf := make([]byte, 4<<20)
	buf = buf[:runtime.Stack(buf, true)]
	var keep []string
	for _, g := range strings.Split(string(buf), "\n\n") {
		if strings.Contains(g, "go-imap/v2/imapserver") {
			if len(g) > 2500 {
				g = g[:2500] + "\n\t…"
			}
			keep = append(keep, g)
		}
	}
	if len(keep) > 16 {
		keep = keep[:16]
	}
	return strings.Join(keep, "\n\n")
}

func persist(tr Trial) {
	if path := os.Getenv("VERIF_INFLIGHT"); path != "" {
		os.WriteFile(path, []byte(fmt.Sprintf("{\"property\":\"C14\",\"what\":\"trial running when the process died\",\"trial\":%q}", tr.String())), 0o644)
	}
}

func unpersist() {
	if path := os.Getenv("VERIF_INFLIGHT"); path != "" {
		os.Remove(path)
	}
}

var msgText = []byte("From: a@example.org\r\nSubject: stress\r\n\r\n" + strings.Repeat("body line of the stress message\r\n", 6))

// runTrial returns the number of commands that completed.
func RunTrial(t Fataler, tr Trial, hk *Hooks) int {
	persist(tr)
	defer unpersist()
	old := runtime.GOMAXPROCS(tr.Procs)
	defer runtime.GOMAXPROCS(old)
	base := serveCount()
	w := mem.Start(Boxes...)
	stopped := false
	defer func() {
		if !stopped {
			go w.Stop() // after a deadlock Stop may never return
		}
	}()
	setup, err := w.Dial()
	if err != nil {
		t.Fatalf("dial: %v", err)
	}
	for _, b := range Boxes {
		for i := 0; i < tr.Preload; i++ {
			if _, st, err := setup.Append(b, `(\Deleted)`, msgText); err != nil || st.Status != "OK" {
				t.Fatalf("Preload: %v %v", st, err)
			}
		}
	}
	setup.Close()
	conns := make([]*mem.Conn, len(tr.Progs))
	for i := range tr.Progs {
		c, err := w.Dial()
		if err != nil {
			t.Fatalf("dial: %v", err)
		}
		c.Raw.Timeout = Watchdog
		conns[i] = c
	}
	var mu sync.Mutex
	var problems []string
	completed := 0
	var wg sync.WaitGroup
	start := make(chan struct{})
	for i, prog := range tr.Progs {
		wg.Add(1)
		go func(i int, prog []Op, c *mem.Conn) {
			defer wg.Done()
			<-start
			for _, o := range prog {
				var err error
				text := ""
				switch o.Kind {
				case "append":
					text = "APPEND " + o.Box
					_, _, err = c.Append(o.Box, "", msgText)
				case "idle":
					text = "IDLE"
					if err = c.StartIdle(); err == nil {
						time.Sleep(200 * time.Microsecond)
						_, _, err = c.Done()
					}
				default:
					text = Render(o)
					_, _, err = c.Do(strings.Fields(text)[0], false, text)
				}
				if err != nil {
					mu.Lock()
					problems = append(problems, fmt.Sprintf("session %d: %q did not complete: %v", i, text, err))
					mu.Unlock()
					return
				}
				mu.Lock()
				completed++
				mu.Unlock()
			}
		}(i, prog, conns[i])
	}
	close(start)
	done := make(chan struct{})
	go func() { wg.Wait(); close(done) }()
	limit := time.After(Watchdog + 10*time.Second)
	tick := time.NewTicker(20 * time.Millisecond)
	defer tick.Stop()
wait:
	for {
		select {
		case <-done:
			break wait
		case <-tick.C:
			if hk != nil && hk.Deadlock != nil {
				if rep := hk.Deadlock(); rep != "" {
					mu.Lock()
					problems = append(problems, rep)
					mu.Unlock()
					break wait
				}
			}
		case <-limit:
			mu.Lock()
			problems = append(problems, "sessions still running after the watchdog")
			mu.Unlock()
			break wait
		}
	}
	mu.Lock()
	p := append([]string(nil), problems...)
	n := completed
	mu.Unlock()
	if len(p) > 0 {
		var tails []string
		for i, c := range conns {
			l := c.Log
			if len(l) > 6 {
				l = l[len(l)-6:]
			}
			tails = append(tails, fmt.Sprintf("-- session %d:\n   %s", i, strings.Join(l, "\n   ")))
		}
		t.Fatalf("%s\ntrial: %s\nserver log: %v\nlast lines per session:\n%s\nserver goroutines:\n%s", strings.Join(p, "\n"), tr, w.Env.Log.Lines(), strings.Join(tails, "\n"), serverStacks())
	}
	if ps := w.Env.Log.Panics(); len(ps) > 0 {
		t.Fatalf("server log reports a panic: %s\ntrial: %s", strings.Join(ps, " | "), tr)
	}
	for _, c := range conns {
		c.Close()
	}
	stopped = true
	w.Stop()
	// every client is gone: the connection goroutines of this trial must end
	// too (a deadlock between the sessions' clean-up paths shows up here)
	deadline := time.Now().Add(Watchdog)
	for serveCount() > base {
		if hk != nil && hk.Deadlock != nil {
			if rep := hk.Deadlock(); rep != "" {
				t.Fatalf("%s\n(while the sessions were being closed)\ntrial: %s\nserver goroutines:\n%s", rep, tr, serverStacks())
			}
		}
		if time.Now().After(deadline) {
			t.Fatalf("server connection goroutines still alive %v after every client disconnected\ntrial: %s\nserver goroutines:\n%s", Watchdog, tr, serverStacks())
		}
		time.Sleep(5 * time.Millisecond)
	}
	return n
}

// serveCount is the number of live server connection goroutines.
func serveCount() int {
	buf := make([]byte, 1<<20)
	for {
		n := runtime.Stack(buf, true)
		if n < len(buf) {
			return strings.Count(string(buf[:n]), "imapserver.(*Conn).serve(")
		}
		buf = make([]byte, 2*len(buf))
	}
}

func Render(o Op) string {
	switch o.Kind {
	case "select":
		return "SELECT " + o.Box
	case "copy":
		return "COPY " + o.Arg + " " + o.Box
	case "move":
		return "MOVE " + o.Arg + " " + o.Box
	case "uidcopy":
		return "UID COPY " + o.Arg + " " + o.Box
	case "fetch":
		return "FETCH " + o.Arg + " (UID FLAGS BODY.PEEK[])"
	case "fetchseen":
		return "FETCH " + o.Arg + " (BODY[TEXT])"
	case "store":
		return "STORE " + o.Arg + " +FLAGS (\\Deleted kw)"
	case "unstore":
		return "UID STORE " + o.Arg + " -FLAGS (\\Deleted)"
	case "expunge":
		return "EXPUNGE"
	case "uidexpunge":
		return "UID EXPUNGE " + o.Arg
	case "list":
		return `LIST "" "*" RETURN (STATUS (MESSAGES UNSEEN))`
	case "lsub":
		return `LIST (SUBSCRIBED) "" "*"`
	case "status":
		return "STATUS " + o.Box + " (MESSAGES UIDNEXT UNSEEN SIZE)"
	case "create":
		return "CREATE " + o.Arg
	case "delete":
		return "DELETE " + o.Arg
	case "rename":
		return "RENAME " + o.Box + " " + o.Arg
	case "subscribe":
		return "SUBSCRIBE " + o.Box
	case "noop":
		return "NOOP"
	case "search":
		return "SEARCH OR DELETED TEXT stress"
	case "uidsearch":
		return "UID SEARCH RETURN (ALL COUNT) UNDELETED " + o.Arg
	case "close":
		return "CLOSE"
	case "unselect":
		return "UNSELECT"
	}
	panic("unknown op " + o.Kind)
}

var sets = []string{"1:*", "1:*", "1", "*", "2:4", "1:3,5:*", "3:1"}
var extra = []string{"X", "Y", "X/sub"}

func GenProg(t *rapid.T, home string) []Op {
	prog := []Op{{Kind: "select", Box: home}}
	n := rapid.IntRange(2, 9).Draw(t, "nops")
	kinds := []string{"copy", "copy", "move", "move", "uidcopy", "fetch", "fetch", "fetchseen", "store", "unstore", "expunge", "uidexpunge", "append", "append", "list", "lsub",
		"status", "create", "delete", "rename", "subscribe", "idle", "noop", "search", "uidsearch", "select", "close"}
	selected := true
	for i := 0; i < n; i++ {
		k := rapid.SampledFrom(kinds).Draw(t, "kind")
		o := Op{Kind: k, Box: rapid.SampledFrom(Boxes).Draw(t, "box"), Arg: rapid.SampledFrom(sets).Draw(t, "set")}
		switch k {
		case "create", "delete":
			o.Arg = rapid.SampledFrom(extra).Draw(t, "name")
		case "rename":
			o.Box, o.Arg = rapid.SampledFrom(extra).Draw(t, "from"), rapid.SampledFrom(extra).Draw(t, "to")
		case "select":
			selected = true
		case "close":
			if !selected {
				continue
			}
			selected = false
		case "copy", "move", "uidcopy", "fetch", "fetchseen", "store", "unstore", "expunge", "uidexpunge", "search", "uidsearch", "idle":
			if !selected {
				prog = append(prog, Op{Kind: "select", Box: home})
				selected = true
			}
		}
		prog = append(prog, o)
	}
	return prog
}

func GenTrial(t *rapid.T) Trial {
	tr := Trial{Procs: rapid.SampledFrom([]int{2, 4, 8, 16}).Draw(t, "gomaxprocs"), Preload: rapid.SampledFrom([]int{0, 3, 12, 40}).Draw(t, "preload")}
	n := rapid.IntRange(2, 8).Draw(t, "sessions")
	for i := 0; i < n; i++ {
		tr.Progs = append(tr.Progs, GenProg(t, Boxes[i%len(Boxes)]))
	}
	return tr
}

func Opposite(tr Trial) bool {
	// two sessions copying/moving between the same two mailBoxes in opposite directions
	type edge struct{ from, to string }
	seen := map[edge]int{}
	for i, prog := range tr.Progs {
		cur := ""
		for _, o := range prog {
			switch o.Kind {
			case "select":
				cur = o.Box
			case "close":
				cur = ""
			case "copy", "move", "uidcopy":
				if cur != "" && cur != o.Box {
					if j, ok := seen[edge{o.Box, cur}]; ok && j != i+1 {
						return true
					}
					seen[edge{cur, o.Box}] = i + 1
				}
			}
		}
	}
	return false
}

// Scenarios are fixed programs for the interleavings the property names.
func Scenarios(procs int) []Trial {
	loop := func(k string, box, arg string, n int) []Op {
		var l []Op
		for i := 0; i < n; i++ {
			l = append(l, Op{Kind: k, Box: box, Arg: arg})
		}
		return l
	}
	sel := func(b string) []Op { return []Op{{Kind: "select", Box: b}} }
	return []Trial{
		// copies and moves in opposite directions
		{Procs: procs, Preload: 40, Progs: [][]Op{
			append(sel("A"), loop("copy", "B", "1:*", 4)...),
			append(sel("B"), loop("copy", "A", "1:*", 4)...),
			append(sel("A"), loop("move", "B", "1:3", 4)...),
			append(sel("B"), loop("move", "A", "1:3", 4)...),
		}},
		// expunge during fetches, flag changes during searches
		{Procs: procs, Preload: 40, Progs: [][]Op{
			append(sel("A"), loop("fetch", "", "1:*", 4)...),
			append(sel("A"), Op{Kind: "expunge"}, Op{Kind: "append", Box: "A"}, Op{Kind: "store", Arg: "1:*"}, Op{Kind: "expunge"}),
			append(sel("A"), Op{Kind: "search"}, Op{Kind: "unstore", Arg: "1:*"}, Op{Kind: "uidsearch", Arg: "1:*"}, Op{Kind: "fetchseen", Arg: "1:*"}),
			append(sel("A"), Op{Kind: "idle"}, Op{Kind: "idle"}, Op{Kind: "noop"}),
		}},
		// listing during create / rename / delete, status during appends
		{Procs: procs, Preload: 3, Progs: [][]Op{
			append(loop("list", "", "", 4), Op{Kind: "lsub"}),
			{{Kind: "create", Arg: "X"}, {Kind: "rename", Box: "X", Arg: "Y"}, {Kind: "delete", Arg: "Y"}, {Kind: "create", Arg: "X"}, {Kind: "subscribe", Box: "X"}, {Kind: "delete", Arg: "X"}},
			append(loop("append", "B", "", 3), Op{Kind: "status", Box: "B"}),
			append(loop("status", "B", "", 3), Op{Kind: "select", Box: "B"}, Op{Kind: "close"}),
		}},
	}
}
