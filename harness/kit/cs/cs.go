// Package cs wires a real imapclient.Client to a real imapserver (with the
// recording stub session) over an in-memory pipe.
package cs

import (
	"fmt"
	"time"

	imap "github.com/emersion/go-imap/v2"
	"github.com/emersion/go-imap/v2/imapclient"
	"github.com/emersion/go-imap/v2/imapserver"
	"github.com/emersion/go-imap/v2/verifh/kit/pipe"
	"github.com/emersion/go-imap/v2/verifh/kit/srv"
	"github.com/emersion/go-imap/v2/verifh/kit/stub"
)

// Pair is one client/server connection.
type Pair struct {
	Env    *srv.Env
	Core   *stub.Core
	Client *imapclient.Client
	C, S   *pipe.Conn
	// ClientBytes/ServerBytes capture the raw traffic.
	ClientBytes, ServerBytes *SyncBuf
}

// Config selects server capabilities and session features.
type Config struct {
	Caps     imap.CapSet
	Features stub.Feature
	PreAuth  bool
	Options  *imapclient.Options
}

// New starts a server and connects a client to it.
func New(cfg Config) *Pair {
	p := &Pair{Core: stub.NewCore(), ClientBytes: &SyncBuf{}, ServerBytes: &SyncBuf{}}
	p.Env = srv.Start(imapserver.Options{
		NewSession: func(*imapserver.Conn) (imapserver.Session, *imapserver.GreetingData, error) {
			return stub.Session(p.Core, cfg.Features), &imapserver.GreetingData{PreAuth: cfg.PreAuth}, nil
		},
		InsecureAuth: true,
		Caps:         cfg.Caps,
	})
	p.C, p.S = pipe.New()
	p.C.OnWrite = func(b []byte) { p.ClientBytes.Write(b) }
	p.S.OnWrite = func(b []byte) { p.ServerBytes.Write(b) }
	p.Env.L.DialConn(p.S) // hooks are installed before the server writes its greeting
	p.Client = imapclient.New(p.C, cfg.Options)
	return p
}

// Close tears everything down.
func (p *Pair) Close() {
	done := make(chan struct{})
	go func() { p.Client.Close(); close(done) }()
	select {
	case <-done:
	case <-time.After(5 * time.Second):
	}
	p.Env.Stop()
}

// Within runs f and fails with a timeout error if it does not return in d.
func Within(d time.Duration, what string, f func() error) error {
	ch := make(chan error, 1)
	go func() { ch <- f() }()
	select {
	case err := <-ch:
		return err
	case <-time.After(d):
		return fmt.Errorf("HARNESS-TIMEOUT: %s did not return within %v", what, d)
	}
}
