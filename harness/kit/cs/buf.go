package cs

import "sync"

// SyncBuf is a goroutine-safe byte buffer.
type SyncBuf struct {
	mu sync.Mutex
	b  []byte
}

func (s *SyncBuf) Write(p []byte) {
	s.mu.Lock()
	s.b = append(s.b, p...)
	s.mu.Unlock()
}

func (s *SyncBuf) Bytes() []byte {
	s.mu.Lock()
	defer s.mu.Unlock()
	return append([]byte(nil), s.b...)
}

func (s *SyncBuf) Len() int {
	s.mu.Lock()
	defer s.mu.Unlock()
	return len(s.b)
}
