// Package stub provides a recording imapserver.Session. Every backend method
// records (method, deep-copied arguments, connection state as seen through the
// owner's StateFn) and returns a scripted outcome; response data is produced
// by per-method hooks that write through the real imapserver writers.
package stub

import (
	"bytes"
	"fmt"
	"io"
	"sync"
	"time"

	imap "github.com/emersion/go-imap/v2"
	"github.com/emersion/go-imap/v2/imapserver"
	"github.com/emersion/go-sasl"
)

// Call is one recorded backend invocation.
type Call struct {
	Method string
	Args   map[string]any
}

func (c Call) String() string { return fmt.Sprintf("%s%v", c.Method, c.Args) }

// Core records calls and produces outcomes.
type Core struct {
	mu         sync.Mutex
	calls      []Call
	closeCount int

	// Outcome, if set, is consulted first for every method (except Close and
	// Poll); a non-nil error is returned to the server as the backend's answer.
	Outcome func(method string) error

	// Data hooks; nil means "minimal valid default".
	OnSelect    func(mailbox string, o *imap.SelectOptions) (*imap.SelectData, error)
	OnList      func(w *imapserver.ListWriter, ref string, patterns []string, o *imap.ListOptions) error
	OnStatus    func(mailbox string, o *imap.StatusOptions) (*imap.StatusData, error)
	OnAppend    func(mailbox string, payload []byte, o *imap.AppendOptions) (*imap.AppendData, error)
	OnPoll      func(w *imapserver.UpdateWriter, allowExpunge bool) error
	OnIdle      func(w *imapserver.UpdateWriter, stop <-chan struct{}) error
	OnExpunge   func(w *imapserver.ExpungeWriter, uids *imap.UIDSet) error
	OnSearch    func(kind imapserver.NumKind, c *imap.SearchCriteria, o *imap.SearchOptions) (*imap.SearchData, error)
	OnFetch     func(w *imapserver.FetchWriter, set imap.NumSet, o *imap.FetchOptions) error
	OnStore     func(w *imapserver.FetchWriter, set imap.NumSet, f *imap.StoreFlags, o *imap.StoreOptions) error
	OnCopy      func(set imap.NumSet, dest string) (*imap.CopyData, error)
	OnMove      func(w *imapserver.MoveWriter, set imap.NumSet, dest string) error
	OnNamespace func() (*imap.NamespaceData, error)

	// AppendReadLimit bounds how many payload bytes Append reads (-1: all).
	AppendReadLimit int64
	// Mechs for SessionSASL variants.
	Mechs []string
	// IdleExitDelay makes Idle take this long to return after stop was closed
	// (a backend that is slow to wind down).
	IdleExitDelay time.Duration
	idling        bool     // Idle has been entered and has not returned yet
	overlaps      []string // session methods invoked while Idle was still running
}

func NewCore() *Core { return &Core{AppendReadLimit: -1, Mechs: []string{"PLAIN"}} }

// Overlaps lists the session methods (Close included) that the server invoked
// while an earlier Idle call of the same session had not returned yet.
func (c *Core) Overlaps() []string {
	c.mu.Lock()
	defer c.mu.Unlock()
	return append([]string(nil), c.overlaps...)
}

func (c *Core) record(method string, args map[string]any) error {
	c.mu.Lock()
	if c.idling && method != "Idle" {
		c.overlaps = append(c.overlaps, method)
	}
	c.calls = append(c.calls, Call{Method: method, Args: args})
	out := c.Outcome
	c.mu.Unlock()
	if out != nil {
		return out(method)
	}
	return nil
}

// Calls returns a snapshot of recorded calls (Poll excluded unless all).
func (c *Core) Calls() []Call {
	c.mu.Lock()
	defer c.mu.Unlock()
	var out []Call
	for _, k := range c.calls {
		if k.Method != "Poll" {
			out = append(out, k)
		}
	}
	return out
}

// AllCalls includes Poll.
func (c *Core) AllCalls() []Call {
	c.mu.Lock()
	defer c.mu.Unlock()
	return append([]Call(nil), c.calls...)
}

// Reset forgets recorded calls.
func (c *Core) Reset() {
	c.mu.Lock()
	c.calls = nil
	c.mu.Unlock()
}

// CloseCount returns how many times Close was invoked.
func (c *Core) CloseCount() int {
	c.mu.Lock()
	defer c.mu.Unlock()
	return c.closeCount
}

func (c *Core) Close() error {
	c.mu.Lock()
	if c.idling {
		c.overlaps = append(c.overlaps, "Close")
	}
	c.closeCount++
	c.mu.Unlock()
	return nil
}

func (c *Core) Login(username, password string) error {
	return c.record("Login", map[string]any{"username": username, "password": password})
}

func copyFlags(f []imap.Flag) []imap.Flag               { return append([]imap.Flag(nil), f...) }
func copyAttrs(f []imap.MailboxAttr) []imap.MailboxAttr { return append([]imap.MailboxAttr(nil), f...) }

func u32(v uint32) *uint32 { return &v }
func i64(v int64) *int64   { return &v }

func (c *Core) Select(mailbox string, o *imap.SelectOptions) (*imap.SelectData, error) {
	if err := c.record("Select", map[string]any{"mailbox": mailbox, "options": *o}); err != nil {
		return nil, err
	}
	if c.OnSelect != nil {
		return c.OnSelect(mailbox, o)
	}
	return &imap.SelectData{Flags: []imap.Flag{imap.FlagSeen}, PermanentFlags: []imap.Flag{imap.FlagSeen}, NumMessages: 3, UIDNext: 10, UIDValidity: 1}, nil
}

func (c *Core) Create(mailbox string, o *imap.CreateOptions) error {
	return c.record("Create", map[string]any{"mailbox": mailbox, "options": imap.CreateOptions{SpecialUse: copyAttrs(o.SpecialUse)}})
}

func (c *Core) Delete(mailbox string) error {
	return c.record("Delete", map[string]any{"mailbox": mailbox})
}

func (c *Core) Rename(mailbox, newName string) error {
	return c.record("Rename", map[string]any{"mailbox": mailbox, "newName": newName})
}

func (c *Core) Subscribe(mailbox string) error {
	return c.record("Subscribe", map[string]any{"mailbox": mailbox})
}

func (c *Core) Unsubscribe(mailbox string) error {
	return c.record("Unsubscribe", map[string]any{"mailbox": mailbox})
}

func (c *Core) List(w *imapserver.ListWriter, ref string, patterns []string, o *imap.ListOptions) error {
	oc := *o
	if o.ReturnStatus != nil {
		rs := *o.ReturnStatus
		oc.ReturnStatus = &rs
	}
	if err := c.record("List", map[string]any{"ref": ref, "patterns": append([]string(nil), patterns...), "options": oc}); err != nil {
		return err
	}
	if c.OnList != nil {
		return c.OnList(w, ref, patterns, o)
	}
	return nil
}

// DefaultStatus fills every requested item.
func DefaultStatus(mailbox string, o *imap.StatusOptions) *imap.StatusData {
	return &imap.StatusData{Mailbox: mailbox, NumMessages: u32(3), UIDNext: 10, UIDValidity: 1, NumUnseen: u32(1), NumDeleted: u32(0),
		Size: i64(100), AppendLimit: u32(1000), DeletedStorage: i64(0)}
}

func (c *Core) Status(mailbox string, o *imap.StatusOptions) (*imap.StatusData, error) {
	if err := c.record("Status", map[string]any{"mailbox": mailbox, "options": *o}); err != nil {
		return nil, err
	}
	if c.OnStatus != nil {
		return c.OnStatus(mailbox, o)
	}
	return DefaultStatus(mailbox, o), nil
}

func (c *Core) Append(mailbox string, r imap.LiteralReader, o *imap.AppendOptions) (*imap.AppendData, error) {
	var buf bytes.Buffer
	size := r.Size()
	var rerr error
	if c.AppendReadLimit < 0 {
		_, rerr = io.Copy(&buf, r)
	} else {
		_, rerr = io.CopyN(&buf, r, c.AppendReadLimit)
		if rerr == io.EOF {
			rerr = nil
		}
	}
	payload := buf.Bytes()
	args := map[string]any{"mailbox": mailbox, "size": size, "payload": payload, "options": imap.AppendOptions{Flags: copyFlags(o.Flags), Time: o.Time}}
	if rerr != nil {
		args["readErr"] = rerr.Error()
	}
	if err := c.record("Append", args); err != nil {
		return nil, err
	}
	if rerr != nil {
		return nil, rerr
	}
	if c.OnAppend != nil {
		return c.OnAppend(mailbox, payload, o)
	}
	return &imap.AppendData{UID: 42, UIDValidity: 1}, nil
}

func (c *Core) Poll(w *imapserver.UpdateWriter, allowExpunge bool) error {
	c.mu.Lock()
	c.calls = append(c.calls, Call{Method: "Poll", Args: map[string]any{"allowExpunge": allowExpunge}})
	c.mu.Unlock()
	if c.OnPoll != nil {
		return c.OnPoll(w, allowExpunge)
	}
	return nil
}

func (c *Core) Idle(w *imapserver.UpdateWriter, stop <-chan struct{}) error {
	if err := c.record("Idle", map[string]any{}); err != nil {
		return err
	}
	c.mu.Lock()
	c.idling = true
	delay := c.IdleExitDelay
	c.mu.Unlock()
	defer func() {
		c.mu.Lock()
		c.idling = false
		c.mu.Unlock()
	}()
	if c.OnIdle != nil {
		return c.OnIdle(w, stop)
	}
	<-stop
	if delay > 0 {
		time.Sleep(delay)
	}
	return nil
}

func (c *Core) Unselect() error { return c.record("Unselect", map[string]any{}) }

func (c *Core) Expunge(w *imapserver.ExpungeWriter, uids *imap.UIDSet) error {
	args := map[string]any{}
	if uids != nil {
		if imap.IsSearchRes(*uids) {
			args["uids"] = imap.SearchRes()
		} else {
			args["uids"] = append(imap.UIDSet(nil), (*uids)...)
		}
	}
	if err := c.record("Expunge", args); err != nil {
		return err
	}
	if c.OnExpunge != nil {
		return c.OnExpunge(w, uids)
	}
	return nil
}

// CopyNumSet deep-copies a number set, preserving the SearchRes marker.
func CopyNumSet(s imap.NumSet) imap.NumSet {
	switch v := s.(type) {
	case imap.SeqSet:
		return append(imap.SeqSet(nil), v...)
	case imap.UIDSet:
		if imap.IsSearchRes(v) {
			return imap.SearchRes()
		}
		return append(imap.UIDSet(nil), v...)
	}
	return s
}

// CopyCriteria deep-copies search criteria.
func CopyCriteria(c *imap.SearchCriteria) imap.SearchCriteria {
	out := *c
	out.SeqNum = nil
	for _, s := range c.SeqNum {
		out.SeqNum = append(out.SeqNum, append(imap.SeqSet(nil), s...))
	}
	out.UID = nil
	for _, s := range c.UID {
		out.UID = append(out.UID, CopyNumSet(s).(imap.UIDSet))
	}
	out.Header = append([]imap.SearchCriteriaHeaderField(nil), c.Header...)
	out.Body = append([]string(nil), c.Body...)
	out.Text = append([]string(nil), c.Text...)
	out.Flag = copyFlags(c.Flag)
	out.NotFlag = copyFlags(c.NotFlag)
	out.Not = nil
	for i := range c.Not {
		out.Not = append(out.Not, CopyCriteria(&c.Not[i]))
	}
	out.Or = nil
	for i := range c.Or {
		out.Or = append(out.Or, [2]imap.SearchCriteria{CopyCriteria(&c.Or[i][0]), CopyCriteria(&c.Or[i][1])})
	}
	if c.ModSeq != nil {
		m := *c.ModSeq
		out.ModSeq = &m
	}
	return out
}

func (c *Core) Search(kind imapserver.NumKind, cr *imap.SearchCriteria, o *imap.SearchOptions) (*imap.SearchData, error) {
	if err := c.record("Search", map[string]any{"kind": kind, "criteria": CopyCriteria(cr), "options": *o}); err != nil {
		return nil, err
	}
	if c.OnSearch != nil {
		return c.OnSearch(kind, cr, o)
	}
	if kind == imapserver.NumKindUID {
		return &imap.SearchData{All: imap.UIDSetNum(1), UID: true, Min: 1, Max: 1, Count: 1}, nil
	}
	return &imap.SearchData{All: imap.SeqSetNum(1), Min: 1, Max: 1, Count: 1}, nil
}

// CopyFetchOptions deep-copies fetch options.
func CopyFetchOptions(o *imap.FetchOptions) imap.FetchOptions {
	out := *o
	if o.BodyStructure != nil {
		b := *o.BodyStructure
		out.BodyStructure = &b
	}
	out.BodySection = nil
	for _, s := range o.BodySection {
		c := *s
		c.Part = append([]int(nil), s.Part...)
		c.HeaderFields = append([]string(nil), s.HeaderFields...)
		c.HeaderFieldsNot = append([]string(nil), s.HeaderFieldsNot...)
		if s.Partial != nil {
			p := *s.Partial
			c.Partial = &p
		}
		out.BodySection = append(out.BodySection, &c)
	}
	out.BinarySection = nil
	for _, s := range o.BinarySection {
		c := *s
		c.Part = append([]int(nil), s.Part...)
		if s.Partial != nil {
			p := *s.Partial
			c.Partial = &p
		}
		out.BinarySection = append(out.BinarySection, &c)
	}
	out.BinarySectionSize = nil
	for _, s := range o.BinarySectionSize {
		c := *s
		c.Part = append([]int(nil), s.Part...)
		out.BinarySectionSize = append(out.BinarySectionSize, &c)
	}
	return out
}

func (c *Core) Fetch(w *imapserver.FetchWriter, set imap.NumSet, o *imap.FetchOptions) error {
	if err := c.record("Fetch", map[string]any{"set": CopyNumSet(set), "options": CopyFetchOptions(o)}); err != nil {
		return err
	}
	if c.OnFetch != nil {
		return c.OnFetch(w, set, o)
	}
	return nil
}

func (c *Core) Store(w *imapserver.FetchWriter, set imap.NumSet, f *imap.StoreFlags, o *imap.StoreOptions) error {
	fc := imap.StoreFlags{Op: f.Op, Silent: f.Silent, Flags: copyFlags(f.Flags)}
	if err := c.record("Store", map[string]any{"set": CopyNumSet(set), "flags": fc, "options": *o}); err != nil {
		return err
	}
	if c.OnStore != nil {
		return c.OnStore(w, set, f, o)
	}
	return nil
}

func (c *Core) Copy(set imap.NumSet, dest string) (*imap.CopyData, error) {
	if err := c.record("Copy", map[string]any{"set": CopyNumSet(set), "dest": dest}); err != nil {
		return nil, err
	}
	if c.OnCopy != nil {
		return c.OnCopy(set, dest)
	}
	return &imap.CopyData{UIDValidity: 1, SourceUIDs: imap.UIDSetNum(1), DestUIDs: imap.UIDSetNum(7)}, nil
}

// ---- optional interfaces

func (c *Core) doMove(w *imapserver.MoveWriter, set imap.NumSet, dest string) error {
	if err := c.record("Move", map[string]any{"set": CopyNumSet(set), "dest": dest}); err != nil {
		return err
	}
	if c.OnMove != nil {
		return c.OnMove(w, set, dest)
	}
	return w.WriteCopyData(&imap.CopyData{UIDValidity: 1, SourceUIDs: imap.UIDSetNum(1), DestUIDs: imap.UIDSetNum(7)})
}

func (c *Core) doNamespace() (*imap.NamespaceData, error) {
	if err := c.record("Namespace", map[string]any{}); err != nil {
		return nil, err
	}
	if c.OnNamespace != nil {
		return c.OnNamespace()
	}
	return &imap.NamespaceData{Personal: []imap.NamespaceDescriptor{{Prefix: "", Delim: '/'}}}, nil
}

func (c *Core) doUnauthenticate() error { return c.record("Unauthenticate", map[string]any{}) }

type saslPlain struct {
	c    *Core
	done bool
}

func (s *saslPlain) Next(resp []byte) ([]byte, bool, error) {
	if s.done {
		return nil, true, nil
	}
	if resp == nil {
		return []byte{}, false, nil
	}
	s.done = true
	parts := bytes.Split(resp, []byte{0})
	if len(parts) != 3 {
		return nil, false, &imap.Error{Type: imap.StatusResponseTypeBad, Text: "malformed PLAIN"}
	}
	err := s.c.record("SASL-PLAIN", map[string]any{"identity": string(parts[0]), "username": string(parts[1]), "password": string(parts[2])})
	return nil, err == nil, err
}

func (c *Core) doAuthenticate(mech string) (sasl.Server, error) {
	if err := c.record("Authenticate", map[string]any{"mech": mech}); err != nil {
		return nil, err
	}
	return &saslPlain{c: c}, nil
}

// Feature selects which optional session interfaces a Session value has.
type Feature int

const (
	FMove Feature = 1 << iota
	FNamespace
	FUnauth
	FSASL
	FAll = FMove | FNamespace | FUnauth | FSASL
)

type mv struct{ c *Core }

func (m mv) Move(w *imapserver.MoveWriter, set imap.NumSet, dest string) error {
	return m.c.doMove(w, set, dest)
}

type ns struct{ c *Core }

func (n ns) Namespace() (*imap.NamespaceData, error) { return n.c.doNamespace() }

type ua struct{ c *Core }

func (u ua) Unauthenticate() error { return u.c.doUnauthenticate() }

type sa struct{ c *Core }

func (s sa) AuthenticateMechanisms() []string              { return s.c.Mechs }
func (s sa) Authenticate(mech string) (sasl.Server, error) { return s.c.doAuthenticate(mech) }

// Session returns an imapserver.Session backed by c whose dynamic type
// implements exactly the optional interfaces selected by f.
func Session(c *Core, f Feature) imapserver.Session {
	m, n, u, s := mv{c}, ns{c}, ua{c}, sa{c}
	switch f {
	case 0:
		return struct{ *Core }{c}
	case FMove:
		return struct {
			*Core
			mv
		}{c, m}
	case FNamespace:
		return struct {
			*Core
			ns
		}{c, n}
	case FUnauth:
		return struct {
			*Core
			ua
		}{c, u}
	case FSASL:
		return struct {
			*Core
			sa
		}{c, s}
	case FMove | FNamespace:
		return struct {
			*Core
			mv
			ns
		}{c, m, n}
	case FMove | FUnauth:
		return struct {
			*Core
			mv
			ua
		}{c, m, u}
	case FMove | FSASL:
		return struct {
			*Core
			mv
			sa
		}{c, m, s}
	case FNamespace | FUnauth:
		return struct {
			*Core
			ns
			ua
		}{c, n, u}
	case FNamespace | FSASL:
		return struct {
			*Core
			ns
			sa
		}{c, n, s}
	case FUnauth | FSASL:
		return struct {
			*Core
			ua
			sa
		}{c, u, s}
	case FMove | FNamespace | FUnauth:
		return struct {
			*Core
			mv
			ns
			ua
		}{c, m, n, u}
	case FMove | FNamespace | FSASL:
		return struct {
			*Core
			mv
			ns
			sa
		}{c, m, n, s}
	case FMove | FUnauth | FSASL:
		return struct {
			*Core
			mv
			ua
			sa
		}{c, m, u, s}
	case FNamespace | FUnauth | FSASL:
		return struct {
			*Core
			ns
			ua
			sa
		}{c, n, u, s}
	default:
		return struct {
			*Core
			mv
			ns
			ua
			sa
		}{c, m, n, u, s}
	}
}
