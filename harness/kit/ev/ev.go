// Package ev collects what a check run actually explored: evaluations, the set
// of distinct non-trivial cases (by hash), per-class label counts, the number
// of generated cases excluded because they fall in a listed known finding, and
// a few rendered samples. One file per process, merged by driver/run.py.
package ev

import (
	"encoding/binary"
	"encoding/json"
	"fmt"
	"hash/fnv"
	"os"
	"sort"
	"sync"
	"testing"
)

const maxHashes = 4_000_000
const maxSamples = 10

type state struct {
	mu        sync.Mutex
	evals     int64
	hashes    map[uint64]struct{}
	saturated bool
	classes   map[string]int64
	excluded  map[string]int64
	samples   []string
	sampleN   int64
	extra     map[string]any
	known     map[string]string // known-finding id -> "reproduces"|"gone"
}

var st = &state{
	hashes:   map[uint64]struct{}{},
	classes:  map[string]int64{},
	excluded: map[string]int64{},
	extra:    map[string]any{},
	known:    map[string]string{},
}

// Eval counts one generated case / execution.
func Eval() {
	st.mu.Lock()
	st.evals++
	st.mu.Unlock()
}

// EvalN counts n executions at once (enumerations).
func EvalN(n int64) {
	st.mu.Lock()
	st.evals += n
	st.mu.Unlock()
}

// NonTrivial records a case that is non-trivial by the property's stated
// rule; key must render the whole case so that distinctness is measured.
func NonTrivial(key string) {
	h := fnv.New64a()
	h.Write([]byte(key))
	v := h.Sum64()
	st.mu.Lock()
	if len(st.hashes) < maxHashes {
		st.hashes[v] = struct{}{}
	} else {
		st.saturated = true
	}
	st.mu.Unlock()
}

// Class increments a class label.
func Class(label string) {
	st.mu.Lock()
	st.classes[label]++
	st.mu.Unlock()
}

// ClassN adds n to a class label.
func ClassN(label string, n int64) {
	st.mu.Lock()
	st.classes[label] += n
	st.mu.Unlock()
}

// Excluded counts a generated case (or sub-value) that was steered away from
// because it falls into the listed known finding fid.
func Excluded(fid string) {
	st.mu.Lock()
	st.excluded[fid]++
	st.mu.Unlock()
}

// Sample keeps up to maxSamples rendered cases, spread deterministically over
// the run (1st, 2nd, 4th, 8th ... then every 2^k-th replaces round-robin).
func Sample(s string) {
	if len(s) > 600 {
		s = s[:600] + fmt.Sprintf("…(+%d bytes)", len(s)-600)
	}
	st.mu.Lock()
	st.sampleN++
	n := st.sampleN
	if len(st.samples) < maxSamples {
		if n&(n-1) == 0 || n < 4 { // powers of two
			st.samples = append(st.samples, s)
		}
	} else if n&(n-1) == 0 {
		st.samples[int(n%int64(maxSamples))] = s
	}
	st.mu.Unlock()
}

// Set records an extra coverage key (last write wins).
func Set(key string, v any) {
	st.mu.Lock()
	st.extra[key] = v
	st.mu.Unlock()
}

// Add adds to a numeric extra coverage key.
func Add(key string, n int64) {
	st.mu.Lock()
	cur, _ := st.extra[key].(int64)
	st.extra[key] = cur + n
	st.mu.Unlock()
}

// Known records the outcome of a known-finding reproducer.
func Known(fid string, reproduces bool) {
	st.mu.Lock()
	if reproduces {
		st.known[fid] = "reproduces"
	} else {
		st.known[fid] = "gone"
	}
	st.mu.Unlock()
}

type outFile struct {
	Evaluations int64             `json:"evaluations"`
	Distinct    int               `json:"distinct_nontrivial"`
	Saturated   bool              `json:"hash_set_saturated"`
	Classes     map[string]int64  `json:"classes"`
	Excluded    map[string]int64  `json:"excluded_known"`
	Samples     []string          `json:"samples"`
	Extra       map[string]any    `json:"extra"`
	Known       map[string]string `json:"known"`
}

// Flush writes the counters to $VERIF_OUT (JSON) and $VERIF_OUT.hashes
// (little-endian uint64s). No-op when VERIF_OUT is unset.
func Flush() {
	path := os.Getenv("VERIF_OUT")
	if path == "" {
		return
	}
	st.mu.Lock()
	defer st.mu.Unlock()
	o := outFile{
		Evaluations: st.evals, Distinct: len(st.hashes), Saturated: st.saturated,
		Classes: st.classes, Excluded: st.excluded, Samples: st.samples, Extra: st.extra, Known: st.known,
	}
	b, _ := json.Marshal(o)
	_ = os.WriteFile(path, b, 0o644)
	hs := make([]uint64, 0, len(st.hashes))
	for h := range st.hashes {
		hs = append(hs, h)
	}
	sort.Slice(hs, func(i, j int) bool { return hs[i] < hs[j] })
	buf := make([]byte, 8*len(hs))
	for i, h := range hs {
		binary.LittleEndian.PutUint64(buf[8*i:], h)
	}
	_ = os.WriteFile(path+".hashes", buf, 0o644)
}

// Main is the TestMain body shared by all property packages.
func Main(m *testing.M) {
	code := m.Run()
	Flush()
	os.Exit(code)
}

// Thorough reports whether the thorough tier was requested.
func Thorough() bool { return os.Getenv("VERIF_TIER") == "thorough" }
