// Package cmdgen generates grammatical IMAP client commands (RFC 9051 section
// 6 plus the extensions imapserver parses) as raw text, with string arguments
// rendered as atoms, quoted strings or literals.
package cmdgen

import (
	"encoding/base64"
	"fmt"
	"strings"

	"pgregory.net/rapid"
)

// Opts tunes generation.
type Opts struct {
	// NoSyncLiterals renders every literal as non-synchronising ({n+}).
	NoSyncLiterals bool
	// MaxLit bounds literal payload sizes.
	MaxLit int
}

func pick[T any](t *rapid.T, label string, xs ...T) T { return rapid.SampledFrom(xs).Draw(t, label) }

func quote(s string) string {
	return `"` + strings.NewReplacer(`\`, `\\`, `"`, `\"`).Replace(s) + `"`
}

// AString renders s in a drawn form.
func AString(t *rapid.T, label, s string, o Opts) string {
	atomOK := s != "" && !strings.EqualFold(s, "NIL")
	quoteOK := true
	for i := 0; i < len(s); i++ {
		ch := s[i]
		if ch <= 0x20 || ch >= 0x7f || strings.IndexByte("(){%*\"\\]", ch) >= 0 {
			atomOK = false
		}
		if ch == 0 || ch == '\r' || ch == '\n' || ch >= 0x80 {
			quoteOK = false
		}
	}
	forms := []string{"lit"}
	if atomOK {
		forms = append(forms, "atom", "atom", "atom")
	}
	if quoteOK {
		forms = append(forms, "quoted", "quoted")
	}
	switch pick(t, label+".form", forms...) {
	case "atom":
		return s
	case "quoted":
		return quote(s)
	}
	if o.NoSyncLiterals || rapid.Bool().Draw(t, label+".nonsync") {
		return fmt.Sprintf("{%d+}\r\n%s", len(s), s)
	}
	return fmt.Sprintf("{%d}\r\n%s", len(s), s)
}

var words = []string{"INBOX", "inbox", "Sent", "a/b", "box", "Trash", "x y", "q\"uote", "&AOk-", "&bad", "", "NIL", "%", "*", "a*b", "dir/", "héllo", "line\r\nbreak", "{3}", "(p)"}

func word(t *rapid.T, label string, o Opts) string {
	return AString(t, label, pick(t, label+".w", words...), o)
}

// SeqSet draws sequence-set text.
func SeqSet(t *rapid.T, label string) string {
	n := rapid.IntRange(1, 3).Draw(t, label+".n")
	var parts []string
	num := func() string {
		return pick(t, label+".num", "1", "2", "3", "5", "10", "*", "4294967295", "100")
	}
	for i := 0; i < n; i++ {
		if rapid.Bool().Draw(t, label+".r") {
			parts = append(parts, num()+":"+num())
		} else {
			parts = append(parts, num())
		}
	}
	if rapid.IntRange(0, 9).Draw(t, label+".dollar") == 7 {
		return "$"
	}
	return strings.Join(parts, ",")
}

func flags(t *rapid.T, label string) string {
	n := rapid.IntRange(0, 3).Draw(t, label+".n")
	var fl []string
	for i := 0; i < n; i++ {
		fl = append(fl, pick(t, label+".f", `\Seen`, `\Deleted`, `\Flagged`, `\Answered`, `\Draft`, "kw", "$Forwarded", `\seen`, `\Custom`))
	}
	return strings.Join(fl, " ")
}

func date(t *rapid.T, label string) string {
	return pick(t, label, "1-Jan-2024", "10-Mar-2024", "31-Dec-1999", "29-Feb-2024")
}

// SearchKey draws a search key of bounded depth.
func SearchKey(t *rapid.T, depth int, o Opts) string {
	kinds := []string{"ALL", "ANSWERED", "DELETED", "DRAFT", "FLAGGED", "NEW", "OLD", "RECENT", "SEEN", "UNANSWERED", "UNDELETED", "UNDRAFT", "UNFLAGGED", "UNSEEN",
		"KEYWORD", "UNKEYWORD", "BCC", "CC", "FROM", "SUBJECT", "TO", "BODY", "TEXT", "HEADER", "SINCE", "BEFORE", "ON", "SENTSINCE", "SENTBEFORE", "SENTON",
		"LARGER", "SMALLER", "UID", "SEQ", "$"}
	if depth > 0 {
		kinds = append(kinds, "NOT", "OR", "LIST", "NOT", "OR")
	}
	k := pick(t, "skey", kinds...)
	switch k {
	case "KEYWORD", "UNKEYWORD":
		return k + " " + pick(t, "kw", "kw", "$Junk", `\Seen`)
	case "BCC", "CC", "FROM", "SUBJECT", "TO", "BODY", "TEXT":
		return k + " " + word(t, "sstr", o)
	case "HEADER":
		return k + " " + word(t, "hk", o) + " " + word(t, "hv", o)
	case "SINCE", "BEFORE", "ON", "SENTSINCE", "SENTBEFORE", "SENTON":
		return k + " " + date(t, "sdate")
	case "LARGER", "SMALLER":
		return k + " " + pick(t, "ssize", "0", "1", "100", "4294967295", "9223372036854775807")
	case "UID":
		return "UID " + SeqSet(t, "suid")
	case "SEQ":
		return SeqSet(t, "sseq")
	case "NOT":
		return "NOT " + SearchKey(t, depth-1, o)
	case "OR":
		return "OR " + SearchKey(t, depth-1, o) + " " + SearchKey(t, depth-1, o)
	case "LIST":
		n := rapid.IntRange(1, 3).Draw(t, "slistn")
		var parts []string
		for i := 0; i < n; i++ {
			parts = append(parts, SearchKey(t, depth-1, o))
		}
		return "(" + strings.Join(parts, " ") + ")"
	}
	return k
}

func section(t *rapid.T, o Opts) string {
	part := pick(t, "part", "", "", "1", "1.2", "2.1.3", "1.2.3.4.5", "4294967295")
	spec := pick(t, "spec", "", "HEADER", "TEXT", "MIME", "HEADER.FIELDS", "HEADER.FIELDS.NOT")
	if spec == "MIME" && part == "" {
		part = "1"
	}
	s := part
	if spec != "" {
		if s != "" {
			s += "."
		}
		s += spec
		if strings.HasPrefix(spec, "HEADER.FIELDS") {
			n := rapid.IntRange(1, 3).Draw(t, "nhdr")
			var hs []string
			for i := 0; i < n; i++ {
				hs = append(hs, AString(t, "hdr", pick(t, "hdrname", "From", "To", "Subject", "X-A", "Date"), o))
			}
			s += " (" + strings.Join(hs, " ") + ")"
		}
	}
	out := "[" + s + "]"
	if rapid.IntRange(0, 3).Draw(t, "partial") == 1 {
		out += "<" + pick(t, "poff", "0", "1", "100", "4294967295", "9223372036854775807") + "." + pick(t, "psize", "0", "1", "10", "4294967295", "9223372036854775807") + ">"
	}
	return out
}

func fetchItem(t *rapid.T, o Opts) string {
	switch k := pick(t, "fitem", "BODYSTRUCTURE", "BODY", "ENVELOPE", "FLAGS", "INTERNALDATE", "RFC822.SIZE", "UID", "RFC822", "RFC822.HEADER", "RFC822.TEXT",
		"BODY[]", "BODY.PEEK[]", "BINARY[]", "BINARY.PEEK[]", "BINARY.SIZE[]"); k {
	case "BODY[]":
		return "BODY" + section(t, o)
	case "BODY.PEEK[]":
		return "BODY.PEEK" + section(t, o)
	case "BINARY[]", "BINARY.PEEK[]":
		s := strings.TrimSuffix(k, "[]") + "[" + pick(t, "bpart", "", "1", "1.2", "1.2.3.4.5.6") + "]"
		if rapid.IntRange(0, 3).Draw(t, "bpartial") == 1 {
			s += "<0.10>"
		}
		return s
	case "BINARY.SIZE[]":
		return "BINARY.SIZE[" + pick(t, "bspart", "", "1", "2.3") + "]"
	default:
		return k
	}
}

func statusItems(t *rapid.T) string {
	all := []string{"MESSAGES", "UIDNEXT", "UIDVALIDITY", "UNSEEN", "DELETED", "SIZE", "APPENDLIMIT", "DELETED-STORAGE", "RECENT"}
	n := rapid.IntRange(1, 4).Draw(t, "nstatus")
	var it []string
	for i := 0; i < n; i++ {
		it = append(it, pick(t, "sitem", all...))
	}
	return "(" + strings.Join(it, " ") + ")"
}

// Names lists the command kinds Command can generate.
var Names = []string{"CAPABILITY", "NOOP", "CHECK", "LOGIN", "AUTHENTICATE", "ENABLE", "SELECT", "EXAMINE", "CREATE", "DELETE", "RENAME", "SUBSCRIBE", "UNSUBSCRIBE",
	"LIST", "LSUB", "NAMESPACE", "STATUS", "APPEND", "IDLE", "CLOSE", "UNSELECT", "EXPUNGE", "UID EXPUNGE", "SEARCH", "UID SEARCH", "FETCH", "UID FETCH",
	"STORE", "UID STORE", "COPY", "UID COPY", "MOVE", "UID MOVE", "UNAUTHENTICATE"}

// Command draws the text of one command of the given kind (no tag, no final
// CRLF; literals embedded). For IDLE and AUTHENTICATE without initial
// response the follow-up line is appended after a CRLF.
func Command(t *rapid.T, kind string, o Opts) string {
	if o.MaxLit == 0 {
		o.MaxLit = 200
	}
	switch kind {
	case "LOGIN":
		return "LOGIN " + word(t, "user", o) + " " + word(t, "pass", o)
	case "AUTHENTICATE":
		ir := base64.StdEncoding.EncodeToString([]byte("\x00user\x00pass"))
		if rapid.Bool().Draw(t, "sasl-ir") {
			return "AUTHENTICATE PLAIN " + ir
		}
		return "AUTHENTICATE PLAIN\r\n" + ir
	case "ENABLE":
		return "ENABLE " + pick(t, "enable", "IMAP4rev2", "UTF8=ACCEPT", "IMAP4rev2 UTF8=ACCEPT", "CONDSTORE")
	case "SELECT", "EXAMINE", "DELETE", "SUBSCRIBE", "UNSUBSCRIBE":
		return kind + " " + word(t, "mbox", o)
	case "CREATE":
		s := "CREATE " + word(t, "mbox", o)
		if rapid.IntRange(0, 3).Draw(t, "use") == 2 {
			s += ` (USE (` + pick(t, "useattr", `\Sent`, `\Trash \Junk`, `\Archive`) + `))`
		}
		return s
	case "RENAME":
		return "RENAME " + word(t, "old", o) + " " + word(t, "new", o)
	case "LIST":
		s := "LIST "
		if rapid.IntRange(0, 3).Draw(t, "selopts") == 2 {
			s += pick(t, "selopt", "(SUBSCRIBED)", "(SUBSCRIBED RECURSIVEMATCH)", "(REMOTE)", "()") + " "
		}
		s += word(t, "ref", o) + " "
		if rapid.IntRange(0, 3).Draw(t, "multipat") == 2 {
			s += "(" + word(t, "pat1", o) + " " + word(t, "pat2", o) + ")"
		} else {
			s += word(t, "pat", o)
		}
		if rapid.IntRange(0, 3).Draw(t, "retopts") == 2 {
			s += " RETURN " + pick(t, "retopt", "(SUBSCRIBED)", "(CHILDREN)", "(SUBSCRIBED CHILDREN)", "()")
			if rapid.Bool().Draw(t, "retstatus") {
				s = strings.TrimSuffix(s, ")")
				if !strings.HasSuffix(s, "(") {
					s += " "
				}
				s += "STATUS " + statusItems(t) + ")"
			}
		}
		return s
	case "LSUB":
		return "LSUB " + word(t, "ref", o) + " " + word(t, "pat", o)
	case "STATUS":
		return "STATUS " + word(t, "mbox", o) + " " + statusItems(t)
	case "APPEND":
		s := "APPEND " + word(t, "mbox", o) + " "
		if rapid.Bool().Draw(t, "aflags") {
			s += "(" + flags(t, "af") + ") "
		}
		if rapid.Bool().Draw(t, "adate") {
			s += `"` + pick(t, "adatev", "10-Mar-2024 10:00:00 +0000", " 1-Jan-2024 00:00:00 -0800", "31-Dec-1999 23:59:59 +0530") + `" `
		}
		n := pick(t, "asize", 0, 1, 30, 200, 4096, 4097)
		if n > o.MaxLit && o.MaxLit > 0 {
			n = o.MaxLit
		}
		body := strings.Repeat("Subject: hi\r\n\r\nbody line\r\n", n/25+1)[:n]
		if o.NoSyncLiterals || rapid.Bool().Draw(t, "anonsync") {
			return s + fmt.Sprintf("{%d+}\r\n%s", n, body)
		}
		return s + fmt.Sprintf("{%d}\r\n%s", n, body)
	case "IDLE":
		return "IDLE\r\nDONE"
	case "UID EXPUNGE":
		return "UID EXPUNGE " + SeqSet(t, "uids")
	case "SEARCH", "UID SEARCH":
		s := kind + " "
		if rapid.IntRange(0, 3).Draw(t, "sret") == 2 {
			s += "RETURN " + pick(t, "sretv", "()", "(MIN)", "(MIN MAX COUNT)", "(ALL)", "(SAVE)", "(COUNT SAVE)") + " "
		}
		if rapid.IntRange(0, 4).Draw(t, "scharset") == 2 {
			s += "CHARSET " + pick(t, "charset", "UTF-8", "US-ASCII", "utf-8") + " "
		}
		n := rapid.IntRange(1, 4).Draw(t, "nkeys")
		var keys []string
		for i := 0; i < n; i++ {
			keys = append(keys, SearchKey(t, 3, o))
		}
		return s + strings.Join(keys, " ")
	case "FETCH", "UID FETCH":
		s := kind + " " + SeqSet(t, "fset") + " "
		switch rapid.IntRange(0, 4).Draw(t, "fform") {
		case 0:
			return s + pick(t, "macro", "ALL", "FAST", "FULL")
		case 1:
			return s + fetchItem(t, o)
		}
		n := rapid.IntRange(1, 4).Draw(t, "nitems")
		var items []string
		for i := 0; i < n; i++ {
			items = append(items, fetchItem(t, o))
		}
		return s + "(" + strings.Join(items, " ") + ")"
	case "STORE", "UID STORE":
		s := kind + " " + SeqSet(t, "sset") + " " + pick(t, "sop", "", "+", "-") + "FLAGS" + pick(t, "silent", "", ".SILENT") + " "
		if rapid.Bool().Draw(t, "slist") {
			return s + "(" + flags(t, "sf") + ")"
		}
		f := flags(t, "sf")
		if f == "" {
			f = `\Seen`
		}
		return s + f
	case "COPY", "UID COPY", "MOVE", "UID MOVE":
		return kind + " " + SeqSet(t, "cset") + " " + word(t, "dest", o)
	}
	return kind // CAPABILITY NOOP CHECK NAMESPACE CLOSE UNSELECT EXPUNGE UNAUTHENTICATE STARTTLS LOGOUT
}

// Any draws a command of any kind.
func Any(t *rapid.T, o Opts) (kind, text string) {
	kind = rapid.SampledFrom(Names).Draw(t, "kind")
	return kind, Command(t, kind, o)
}
