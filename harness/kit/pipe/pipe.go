// Package pipe provides in-memory transports for the harness: a buffered
// duplex net.Conn pair (writes never block, so neither endpoint can stall the
// other on a synchronous pipe), with real deadlines, half-observable closes,
// write recording/segmentation, and a net.Listener that hands server ends to
// imapserver.Server.Serve.
package pipe

import (
	"errors"
	"io"
	"net"
	"os"
	"sync"
	"time"
)

type addr string

func (a addr) Network() string { return "mem" }
func (a addr) String() string  { return string(a) }

// half is one direction of the duplex: a byte queue.
type half struct {
	mu     sync.Mutex
	cond   *sync.Cond
	buf    []byte
	closed bool  // writer closed: reader gets EOF after draining
	rerr   error // error delivered to the reader after draining (instead of EOF)
	broken error // error returned to the writer of this half (the reader is gone: EPIPE)
	// breakAt > 0: the write that would carry the byte at this offset (counted
	// over everything ever written into this half) only delivers the bytes
	// before it and fails; onBreak runs once at that moment
	breakAt  int64
	breakErr error
	onBreak  func()
	total    int64 // bytes ever written
	// stalled: writers block (a full socket buffer whose reader has stopped
	// reading) until the stall is lifted, the half breaks or the writer closes
	stalled bool
}

func newHalf() *half {
	h := &half{}
	h.cond = sync.NewCond(&h.mu)
	return h
}

// Conn is one endpoint.
type Conn struct {
	rd, wr *half
	name   string

	mu         sync.Mutex
	closed     bool
	closedCh   chan struct{}
	rdeadline  time.Time
	rtimer     *time.Timer
	wdeadline  time.Time
	wset       time.Time // when wdeadline was set
	wscale     float64   // > 0: a stalled Write honours the write deadline, shortened by this factor
	writeErr   error     // injected: next writes fail
	CloseCount int

	// OnWrite, if set, observes every Write (before it becomes readable by the peer).
	OnWrite func(b []byte)
}

// New returns the two endpoints of a fresh duplex connection.
func New() (a, b *Conn) {
	ab, ba := newHalf(), newHalf()
	a = &Conn{rd: ba, wr: ab, name: "a", closedCh: make(chan struct{})}
	b = &Conn{rd: ab, wr: ba, name: "b", closedCh: make(chan struct{})}
	return a, b
}

func (c *Conn) Read(p []byte) (int, error) {
	h := c.rd
	h.mu.Lock()
	defer h.mu.Unlock()
	for {
		c.mu.Lock()
		closed, dl := c.closed, c.rdeadline
		c.mu.Unlock()
		if closed {
			return 0, net.ErrClosed
		}
		if len(h.buf) > 0 {
			n := copy(p, h.buf)
			h.buf = h.buf[n:]
			return n, nil
		}
		if h.rerr != nil {
			return 0, h.rerr
		}
		if h.closed {
			return 0, io.EOF
		}
		if !dl.IsZero() && !time.Now().Before(dl) {
			return 0, os.ErrDeadlineExceeded
		}
		if len(p) == 0 {
			return 0, nil
		}
		h.cond.Wait()
	}
}

func (c *Conn) Write(p []byte) (int, error) {
	c.mu.Lock()
	closed, werr := c.closed, c.writeErr
	c.mu.Unlock()
	if closed {
		return 0, net.ErrClosed
	}
	if werr != nil {
		return 0, werr
	}
	h := c.wr
	h.mu.Lock()
	if h.closed {
		h.mu.Unlock()
		return 0, io.ErrClosedPipe
	}
	if h.broken != nil {
		err := h.broken
		h.mu.Unlock()
		return 0, err
	}
	h.mu.Unlock()
	// observers see the write before the peer can react to it
	if c.OnWrite != nil {
		c.OnWrite(p)
	}
	h.mu.Lock()
	for h.stalled && h.broken == nil && !h.closed {
		dl, ok := c.scaledWriteDeadline()
		if !ok {
			h.cond.Wait()
			continue
		}
		rem := time.Until(dl)
		if rem <= 0 {
			h.mu.Unlock()
			return 0, os.ErrDeadlineExceeded
		}
		tm := time.AfterFunc(rem, func() { h.mu.Lock(); h.cond.Broadcast(); h.mu.Unlock() })
		h.cond.Wait()
		tm.Stop()
	}
	if h.closed {
		h.mu.Unlock()
		return 0, io.ErrClosedPipe
	}
	if h.broken != nil {
		err := h.broken
		h.mu.Unlock()
		return 0, err
	}
	if h.breakAt > 0 && h.total+int64(len(p)) >= h.breakAt {
		n := int(h.breakAt - 1 - h.total)
		if n < 0 {
			n = 0
		}
		h.buf = append(h.buf, p[:n]...)
		h.total += int64(n)
		h.broken = h.breakErr
		h.breakAt = 0
		f := h.onBreak
		err := h.broken
		h.cond.Broadcast()
		h.mu.Unlock()
		if f != nil {
			f()
		}
		return n, err
	}
	h.buf = append(h.buf, p...)
	h.total += int64(len(p))
	h.cond.Broadcast()
	h.mu.Unlock()
	return len(p), nil
}

// Close closes this endpoint: the peer reads EOF after draining, local reads
// and writes fail with net.ErrClosed.
func (c *Conn) Close() error {
	c.mu.Lock()
	c.CloseCount++
	if c.closed {
		c.mu.Unlock()
		return nil
	}
	c.closed = true
	close(c.closedCh)
	if c.rtimer != nil {
		c.rtimer.Stop()
	}
	c.mu.Unlock()
	c.wr.mu.Lock()
	c.wr.closed = true
	c.wr.cond.Broadcast()
	c.wr.mu.Unlock()
	c.rd.mu.Lock()
	c.rd.stalled = false // nobody is left to not read
	c.rd.cond.Broadcast()
	c.rd.mu.Unlock()
	return nil
}

// CloseWrite half-closes: the peer reads EOF, this side can still read.
func (c *Conn) CloseWrite() {
	c.wr.mu.Lock()
	c.wr.closed = true
	c.wr.cond.Broadcast()
	c.wr.mu.Unlock()
}

// Reset makes the peer's next read (after draining) fail with err (a
// connection-reset style error) and closes this endpoint.
func (c *Conn) Reset(err error) {
	c.wr.mu.Lock()
	c.wr.rerr = err
	c.wr.cond.Broadcast()
	c.wr.mu.Unlock()
	c.Close()
}

// BreakPeerWrites makes every later Write of the *peer* fail with err, as a
// socket does once the other side is gone (EPIPE / connection reset). Without
// it, writes to an endpoint whose peer has closed succeed into the void (as
// they do on a real socket until the reset comes back).
func (c *Conn) BreakPeerWrites(err error) {
	c.rd.mu.Lock()
	c.rd.broken = err
	c.rd.cond.Broadcast()
	c.rd.mu.Unlock()
}

// StallPeerWrites(true) makes the *peer's* writes block, as they do once this
// endpoint has stopped reading and the buffers in between are full;
// StallPeerWrites(false), BreakPeerWrites or the peer closing release them.
func (c *Conn) StallPeerWrites(on bool) {
	c.rd.mu.Lock()
	c.rd.stalled = on
	c.rd.cond.Broadcast()
	c.rd.mu.Unlock()
}

// BreakPeerWritesAt arranges that the peer's output breaks at byte offset n
// (1-based, counted over everything the peer has ever written): the write
// carrying that byte delivers only what precedes it and fails with err, every
// later write fails too, and onBreak (may be nil) runs at that moment - the
// place to make this endpoint disappear as well.
func (c *Conn) BreakPeerWritesAt(n int64, err error, onBreak func()) {
	c.rd.mu.Lock()
	c.rd.breakAt, c.rd.breakErr, c.rd.onBreak = n, err, onBreak
	c.rd.mu.Unlock()
}

// FailWrites makes every later Write on this endpoint return err.
func (c *Conn) FailWrites(err error) {
	c.mu.Lock()
	c.writeErr = err
	c.mu.Unlock()
}

// Closed is closed when Close was called on this endpoint.
func (c *Conn) Closed() <-chan struct{} { return c.closedCh }

// IsClosed reports whether Close was called on this endpoint.
func (c *Conn) IsClosed() bool {
	c.mu.Lock()
	defer c.mu.Unlock()
	return c.closed
}

// Pending returns the number of bytes written by the peer and not yet read.
func (c *Conn) Pending() int {
	c.rd.mu.Lock()
	defer c.rd.mu.Unlock()
	return len(c.rd.buf)
}

// TotalWritten returns the number of bytes this endpoint has ever written.
func (c *Conn) TotalWritten() int64 {
	c.wr.mu.Lock()
	defer c.wr.mu.Unlock()
	return c.wr.total
}

func (c *Conn) LocalAddr() net.Addr  { return addr("mem-" + c.name) }
func (c *Conn) RemoteAddr() net.Addr { return addr("mem-peer-of-" + c.name) }

func (c *Conn) SetDeadline(t time.Time) error {
	c.SetReadDeadline(t)
	return c.SetWriteDeadline(t)
}

func (c *Conn) SetReadDeadline(t time.Time) error {
	c.mu.Lock()
	c.rdeadline = t
	if c.rtimer != nil {
		c.rtimer.Stop()
		c.rtimer = nil
	}
	if !t.IsZero() {
		d := time.Until(t)
		if d < 0 {
			d = 0
		}
		c.rtimer = time.AfterFunc(d, func() {
			c.rd.mu.Lock()
			c.rd.cond.Broadcast()
			c.rd.mu.Unlock()
		})
	}
	c.mu.Unlock()
	c.rd.mu.Lock()
	c.rd.cond.Broadcast()
	c.rd.mu.Unlock()
	return nil
}

func (c *Conn) SetWriteDeadline(t time.Time) error {
	c.mu.Lock()
	c.wdeadline = t
	c.wset = time.Now()
	c.mu.Unlock()
	return nil
}

// ScaleWriteDeadlines makes Writes of this endpoint that are blocked by
// StallPeerWrites fail with os.ErrDeadlineExceeded once the write deadline,
// shortened by factor (30 s become 30 ms with factor 1000), has passed.
// Without it a stalled Write ignores deadlines.
func (c *Conn) ScaleWriteDeadlines(factor float64) {
	c.mu.Lock()
	c.wscale = factor
	c.mu.Unlock()
}

func (c *Conn) scaledWriteDeadline() (time.Time, bool) {
	c.mu.Lock()
	defer c.mu.Unlock()
	if c.wscale <= 0 || c.wdeadline.IsZero() {
		return time.Time{}, false
	}
	d := c.wdeadline.Sub(c.wset)
	return c.wset.Add(time.Duration(float64(d) / c.wscale)), true
}

// ReadAvailable reads whatever arrives until the stream has been quiet for
// quiet, the peer closed, or max elapsed. It returns the bytes and whether EOF
// (or an error) was seen.
func (c *Conn) ReadAvailable(quiet, max time.Duration) ([]byte, bool) {
	var out []byte
	end := time.Now().Add(max)
	buf := make([]byte, 65536)
	for {
		dl := time.Now().Add(quiet)
		if dl.After(end) {
			dl = end
		}
		c.SetReadDeadline(dl)
		n, err := c.Read(buf)
		out = append(out, buf[:n]...)
		if err != nil {
			c.SetReadDeadline(time.Time{})
			if errors.Is(err, os.ErrDeadlineExceeded) {
				return out, false
			}
			return out, true
		}
	}
}

// ---------------------------------------------------------------- listener

// Listener is an in-memory net.Listener.
type Listener struct {
	ch     chan net.Conn
	mu     sync.Mutex
	closed bool
	done   chan struct{}
}

func NewListener() *Listener {
	return &Listener{ch: make(chan net.Conn, 64), done: make(chan struct{})}
}

func (l *Listener) Accept() (net.Conn, error) {
	select {
	case c := <-l.ch:
		return c, nil
	case <-l.done:
		return nil, net.ErrClosed
	}
}

func (l *Listener) Close() error {
	l.mu.Lock()
	defer l.mu.Unlock()
	if !l.closed {
		l.closed = true
		close(l.done)
	}
	return nil
}

func (l *Listener) Addr() net.Addr { return addr("mem-listener") }

// Dial creates a connection; the returned endpoints are (client, server),
// the server end having been handed to Accept.
func (l *Listener) Dial() (client, server *Conn) {
	client, server = New()
	l.ch <- server
	return client, server
}

// DialConn hands an arbitrary net.Conn to Accept (e.g. a *tls.Conn).
func (l *Listener) DialConn(server net.Conn) {
	l.ch <- server
}
