// Package srv starts a real imapserver.Server on an in-memory listener and
// offers a raw (library-free) client that frames responses with kit/tok.
package srv

import (
	"crypto/tls"
	"errors"
	"fmt"
	"io"
	"net"
	"os"
	"strings"
	"sync"
	"time"

	"github.com/emersion/go-imap/v2/imapserver"
	"github.com/emersion/go-imap/v2/verifh/kit/pipe"
	"github.com/emersion/go-imap/v2/verifh/kit/tok"
)

// Log captures server logger output.
type Log struct {
	mu    sync.Mutex
	lines []string
}

func (l *Log) Printf(format string, args ...interface{}) {
	l.mu.Lock()
	l.lines = append(l.lines, fmt.Sprintf(format, args...))
	l.mu.Unlock()
}

func (l *Log) Lines() []string {
	l.mu.Lock()
	defer l.mu.Unlock()
	return append([]string(nil), l.lines...)
}

// Panics returns logged panic reports.
func (l *Log) Panics() []string {
	var out []string
	for _, s := range l.Lines() {
		if strings.Contains(s, "panic handling command") || strings.Contains(s, "panic idling") {
			out = append(out, s)
		}
	}
	return out
}

// Env is a running server.
type Env struct {
	Server *imapserver.Server
	L      *pipe.Listener
	Log    *Log
	done   chan error
}

// Start runs a server with the given options (Logger is replaced).
func Start(opts imapserver.Options) *Env {
	e := &Env{L: pipe.NewListener(), Log: &Log{}, done: make(chan error, 1)}
	opts.Logger = e.Log
	e.Server = imapserver.New(&opts)
	go func() { e.done <- e.Server.Serve(e.L) }()
	return e
}

// Stop closes the server and waits for Serve to return.
func (e *Env) Stop() {
	e.Server.Close()
	select {
	case <-e.done:
	case <-time.After(10 * time.Second):
	}
}

// Raw is a raw client connection.
type Raw struct {
	Conn net.Conn   // what the client reads/writes (the pipe end, or a TLS client on top of it)
	C    *pipe.Conn // client end of the in-memory pipe
	S    *pipe.Conn // server end (observe Close)
	R    *tok.Reader
	// All collects every framed line received.
	All []*tok.Line
	// Timeout for blocking reads.
	Timeout time.Duration
}

// Dial opens a raw plaintext connection.
func (e *Env) Dial() *Raw {
	c, s := e.L.Dial()
	return &Raw{Conn: c, C: c, S: s, R: &tok.Reader{R: c, Server: true}, Timeout: 10 * time.Second}
}

// DialTLS opens a connection that is TLS from the first byte (implicit TLS):
// the server end handed to the server is a *tls.Conn.
func (e *Env) DialTLS(serverCfg, clientCfg *tls.Config) *Raw {
	c, s := pipe.New()
	e.L.DialConn(tls.Server(s, serverCfg))
	tc := tls.Client(c, clientCfg)
	return &Raw{Conn: tc, C: c, S: s, R: &tok.Reader{R: tc, Server: true}, Timeout: 10 * time.Second}
}

// StartTLS upgrades the client side to TLS (after the server's STARTTLS OK).
func (r *Raw) StartTLS(clientCfg *tls.Config) error {
	tc := tls.Client(r.C, clientCfg)
	r.C.SetDeadline(time.Now().Add(r.Timeout))
	err := tc.Handshake()
	r.C.SetDeadline(time.Time{})
	if err != nil {
		return err
	}
	r.Conn = tc
	r.R = &tok.Reader{R: tc, Server: true}
	return nil
}

var ErrTimeout = errors.New("srv: timed out waiting for the server")

// ReadLine reads one framed response line.
func (r *Raw) ReadLine() (*tok.Line, error) {
	r.C.SetReadDeadline(time.Now().Add(r.Timeout))
	l, err := r.R.ReadLine()
	r.C.SetReadDeadline(time.Time{})
	if err != nil {
		if errors.Is(err, os.ErrDeadlineExceeded) {
			return nil, ErrTimeout
		}
		return nil, err
	}
	r.All = append(r.All, l)
	return l, nil
}

// Send writes raw bytes.
func (r *Raw) Send(s string) error {
	_, err := r.Conn.Write([]byte(s))
	return err
}

// Until reads lines until stop returns true; returns all lines read
// (including the stopping one).
func (r *Raw) Until(stop func(*tok.Line) bool) ([]*tok.Line, error) {
	var out []*tok.Line
	for {
		l, err := r.ReadLine()
		if err != nil {
			return out, err
		}
		out = append(out, l)
		if stop(l) {
			return out, nil
		}
	}
}

// Cmd sends "tag text CRLF" and reads up to the tagged completion.
func (r *Raw) Cmd(tag, text string) ([]*tok.Line, *tok.Line, error) {
	if err := r.Send(tag + " " + text + "\r\n"); err != nil {
		return nil, nil, err
	}
	return r.WaitTag(tag)
}

// WaitTag reads until the status response carrying tag.
func (r *Raw) WaitTag(tag string) ([]*tok.Line, *tok.Line, error) {
	ls, err := r.Until(func(l *tok.Line) bool { return l.Status != "" && l.Tag == tag })
	if err != nil {
		return ls, nil, err
	}
	return ls[:len(ls)-1], ls[len(ls)-1], nil
}

// Greeting reads the greeting line.
func (r *Raw) Greeting() (*tok.Line, error) { return r.ReadLine() }

// Drain reads until EOF (server closed) or timeout; returns lines.
func (r *Raw) Drain() ([]*tok.Line, error) {
	var out []*tok.Line
	for {
		l, err := r.ReadLine()
		if err != nil {
			if err == io.EOF {
				return out, nil
			}
			return out, err
		}
		out = append(out, l)
	}
}

// Close closes the client end.
func (r *Raw) Close() { r.C.Close() }

// WaitServerClosed waits until the server closed its end of the connection.
func (r *Raw) WaitServerClosed(d time.Duration) bool {
	select {
	case <-r.S.Closed():
		return true
	case <-time.After(d):
		return false
	}
}
