// Package mem runs a real imapserver on top of the in-memory backend and
// drives it through raw connections; every connection carries an Observer
// that reconstructs, from the response stream alone (framed by kit/tok, not
// by go-imap), what the server has announced on that connection.
package mem

import (
	"fmt"
	"strconv"
	"strings"
	"time"

	imap "github.com/emersion/go-imap/v2"
	"github.com/emersion/go-imap/v2/imapserver"
	"github.com/emersion/go-imap/v2/imapserver/imapmemserver"
	"github.com/emersion/go-imap/v2/verifh/kit/srv"
	"github.com/emersion/go-imap/v2/verifh/kit/tok"
)

// World is one server with one user.
type World struct {
	Env  *srv.Env
	Mem  *imapmemserver.Server
	User *imapmemserver.User
	n    int
}

// Start creates the server, the user "u"/"p" and the given mailboxes.
func Start(mailboxes ...string) *World {
	w := &World{Mem: imapmemserver.New()}
	w.User = imapmemserver.NewUser("u", "p")
	for _, m := range mailboxes {
		if err := w.User.Create(m, nil); err != nil {
			panic(err)
		}
	}
	w.Mem.AddUser(w.User)
	w.Env = srv.Start(imapserver.Options{
		NewSession: func(*imapserver.Conn) (imapserver.Session, *imapserver.GreetingData, error) {
			return w.Mem.NewSession(), nil, nil
		},
		InsecureAuth: true,
		Caps: imap.CapSet{
			imap.CapIMAP4rev1: {}, imap.CapIMAP4rev2: {}, imap.CapMove: {}, imap.CapUIDPlus: {}, imap.CapESearch: {},
			imap.CapSearchRes: {}, imap.CapNamespace: {}, imap.CapListExtended: {}, imap.CapListStatus: {}, imap.CapStatusSize: {},
			imap.CapSpecialUse: {}, imap.CapChildren: {}, imap.CapAppendLimit: {}, imap.CapBinary: {},
		},
	})
	return w
}

func (w *World) Stop() { w.Env.Stop() }

// Conn is one raw session.
type Conn struct {
	ID   int
	Raw  *srv.Raw
	Obs  *Observer
	tagN int
	Idle bool // inside IDLE (tag pending)
	idleTag string
	// Log is the rendered command/response history of this connection.
	Log []string
}

// Dial opens a connection, reads the greeting and logs in.
func (w *World) Dial() (*Conn, error) {
	w.n++
	c := &Conn{ID: w.n, Raw: w.Env.Dial(), Obs: &Observer{}}
	c.Raw.Timeout = 15 * time.Second
	if _, err := c.Raw.Greeting(); err != nil {
		return nil, fmt.Errorf("greeting: %w", err)
	}
	_, st, err := c.Do("LOGIN", false, "LOGIN u p")
	if err != nil {
		return nil, err
	}
	if st.Status != "OK" {
		return nil, fmt.Errorf("login: %s", st.Raw)
	}
	return c, nil
}

func (c *Conn) nextTag() string {
	c.tagN++
	return fmt.Sprintf("c%dt%d", c.ID, c.tagN)
}

func (c *Conn) note(s string) {
	if len(s) > 300 {
		s = s[:300] + "…"
	}
	c.Log = append(c.Log, s)
}

// Do sends one command (text without tag) and reads up to its completion.
// name is the command name without "UID"; uid tells whether it is a UID form.
func (c *Conn) Do(name string, uid bool, text string) ([]*tok.Line, *tok.Line, error) {
	tag := c.nextTag()
	// command names are case-insensitive: every third command is sent with its
	// leading words ("UID FETCH", "SEARCH RETURN") in lower case, every seventh
	// in mixed case (deterministic, so that histories replay)
	text = recase(text, c.tagN)
	c.note(fmt.Sprintf("C%d> %s %s", c.ID, tag, text))
	c.Obs.Begin(name, uid)
	if err := c.Raw.Send(tag + " " + text + "\r\n"); err != nil {
		return nil, nil, err
	}
	return c.finish(tag)
}

// recase rewrites the command name (and a leading "UID") of text.
func recase(text string, n int) string {
	if n%3 != 0 && n%7 != 0 {
		return text
	}
	words := strings.SplitN(text, " ", 3)
	k := 1
	if strings.EqualFold(words[0], "UID") && len(words) > 1 {
		k = 2
	}
	for i := 0; i < k && i < len(words); i++ {
		w := strings.ToLower(words[i])
		if n%7 == 0 && len(w) > 1 {
			w = strings.ToUpper(w[:1]) + w[1:]
		}
		words[i] = w
	}
	return strings.Join(words, " ")
}

func (c *Conn) finish(tag string) ([]*tok.Line, *tok.Line, error) {
	var out []*tok.Line
	for {
		l, err := c.Raw.ReadLine()
		if err != nil {
			c.note(fmt.Sprintf("C%d! %v", c.ID, err))
			return out, nil, fmt.Errorf("connection %d waiting for %s: %w", c.ID, tag, err)
		}
		c.note(fmt.Sprintf("C%d< %s", c.ID, strings.TrimRight(string(l.Raw), "\r\n")))
		if l.Status != "" && l.Tag == tag {
			c.Obs.End(l)
			return out, l, nil
		}
		c.Obs.Feed(l)
		out = append(out, l)
	}
}

// Append sends APPEND with a literal ({n+} when it fits, else synchronising).
func (c *Conn) Append(mailbox, flagsAndDate string, msg []byte) ([]*tok.Line, *tok.Line, error) {
	tag := c.nextTag()
	c.Obs.Begin("APPEND", false)
	head := fmt.Sprintf("%s APPEND %s %s", tag, mailbox, flagsAndDate)
	if flagsAndDate == "" {
		head = fmt.Sprintf("%s APPEND %s", tag, mailbox)
	}
	c.note(fmt.Sprintf("C%d> %s {%d bytes}", c.ID, head, len(msg)))
	if len(msg) <= 4096 {
		if err := c.Raw.Send(fmt.Sprintf("%s {%d+}\r\n%s\r\n", head, len(msg), msg)); err != nil {
			return nil, nil, err
		}
		return c.finish(tag)
	}
	if err := c.Raw.Send(fmt.Sprintf("%s {%d}\r\n", head, len(msg))); err != nil {
		return nil, nil, err
	}
	for {
		l, err := c.Raw.ReadLine()
		if err != nil {
			return nil, nil, err
		}
		if l.IsCont {
			break
		}
		if l.Status != "" && l.Tag == tag {
			c.Obs.End(l)
			return nil, l, nil
		}
		c.Obs.Feed(l)
	}
	if err := c.Raw.Send(string(msg) + "\r\n"); err != nil {
		return nil, nil, err
	}
	return c.finish(tag)
}

// StartIdle sends IDLE and waits for the continuation request.
func (c *Conn) StartIdle() error {
	tag := c.nextTag()
	c.note(fmt.Sprintf("C%d> %s IDLE", c.ID, tag))
	c.Obs.Begin("IDLE", false)
	if err := c.Raw.Send(tag + " IDLE\r\n"); err != nil {
		return err
	}
	for {
		l, err := c.Raw.ReadLine()
		if err != nil {
			return fmt.Errorf("connection %d waiting for IDLE continuation: %w", c.ID, err)
		}
		c.note(fmt.Sprintf("C%d< %s", c.ID, strings.TrimRight(string(l.Raw), "\r\n")))
		if l.IsCont {
			c.Idle, c.idleTag = true, tag
			return nil
		}
		if l.Status != "" && l.Tag == tag {
			c.Obs.End(l)
			return fmt.Errorf("IDLE refused: %s", l.Raw)
		}
		c.Obs.Feed(l)
	}
}

// Done ends IDLE and reads up to its completion.
func (c *Conn) Done() ([]*tok.Line, *tok.Line, error) {
	c.note(fmt.Sprintf("C%d> DONE", c.ID))
	if err := c.Raw.Send("DONE\r\n"); err != nil {
		return nil, nil, err
	}
	c.Idle = false
	return c.finish(c.idleTag)
}

// Close drops the connection.
func (c *Conn) Close() { c.Raw.Close() }

// ---------------------------------------------------------------- observer

// Observer tracks what one connection has been told.
type Observer struct {
	Selected bool
	// View is the message list as announced: one entry per message, the UID
	// when a FETCH has revealed it, else 0.
	View []uint32
	// Violations of the wire invariants, in order of appearance.
	Violations []string
	// Removed lists the UIDs (0 = never revealed) of entries removed by EXPUNGE.
	Removed []uint32
	// StaleAtCommand counts commands that started while… (set by the harness)
	cmd       string
	cmdUID    bool
	selecting bool
	// counters
	NExpunge, NExists, NFetch int
}

func (o *Observer) bad(f string, a ...any) {
	o.Violations = append(o.Violations, fmt.Sprintf(f, a...))
}

// Begin notes the command about to be answered.
func (o *Observer) Begin(name string, uid bool) {
	o.cmd, o.cmdUID = strings.ToUpper(name), uid
	if o.cmd == "SELECT" || o.cmd == "EXAMINE" {
		// the previous mailbox is closed whatever the outcome
		o.selecting = true
		o.Selected = false
		o.View = nil
	}
}

// End notes the tagged completion.
func (o *Observer) End(l *tok.Line) {
	switch o.cmd {
	case "SELECT", "EXAMINE":
		o.selecting = false
		o.Selected = l.Status == "OK"
		if !o.Selected {
			o.View = nil
		}
	case "CLOSE", "UNSELECT":
		if l.Status == "OK" {
			o.Selected = false
			o.View = nil
		}
	}
	o.cmd = ""
}

func num(t tok.Tok) (uint32, bool) {
	if t.Kind != tok.Atom {
		return 0, false
	}
	v, err := strconv.ParseUint(t.S, 10, 32)
	return uint32(v), err == nil
}

// Feed processes one untagged line.
func (o *Observer) Feed(l *tok.Line) {
	if l.Tag != "*" || l.Status != "" || len(l.Toks) < 2 {
		return
	}
	raw := strings.TrimRight(string(l.Raw), "\r\n")
	if len(raw) > 120 {
		raw = raw[:120] + "…"
	}
	// l.Toks[0] is "*"; drop the separators
	var t []tok.Tok
	for _, x := range l.Toks[1:] {
		if x.Kind != tok.SP {
			t = append(t, x)
		}
	}
	if len(t) == 0 {
		return
	}
	if n, ok := num(t[0]); ok && len(t) >= 2 && t[1].Kind == tok.Atom {
		switch strings.ToUpper(t[1].S) {
		case "EXISTS":
			o.NExists++
			if o.selecting {
				o.View = make([]uint32, n)
				return
			}
			if !o.Selected {
				o.bad("%q sent while no mailbox is selected", raw)
				return
			}
			if int(n) < len(o.View) {
				o.bad("%q: the announced message count shrank from %d to %d without EXPUNGE", raw, len(o.View), n)
				o.View = o.View[:n]
				return
			}
			for len(o.View) < int(n) {
				o.View = append(o.View, 0)
			}
		case "EXPUNGE":
			o.NExpunge++
			if !o.Selected {
				o.bad("%q sent while no mailbox is selected", raw)
				return
			}
			if !o.cmdUID && (o.cmd == "FETCH" || o.cmd == "STORE" || o.cmd == "SEARCH") {
				o.bad("%q sent while answering a non-UID %s", raw, o.cmd)
			}
			if n < 1 || int(n) > len(o.View) {
				o.bad("%q: sequence number outside 1..%d (the announced message count)", raw, len(o.View))
				return
			}
			o.Removed = append(o.Removed, o.View[n-1])
			o.View = append(o.View[:n-1:n-1], o.View[n:]...)
		case "FETCH":
			o.NFetch++
			if !o.Selected {
				o.bad("%q sent while no mailbox is selected", raw)
				return
			}
			if n < 1 || int(n) > len(o.View) {
				o.bad("%q: sequence number outside 1..%d (the announced message count)", raw, len(o.View))
				return
			}
			nodes, err := tok.Tree(t[2:])
			if err != nil || len(nodes) == 0 || !nodes[0].List {
				return
			}
			items := nodes[0].Children
			for i := 0; i+1 < len(items); i++ {
				if items[i].IsAtom("UID") {
					if u, ok := num(items[i+1].Tok); ok {
						if old := o.View[n-1]; old != 0 && old != u {
							o.bad("%q: message %d was previously reported with UID %d", raw, n, old)
						}
						for j, v := range o.View {
							if v == u && j != int(n-1) {
								o.bad("%q: UID %d was previously reported at sequence number %d", raw, u, j+1)
							}
						}
						o.View[n-1] = u
					}
				}
			}
		}
		return
	}
	if t[0].Kind == tok.Atom && !o.cmdUID {
		switch strings.ToUpper(t[0].S) {
		case "SEARCH":
			for _, x := range t[1:] {
				if x.Kind == tok.Atom && strings.HasPrefix(x.S, "(") {
					break // MODSEQ
				}
				n, ok := num(x)
				if !ok {
					continue
				}
				if n < 1 || int(n) > len(o.View) {
					o.bad("%q: sequence number %d outside 1..%d (the announced message count)", raw, n, len(o.View))
				}
			}
		case "ESEARCH":
			// * ESEARCH (TAG "x") [UID] MIN n MAX n ALL set COUNT n
			nodes, err := tok.Tree(t[1:])
			if err != nil {
				return
			}
			for i := 0; i < len(nodes); i++ {
				if nodes[i].IsAtom("UID") {
					return
				}
				if i+1 >= len(nodes) {
					break
				}
				switch {
				case nodes[i].IsAtom("MIN"), nodes[i].IsAtom("MAX"):
					if n, ok := num(nodes[i+1].Tok); ok && (n < 1 || int(n) > len(o.View)) {
						o.bad("%q: %s %d outside 1..%d (the announced message count)", raw, nodes[i].Tok.S, n, len(o.View))
					}
					i++
				case nodes[i].IsAtom("ALL"):
					for _, r := range strings.Split(nodes[i+1].Tok.S, ",") {
						for _, e := range strings.Split(r, ":") {
							v, err := strconv.ParseUint(e, 10, 32)
							if err != nil || v < 1 || int(v) > len(o.View) {
								o.bad("%q: ALL element %q outside 1..%d (the announced message count)", raw, e, len(o.View))
							}
						}
					}
					i++
				case nodes[i].IsAtom("COUNT"):
					i++
				}
			}
		}
	}
}

// ---------------------------------------------------------------- response parsing helpers

// Toks returns the tokens of an untagged line without the leading "*" and
// without separators.
func Toks(l *tok.Line) []tok.Tok {
	var t []tok.Tok
	if len(l.Toks) == 0 {
		return nil
	}
	for _, x := range l.Toks[1:] {
		if x.Kind != tok.SP {
			t = append(t, x)
		}
	}
	return t
}

// Fetch is a parsed "* n FETCH (...)" line: item name (upper-cased, with the
// section and partial origin, e.g. "BODY[1.MIME]<0>") -> value node.
type Fetch struct {
	Seq   uint32
	Items map[string]*tok.Node
	Order []string
}

// ParseFetch parses a FETCH data line; ok=false for any other line.
func ParseFetch(l *tok.Line) (*Fetch, bool) {
	if l.Tag != "*" || l.Status != "" {
		return nil, false
	}
	t := Toks(l)
	if len(t) < 3 || !strings.EqualFold(t[1].S, "FETCH") || t[1].Kind != tok.Atom {
		return nil, false
	}
	n, ok := num(t[0])
	if !ok {
		return nil, false
	}
	nodes, err := tok.Tree(t[2:])
	if err != nil || len(nodes) != 1 || !nodes[0].List {
		return nil, false
	}
	f := &Fetch{Seq: n, Items: map[string]*tok.Node{}}
	ch := nodes[0].Children
	for i := 0; i < len(ch); {
		if ch[i].List || ch[i].Bracket || ch[i].Tok.Kind != tok.Atom {
			return nil, false
		}
		name := strings.ToUpper(ch[i].Tok.S)
		i++
		if i < len(ch) && ch[i].Bracket {
			name += strings.ToUpper(plain(ch[i]))
			i++
			if i < len(ch) && !ch[i].List && ch[i].Tok.Kind == tok.Atom && strings.HasPrefix(ch[i].Tok.S, "<") {
				name += ch[i].Tok.S
				i++
			}
		}
		if i >= len(ch) {
			return nil, false
		}
		f.Items[name] = ch[i]
		f.Order = append(f.Order, name)
		i++
	}
	return f, true
}

// Num parses a decimal atom.
func Num(n *tok.Node) (uint32, bool) {
	if n == nil || n.List || n.Bracket {
		return 0, false
	}
	return num(n.Tok)
}

// plain renders a section specification without string quoting, so that
// BODY[HEADER.FIELDS ("Subject")] and BODY[HEADER.FIELDS (Subject)] compare equal.
func plain(n *tok.Node) string {
	if n.List || n.Bracket {
		var parts []string
		for _, c := range n.Children {
			parts = append(parts, plain(c))
		}
		if n.Bracket {
			return "[" + strings.Join(parts, " ") + "]"
		}
		return "(" + strings.Join(parts, " ") + ")"
	}
	return n.Tok.S
}
