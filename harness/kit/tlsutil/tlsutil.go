// Package tlsutil provides a throw-away in-memory certificate for harness TLS.
package tlsutil

import (
	"crypto/ecdsa"
	"crypto/elliptic"
	"crypto/rand"
	"crypto/tls"
	"crypto/x509"
	"crypto/x509/pkix"
	"math/big"
	"sync"
	"time"
)

var (
	once sync.Once
	cert tls.Certificate
)

func gen() {
	key, err := ecdsa.GenerateKey(elliptic.P256(), rand.Reader)
	if err != nil {
		panic(err)
	}
	tmpl := &x509.Certificate{
		SerialNumber: big.NewInt(1),
		Subject:      pkix.Name{CommonName: "verif.test"},
		NotBefore:    time.Now().Add(-time.Hour),
		NotAfter:     time.Now().Add(240 * time.Hour),
		KeyUsage:     x509.KeyUsageDigitalSignature,
		ExtKeyUsage:  []x509.ExtKeyUsage{x509.ExtKeyUsageServerAuth},
		DNSNames:     []string{"verif.test"},
	}
	der, err := x509.CreateCertificate(rand.Reader, tmpl, tmpl, &key.PublicKey, key)
	if err != nil {
		panic(err)
	}
	cert = tls.Certificate{Certificate: [][]byte{der}, PrivateKey: key}
}

// ServerConfig returns a TLS server configuration with the harness certificate.
func ServerConfig() *tls.Config {
	once.Do(gen)
	return &tls.Config{Certificates: []tls.Certificate{cert}, MinVersion: tls.VersionTLS12}
}

// ClientConfig returns a client configuration that accepts it.
func ClientConfig() *tls.Config {
	return &tls.Config{InsecureSkipVerify: true, ServerName: "verif.test", MinVersion: tls.VersionTLS12}
}
