// Package refutf7 is an independent reference codec for RFC 3501 section
// 5.1.3 modified UTF-7 (UTF-16BE + base64 with ',' instead of '/', no padding).
package refutf7

import (
	"encoding/base64"
	"strings"
	"unicode/utf16"
)

var B64 = base64.NewEncoding("ABCDEFGHIJKLMNOPQRSTUVWXYZabcdefghijklmnopqrstuvwxyz0123456789+,").WithPadding(base64.NoPadding)

func printable(r rune) bool { return r >= 0x20 && r <= 0x7e }

// Encode encodes valid UTF-8 per RFC 3501 5.1.3.
func Encode(s string) string {
	var out strings.Builder
	var pend []uint16
	flush := func() {
		if len(pend) == 0 {
			return
		}
		b := make([]byte, 0, 2*len(pend))
		for _, u := range pend {
			b = append(b, byte(u>>8), byte(u))
		}
		out.WriteByte('&')
		out.WriteString(B64.EncodeToString(b))
		out.WriteByte('-')
		pend = pend[:0]
	}
	for _, r := range s {
		if printable(r) {
			flush()
			if r == '&' {
				out.WriteString("&-")
			} else {
				out.WriteRune(r)
			}
			continue
		}
		if r >= 0x10000 {
			r1, r2 := utf16.EncodeRune(r)
			pend = append(pend, uint16(r1), uint16(r2))
		} else {
			pend = append(pend, uint16(r))
		}
	}
	flush()
	return out.String()
}

// Decode decodes modified UTF-7, rejecting exactly the malformed forms the
// property lists: bytes outside printable ASCII, unterminated shift, invalid
// base64 (incl. '=' padding, impossible length), odd UTF-16 byte count, lone or
// reversed surrogates, printable ASCII hidden in base64, back-to-back shifts.
func Decode(s string) (string, string) {
	var out strings.Builder
	afterShift := false
	for i := 0; i < len(s); {
		c := s[i]
		if c < 0x20 || c > 0x7e {
			return "", "byte outside printable ASCII"
		}
		if c != '&' {
			out.WriteByte(c)
			afterShift = false
			i++
			continue
		}
		j := strings.IndexByte(s[i+1:], '-')
		if j < 0 {
			return "", "unterminated shift"
		}
		chunk := s[i+1 : i+1+j]
		i = i + 1 + j + 1
		if chunk == "" {
			out.WriteByte('&')
			afterShift = false
			continue
		}
		if afterShift {
			return "", "back-to-back shifts"
		}
		for k := 0; k < len(chunk); k++ {
			ch := chunk[k]
			ok := ch >= 'A' && ch <= 'Z' || ch >= 'a' && ch <= 'z' || ch >= '0' && ch <= '9' || ch == '+' || ch == ','
			if !ok {
				return "", "invalid base64 character"
			}
		}
		if len(chunk)%4 == 1 {
			return "", "impossible base64 length"
		}
		raw, err := B64.DecodeString(chunk)
		if err != nil {
			return "", "invalid base64"
		}
		if len(raw)%2 == 1 || len(raw) == 0 {
			return "", "odd number of UTF-16 bytes"
		}
		for k := 0; k < len(raw); k += 2 {
			u := rune(raw[k])<<8 | rune(raw[k+1])
			switch {
			case u >= 0xD800 && u <= 0xDBFF:
				if k+3 >= len(raw) {
					return "", "lone high surrogate"
				}
				u2 := rune(raw[k+2])<<8 | rune(raw[k+3])
				if u2 < 0xDC00 || u2 > 0xDFFF {
					return "", "high surrogate not followed by low"
				}
				out.WriteRune(0x10000 + (u-0xD800)<<10 + (u2 - 0xDC00))
				k += 2
			case u >= 0xDC00 && u <= 0xDFFF:
				return "", "lone low surrogate"
			case printable(u):
				return "", "printable ASCII inside base64"
			default:
				out.WriteRune(u)
			}
		}
		afterShift = true
	}
	return out.String(), ""
}
