// Package script is a scriptable IMAP server endpoint for client-side
// properties: it frames the client's commands itself (kit/tok for tokens, own
// handling of literal synchronisation) and lets the test decide every byte the
// "server" sends.
package script

import (
	"bytes"
	"errors"
	"fmt"
	"io"
	"os"
	"regexp"
	"strconv"
	"time"

	"github.com/emersion/go-imap/v2/verifh/kit/pipe"
	"github.com/emersion/go-imap/v2/verifh/kit/tok"
)

// LiteralEvent describes a literal header seen while reading a command.
type LiteralEvent struct {
	Size       int64
	NonSync    bool
	Prefix     []byte // command bytes up to and including the header line
	EarlyBytes int    // bytes the client sent after a sync header before any answer (must be 0)
}

// Decision is the script's answer to a synchronising literal header.
type Decision int

const (
	Accept Decision = iota // send "+ ..." and read the payload
	Refuse                 // the caller sends a tagged NO/BAD itself; the command ends here
)

// Server is the scripted endpoint (it owns the server end of a pipe).
type Server struct {
	Conn    *pipe.Conn
	buf     []byte
	Timeout time.Duration
	// OnLiteral is consulted for every synchronising literal; nil accepts.
	OnLiteral func(ev *LiteralEvent) Decision
	// Quiet is how long the script waits after a sync literal header to make
	// sure the client does not send payload bytes before the continuation.
	Quiet time.Duration
	// Literals records every literal event.
	Literals []LiteralEvent
	// Raw accumulates everything the client sent.
	Raw []byte
}

// New creates a client/server pipe and the scripted server on one end.
func New() (clientEnd *pipe.Conn, s *Server) {
	c, sv := pipe.New()
	return c, &Server{Conn: sv, Timeout: 5 * time.Second, Quiet: 300 * time.Microsecond}
}

var ErrTimeout = errors.New("script: timed out waiting for the client")

func (s *Server) fill() error {
	tmp := make([]byte, 65536)
	s.Conn.SetReadDeadline(time.Now().Add(s.Timeout))
	n, err := s.Conn.Read(tmp)
	s.Conn.SetReadDeadline(time.Time{})
	s.buf = append(s.buf, tmp[:n]...)
	s.Raw = append(s.Raw, tmp[:n]...)
	if err != nil {
		if errors.Is(err, os.ErrDeadlineExceeded) {
			return ErrTimeout
		}
		return err
	}
	return nil
}

func (s *Server) readLine() ([]byte, error) {
	for {
		if i := bytes.Index(s.buf, []byte("\r\n")); i >= 0 {
			line := s.buf[:i+2]
			s.buf = s.buf[i+2:]
			return append([]byte(nil), line...), nil
		}
		if err := s.fill(); err != nil {
			return nil, err
		}
	}
}

func (s *Server) readN(n int64) ([]byte, error) {
	for int64(len(s.buf)) < n {
		if err := s.fill(); err != nil {
			return nil, err
		}
	}
	b := append([]byte(nil), s.buf[:n]...)
	s.buf = s.buf[n:]
	return b, nil
}

var litRe = regexp.MustCompile(`\{(\d+)(\+?)\}\r\n$`)

// Command is one framed client command.
type Command struct {
	Raw     []byte
	Line    *tok.Line // nil if the command was cut short by a refusal
	Tag     string
	Name    string // upper-cased command name ("UID FETCH" for UID commands)
	Refused bool   // a synchronising literal was refused; the command is incomplete
}

// ReadCommand frames the next command, handling literal synchronisation.
func (s *Server) ReadCommand() (*Command, error) {
	var raw []byte
	for {
		line, err := s.readLine()
		if err != nil {
			return nil, err
		}
		raw = append(raw, line...)
		m := litRe.FindSubmatch(line)
		if m == nil {
			break
		}
		size, _ := strconv.ParseInt(string(m[1]), 10, 64)
		ev := LiteralEvent{Size: size, NonSync: len(m[2]) > 0, Prefix: append([]byte(nil), raw...)}
		if !ev.NonSync {
			// the client must now be silent until we answer
			time.Sleep(s.Quiet)
			ev.EarlyBytes = len(s.buf) + s.Conn.Pending()
			d := Accept
			if s.OnLiteral != nil {
				d = s.OnLiteral(&ev)
			}
			s.Literals = append(s.Literals, ev)
			if d == Refuse {
				cmd := &Command{Raw: raw, Refused: true}
				cmd.Tag, cmd.Name = tagAndName(raw)
				return cmd, nil
			}
			if _, err := s.Conn.Write([]byte("+ go ahead\r\n")); err != nil {
				return nil, err
			}
		} else {
			s.Literals = append(s.Literals, ev)
		}
		payload, err := s.readN(size)
		if err != nil {
			return nil, err
		}
		raw = append(raw, payload...)
	}
	cmd := &Command{Raw: raw}
	cmd.Tag, cmd.Name = tagAndName(raw)
	if l, _, err := tok.Next(raw, false); err == nil {
		cmd.Line = l
	} else {
		return cmd, fmt.Errorf("script: client sent an unframeable command %q: %v", clip(raw), err)
	}
	return cmd, nil
}

func clip(b []byte) string {
	if len(b) > 200 {
		return string(b[:150]) + "…" + string(b[len(b)-40:])
	}
	return string(b)
}

func tagAndName(raw []byte) (tag, name string) {
	parts := bytes.SplitN(bytes.TrimRight(raw, "\r\n"), []byte(" "), 4)
	if len(parts) > 0 {
		tag = string(parts[0])
	}
	if len(parts) > 1 {
		name = string(bytes.ToUpper(parts[1]))
		if name == "UID" && len(parts) > 2 {
			name = "UID " + string(bytes.ToUpper(parts[2]))
		}
	}
	for i, c := range name {
		if c == '\r' || c == '{' {
			name = name[:i]
			break
		}
	}
	return tag, name
}

// ReadRawLine reads one CRLF-terminated line without command framing (DONE,
// SASL responses).
func (s *Server) ReadRawLine() (string, error) {
	l, err := s.readLine()
	return string(bytes.TrimRight(l, "\r\n")), err
}

// Send writes bytes to the client.
func (s *Server) Send(str string) error {
	_, err := s.Conn.Write([]byte(str))
	return err
}

// Sendf formats and writes.
func (s *Server) Sendf(f string, a ...any) error { return s.Send(fmt.Sprintf(f, a...)) }

// Close closes the server end.
func (s *Server) Close() { s.Conn.Close() }

// Pending reports whether unread client bytes are available now.
func (s *Server) Pending() int { return len(s.buf) + s.Conn.Pending() }

// IsEOF reports whether err means the client went away.
func IsEOF(err error) bool { return err == io.EOF || errors.Is(err, io.ErrClosedPipe) }
