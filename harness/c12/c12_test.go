// Package c12 decides property C12: the client routes responses to the right
// command and mirrors protocol state. A scripted, protocol-conformant server
// answers rounds of pipelined commands in a drawn order with drawn outcomes
// and interleaved unsolicited updates; a reference interpreter of the same
// transcript predicts every command's completion and data and the client's
// State()/Mailbox() after every round.
package c12

import (
	"fmt"
	"sort"
	"strings"
	"sync"
	"testing"
	"time"

	imap "github.com/emersion/go-imap/v2"
	"github.com/emersion/go-imap/v2/imapclient"
	"github.com/emersion/go-imap/v2/verifh/kit/cs"
	"github.com/emersion/go-imap/v2/verifh/kit/ev"
	"github.com/emersion/go-imap/v2/verifh/kit/script"
	"pgregory.net/rapid"
)

func TestMain(m *testing.M) { ev.Main(m) }

// ---------------------------------------------------------------- model

type model struct {
	state     imap.ConnState
	selected  bool
	name      string
	exists    uint32
	flags     string
	permFlags string
	// unilateral data the handlers must have seen, in order
	handlerLog []string
}

type outcome struct {
	status string // OK NO BAD
	code   string
}

// cmdSpec is one pipelined command of a round.
type cmdSpec struct {
	kind       string
	arg        string   // mailbox / set text
	nums       []uint32 // message numbers addressed (fetch/store)
	out        outcome
	data       []string // untagged response lines belonging to this command ("%TAG%" is replaced)
	want       string   // expected data rendering
	refused    bool     // APPEND: literal refused with the tagged response
	listStatus bool     // LIST: RETURN (STATUS (MESSAGES))
	// filled at run time
	tag  string
	wait func() (string, error)
}

type fataler interface {
	Fatalf(format string, args ...any)
}

type run struct {
	t      fataler
	s      *script.Server
	c      *imapclient.Client
	m      model
	hist   []string
	hmu    sync.Mutex
	gotLog []string
	gmu    sync.Mutex // guards gotLog
	rev2   bool // the server advertises IMAP4rev2 (never enabled by the client here)
}

func (r *run) log(f string, a ...any) {
	r.hmu.Lock()
	r.hist = append(r.hist, fmt.Sprintf(f, a...))
	r.hmu.Unlock()
}

func (r *run) fail(f string, a ...any) {
	r.hmu.Lock()
	defer r.hmu.Unlock()
	h := r.hist
	if len(h) > 60 {
		h = h[len(h)-60:]
	}
	r.t.Fatalf("%s\ntranscript:\n  %s", fmt.Sprintf(f, a...), strings.Join(h, "\n  "))
}

func (r *run) send(line string) {
	r.log("S: %s", line)
	r.s.Send(line + "\r\n")
}

func flagsKey(fl []imap.Flag) string {
	var l []string
	for _, f := range fl {
		l = append(l, string(f))
	}
	return "(" + strings.Join(l, " ") + ")"
}

// sync makes sure the client has processed everything sent so far: a NOOP
// round trip (responses are processed in order).
func (r *run) sync() {
	done := make(chan error, 1)
	go func() { done <- r.c.Noop().Wait() }()
	cmd, err := r.s.ReadCommand()
	if err != nil {
		r.fail("sync: reading NOOP: %v", err)
	}
	if cmd.Name != "NOOP" {
		r.fail("sync: expected NOOP, got %q", cmd.Raw)
	}
	r.s.Send(cmd.Tag + " OK noop\r\n")
	select {
	case err := <-done:
		if err != nil {
			r.fail("a NOOP after the round failed: %v (the connection must stay usable)", err)
		}
	case <-time.After(10 * time.Second):
		r.fail("NOOP after the round did not complete within 10s")
	}
}

func (r *run) checkMirror(when string) {
	if got := r.c.State(); got != r.m.state {
		r.fail("%s: Client.State()=%v, the transcript implies %v", when, got, r.m.state)
	}
	mb := r.c.Mailbox()
	if !r.m.selected {
		if mb != nil {
			r.fail("%s: Client.Mailbox()=%+v although no mailbox is selected", when, mb)
		}
		return
	}
	if mb == nil {
		r.fail("%s: Client.Mailbox()=nil although %q is selected", when, r.m.name)
	}
	if mb.Name != r.m.name || mb.NumMessages != r.m.exists || flagsKey(mb.Flags) != r.m.flags || flagsKey(mb.PermanentFlags) != r.m.permFlags {
		r.fail("%s: Client.Mailbox()={name=%q messages=%d flags=%s permanent=%s}, the transcript implies {name=%q messages=%d flags=%s permanent=%s}",
			when, mb.Name, mb.NumMessages, flagsKey(mb.Flags), flagsKey(mb.PermanentFlags), r.m.name, r.m.exists, r.m.flags, r.m.permFlags)
	}
}

// ---------------------------------------------------------------- generators

var flagLists = []string{"()", `(\Seen)`, `(\Seen \Deleted)`, `(\Answered kw)`, `(\Flagged \Draft \Seen)`}
var permLists = []string{"()", `(\Seen \*)`, `(\Deleted)`, `(\Seen \Deleted \Flagged \*)`}

func genOutcome(t *rapid.T, label string) outcome {
	st := rapid.SampledFrom([]string{"OK", "OK", "OK", "NO", "BAD"}).Draw(t, label+".status")
	code := ""
	if rapid.IntRange(0, 3).Draw(t, label+".code") == 2 {
		if st == "OK" {
			code = rapid.SampledFrom([]string{"ALERT", "PARSE"}).Draw(t, label+".okcode")
		} else {
			code = rapid.SampledFrom([]string{"NONEXISTENT", "CANNOT", "LIMIT", "SERVERBUG"}).Draw(t, label+".errcode")
		}
	}
	return outcome{st, code}
}

func (o outcome) line(tag, what string) string {
	if o.code != "" {
		return fmt.Sprintf("%s %s [%s] %s", tag, o.status, o.code, what)
	}
	return fmt.Sprintf("%s %s %s", tag, o.status, what)
}

func (o outcome) want() string {
	if o.status == "OK" {
		return "<nil>"
	}
	return fmt.Sprintf("%s[%s]", o.status, o.code)
}

func errKey(err error) string {
	if err == nil {
		return "<nil>"
	}
	if ie, ok := err.(*imap.Error); ok {
		return fmt.Sprintf("%s[%s]", ie.Type, ie.Code)
	}
	return "error:" + err.Error()
}

// genRound draws the commands of one round so that the reference
// interpretation is unambiguous (RFC 9051 section 5.5).
func genRound(t *rapid.T, exists uint32, syncLiterals bool) []*cmdSpec {
	var cmds []*cmdSpec
	used := map[string]bool{}
	nextSeq := uint32(1)
	n := rapid.IntRange(1, 5).Draw(t, "ncmds")
	for i := 0; i < n; i++ {
		kind := rapid.SampledFrom([]string{"NOOP", "LIST", "SEARCH", "CAPABILITY", "STATUS", "STATUS", "LIST", "FETCH", "FETCH", "UIDFETCH", "STORE", "ESEARCH", "ESEARCH", "SEARCH", "APPEND", "ENABLE", "EXPUNGE"}).Draw(t, "kind")
		label := fmt.Sprintf("c%d", i)
		c := &cmdSpec{kind: kind, out: genOutcome(t, label)}
		switch kind {
		case "STATUS":
			c.arg = rapid.SampledFrom([]string{"alpha", "beta", "gamma", "INBOX", "inbox", "InBox"}).Draw(t, label+".mbox")
			canon := c.arg
			if strings.EqualFold(canon, "INBOX") {
				canon = "INBOX" // INBOX is case-insensitive; the server may answer in either spelling
			}
			if used["STATUS:"+canon] {
				continue
			}
			used["STATUS:"+canon] = true
			msgs, unseen := rapid.IntRange(0, 50).Draw(t, label+".msgs"), rapid.IntRange(0, 9).Draw(t, label+".unseen")
			if c.out.status == "OK" || rapid.Bool().Draw(t, label+".dataanyway") {
				wire := canon
				if rapid.Bool().Draw(t, label+".echo") {
					wire = c.arg
				}
				c.data = []string{fmt.Sprintf("* STATUS %s (MESSAGES %d UNSEEN %d)", wire, msgs, unseen)}
				c.want = fmt.Sprintf("status{%s messages=%d unseen=%d}", canon, msgs, unseen)
			} else {
				c.want = "status{}"
			}
		case "LIST", "SEARCH", "EXPUNGE", "UIDFETCH", "ENABLE", "CAPABILITY":
			// LIST and SEARCH may be pipelined several times: their untagged
			// data carries no correlator, so the scripted server answers those
			// in the order they were sent (see round); everything else at most once
			dupOK := (kind == "LIST" || kind == "SEARCH") && countKind(cmds, kind) < 3
			if (used[kind] && !dupOK) || (kind == "SEARCH" && used["ESEARCH"]) {
				continue
			}
			used[kind] = true
			switch kind {
			case "LIST":
				// LIST, or LIST ... RETURN (STATUS (MESSAGES)): every mailbox is
				// followed by its STATUS response unless it cannot be selected or
				// the server drops it (RFC 5819 section 2 allows both)
				c.listStatus = rapid.IntRange(0, 2).Draw(t, label+".liststatus") == 0
				var names []string
				for j, k := 0, rapid.IntRange(0, 4).Draw(t, label+".nlist"); j < k; j++ {
					nm := fmt.Sprintf("box%d", j)
					if k := countKind(cmds, "LIST"); k > 0 {
						nm = fmt.Sprintf("l%d-box%d", k, j)
					} else if !c.listStatus && rapid.IntRange(0, 2).Draw(t, label+".sharedname") == 0 {
						// the names STATUS commands of the same round ask about
						// (plain LIST only: with RETURN (STATUS) a pipelined
						// STATUS for a listed mailbox is ambiguous by protocol)
						nm = []string{"alpha", "beta", "gamma", "delta"}[j]
					}
					attrs := rapid.SampledFrom([]string{"", "", `\HasChildren`, `\Noselect`}).Draw(t, label+".attrs")
					c.data = append(c.data, fmt.Sprintf(`* LIST (%s) "/" %s`, attrs, nm))
					if c.listStatus {
						if attrs != `\Noselect` && rapid.IntRange(0, 3).Draw(t, label+".dropstatus") != 0 {
							n := rapid.IntRange(0, 99).Draw(t, label+".lsmsgs")
							c.data = append(c.data, fmt.Sprintf("* STATUS %s (MESSAGES %d)", nm, n))
							nm += fmt.Sprintf("(messages=%d)", n)
						} else {
							nm += "(nostatus)"
						}
					}
					names = append(names, nm)
				}
				c.want = fmt.Sprintf("list%v", names)
			case "SEARCH":
				var nums []uint32
				for j, k := 0, rapid.IntRange(0, 4).Draw(t, label+".nres"); j < k; j++ {
					nums = append(nums, uint32(rapid.IntRange(1, 30).Draw(t, label+".res")))
				}
				line := "* SEARCH"
				for _, x := range nums {
					line += fmt.Sprintf(" %d", x)
				}
				c.data = []string{line}
				sort.Slice(nums, func(a, b int) bool { return nums[a] < nums[b] })
				var s imap.SeqSet
				s.AddNum(nums...)
				c.want = "search{" + s.String() + "}"
			case "EXPUNGE":
				var nums []uint32
				for j, k := 0, rapid.IntRange(0, 3).Draw(t, label+".nexp"); j < k; j++ {
					nums = append(nums, uint32(rapid.IntRange(1, 5).Draw(t, label+".exp")))
				}
				if rapid.IntRange(0, 5).Draw(t, label+".manyexp") == 0 {
					// more notifications than the client buffers per command;
					// the caller only collects them once the round has been answered
					for j, k := 0, rapid.IntRange(120, 300).Draw(t, label+".nmany"); j < k; j++ {
						nums = append(nums, uint32(1+j%3))
					}
				}
				c.nums = nums
				for _, x := range nums {
					c.data = append(c.data, fmt.Sprintf("* %d EXPUNGE", x))
				}
				c.want = fmt.Sprintf("expunged%v", nums)
			case "UIDFETCH":
				c.arg = "1000:1009"
				var parts []string
				for j, k := 0, rapid.IntRange(0, 3).Draw(t, label+".nmsg"); j < k; j++ {
					fl := rapid.SampledFrom(flagLists).Draw(t, label+".fl")
					c.data = append(c.data, fmt.Sprintf("* %d FETCH (UID %d FLAGS %s)", 40+j, 1000+j, fl))
					parts = append(parts, fmt.Sprintf("%d:uid%d:%s", 40+j, 1000+j, fl))
				}
				c.want = fmt.Sprintf("fetch%v", parts)
			case "ENABLE":
				c.data = []string{"* ENABLED UTF8=ACCEPT"}
				c.want = "enabled[UTF8=ACCEPT]"
			case "CAPABILITY":
				c.data = []string{"* CAPABILITY IMAP4rev1 UIDPLUS ESEARCH ENABLE XROUND"}
				c.want = "caps:XROUND=true"
			}
		case "FETCH", "STORE":
			// disjoint sequence ranges per command
			lo := nextSeq
			hi := lo + uint32(rapid.IntRange(0, 2).Draw(t, label+".width"))
			nextSeq = hi + 1
			c.arg = fmt.Sprintf("%d:%d", lo, hi)
			var parts []string
			for q := lo; q <= hi; q++ {
				if rapid.IntRange(0, 3).Draw(t, label+".skip") == 0 {
					continue
				}
				c.nums = append(c.nums, q)
				fl := rapid.SampledFrom(flagLists).Draw(t, label+".fl")
				c.data = append(c.data, fmt.Sprintf("* %d FETCH (FLAGS %s)", q, fl))
				parts = append(parts, fmt.Sprintf("%d:uid0:%s", q, fl))
			}
			c.want = fmt.Sprintf("fetch%v", parts)
		case "ESEARCH":
			if used["SEARCH"] {
				continue // an untagged SEARCH response would be ambiguous (RFC 9051 5.5)
			}
			used["ESEARCH"] = true
			lo := rapid.IntRange(1, 20).Draw(t, label+".lo")
			hi := lo + rapid.IntRange(0, 5).Draw(t, label+".w")
			cnt := rapid.IntRange(0, 9).Draw(t, label+".count")
			c.data = []string{fmt.Sprintf(`* ESEARCH (TAG "%%TAG%%") UID ALL %d:%d COUNT %d`, lo, hi, cnt)}
			var u imap.UIDSet
			u.AddRange(imap.UID(lo), imap.UID(hi))
			c.want = fmt.Sprintf("esearch{uid all=%s count=%d}", u.String(), cnt)
			if c.out.status != "OK" && rapid.Bool().Draw(t, label+".nodata") {
				c.data, c.want = nil, "esearch{uid=false all= count=0}"
			}
		case "APPEND":
			if used["APPEND"] {
				continue
			}
			used["APPEND"] = true
			// (a literal can only be refused when it is a synchronising one: not
			// when the server advertises IMAP4rev2, which implies LITERAL-)
			if syncLiterals && c.out.status != "OK" && rapid.Bool().Draw(t, label+".refuse") {
				c.refused = true
			}
			if c.out.status == "OK" {
				c.out.code = "APPENDUID 77 4242"
				c.want = "appenduid{4242 77}"
			} else {
				c.want = "appenduid{0 0}"
			}
		case "NOOP":
			c.want = ""
		}
		cmds = append(cmds, c)
	}
	return cmds
}

func countKind(cmds []*cmdSpec, kind string) int {
	n := 0
	for _, c := range cmds {
		if c.kind == kind {
			n++
		}
	}
	return n
}

// inOrderWithinKind rearranges an answer order so that commands whose data
// carries no correlator (several LISTs, several SEARCHes) are answered in the
// order in which they were sent; the positions they occupy stay the same.
func inOrderWithinKind(cmds []*cmdSpec, order []int) []int {
	out := append([]int(nil), order...)
	for _, kind := range []string{"LIST", "SEARCH"} {
		var pos, members []int
		for p, ci := range out {
			if cmds[ci].kind == kind {
				pos = append(pos, p)
				members = append(members, ci)
			}
		}
		sort.Ints(members)
		for i, p := range pos {
			out[p] = members[i]
		}
	}
	return out
}

// unsolicited update kinds that a conformant server may send at any time.
type update struct {
	line  string
	apply func(m *model, expungePending bool)
}

func genUpdate(t *rapid.T, m *model, label string) update {
	switch rapid.IntRange(0, 5).Draw(t, label+".kind") {
	case 0:
		n := m.exists + uint32(rapid.IntRange(0, 3).Draw(t, label+".grow"))
		return update{fmt.Sprintf("* %d EXISTS", n), func(m *model, _ bool) {
			m.exists = n
			m.handlerLog = append(m.handlerLog, fmt.Sprintf("mailbox:exists=%d", n))
		}}
	case 1:
		if m.exists == 0 {
			return update{"* OK still here", func(*model, bool) {}}
		}
		n := uint32(rapid.IntRange(1, int(m.exists)).Draw(t, label+".exp"))
		return update{fmt.Sprintf("* %d EXPUNGE", n), func(m *model, expungePending bool) {
			if m.exists > 0 {
				m.exists--
			}
			if !expungePending {
				m.handlerLog = append(m.handlerLog, fmt.Sprintf("expunge:%d", n))
			}
		}}
	case 2:
		// (an empty list reaches the handler as a nil slice, which the handler
		// API cannot tell from "unchanged": not generated)
		fl := rapid.SampledFrom(flagLists[1:]).Draw(t, label+".flags")
		return update{"* FLAGS " + fl, func(m *model, _ bool) {
			m.flags = fl
			m.handlerLog = append(m.handlerLog, "mailbox:flags="+fl)
		}}
	case 3:
		// (an empty list is mirrored by Mailbox() like any other; what the
		// handler is given for it cannot be told from "unchanged" through the
		// handler API, so that entry is normalised away on both sides)
		fl := rapid.SampledFrom(permLists).Draw(t, label+".perm")
		return update{"* OK [PERMANENTFLAGS " + fl + "] permanent flags", func(m *model, _ bool) {
			m.permFlags = fl
			if fl == "()" {
				m.handlerLog = append(m.handlerLog, "mailbox:empty-list")
			} else {
				m.handlerLog = append(m.handlerLog, "mailbox:permanentflags="+fl)
			}
		}}
	case 4:
		// FETCH for a message no pending command addresses
		n := 900 + rapid.IntRange(0, 9).Draw(t, label+".seq")
		fl := rapid.SampledFrom(flagLists).Draw(t, label+".ufl")
		return update{fmt.Sprintf("* %d FETCH (FLAGS %s)", n, fl), func(m *model, _ bool) {
			m.handlerLog = append(m.handlerLog, fmt.Sprintf("fetch:%d:%s", n, fl))
		}}
	default:
		return update{"* OK [ALERT] maintenance at midnight", func(*model, bool) {}}
	}
}

// ---------------------------------------------------------------- driving the client

func (r *run) submit(c *cmdSpec) {
	cl := r.c
	switch c.kind {
	case "NOOP":
		cmd := cl.Noop()
		c.wait = func() (string, error) { return "", cmd.Wait() }
	case "CAPABILITY":
		cmd := cl.Capability()
		c.wait = func() (string, error) {
			caps, err := cmd.Wait()
			return fmt.Sprintf("caps:XROUND=%v", caps.Has("XROUND")), err
		}
	case "STATUS":
		cmd := cl.Status(c.arg, &imap.StatusOptions{NumMessages: true, NumUnseen: true})
		c.wait = func() (string, error) {
			d, err := cmd.Wait()
			if d.NumMessages == nil {
				return "status{}", err
			}
			return fmt.Sprintf("status{%s messages=%d unseen=%d}", d.Mailbox, *d.NumMessages, *d.NumUnseen), err
		}
	case "LIST":
		var opts *imap.ListOptions
		if c.listStatus {
			opts = &imap.ListOptions{ReturnStatus: &imap.StatusOptions{NumMessages: true}}
		}
		cmd := cl.List("", "*", opts)
		c.wait = func() (string, error) {
			l, err := cmd.Collect()
			var names []string
			for _, d := range l {
				nm := d.Mailbox
				if c.listStatus {
					if d.Status != nil && d.Status.NumMessages != nil {
						nm += fmt.Sprintf("(messages=%d)", *d.Status.NumMessages)
					} else {
						nm += "(nostatus)"
					}
				}
				names = append(names, nm)
			}
			return fmt.Sprintf("list%v", names), err
		}
	case "FETCH", "STORE", "UIDFETCH":
		var cmd *imapclient.FetchCommand
		switch c.kind {
		case "FETCH":
			set, _ := parseSeq(c.arg)
			cmd = cl.Fetch(set, &imap.FetchOptions{Flags: true})
		case "STORE":
			set, _ := parseSeq(c.arg)
			// .SILENT on every other STORE: servers still send FETCH data for
			// it (changed by somebody else, MODSEQ...), and it is the STORE's
			cmd = cl.Store(set, &imap.StoreFlags{Op: imap.StoreFlagsAdd, Silent: c.nums != nil && len(c.nums)%2 == 1, Flags: []imap.Flag{imap.FlagSeen}}, nil)
		default:
			var u imap.UIDSet
			u.AddRange(1000, 1009)
			cmd = cl.Fetch(u, &imap.FetchOptions{Flags: true})
		}
		c.wait = func() (string, error) {
			bufs, err := cmd.Collect()
			var parts []string
			for _, b := range bufs {
				parts = append(parts, fmt.Sprintf("%d:uid%d:%s", b.SeqNum, b.UID, flagsKey(b.Flags)))
			}
			return fmt.Sprintf("fetch%v", parts), err
		}
	case "ESEARCH":
		cmd := cl.UIDSearch(&imap.SearchCriteria{}, &imap.SearchOptions{ReturnAll: true, ReturnCount: true})
		c.wait = func() (string, error) {
			d, err := cmd.Wait()
			all := ""
			if d.All != nil {
				all = d.All.String()
			}
			if !d.UID {
				return fmt.Sprintf("esearch{uid=false all=%s count=%d}", all, d.Count), err
			}
			return fmt.Sprintf("esearch{uid all=%s count=%d}", all, d.Count), err
		}
	case "SEARCH":
		cmd := cl.Search(&imap.SearchCriteria{}, nil)
		c.wait = func() (string, error) {
			d, err := cmd.Wait()
			return "search{" + d.All.String() + "}", err
		}
	case "APPEND":
		cmd := cl.Append("box", 5, nil)
		cmd.Write([]byte("hello"))
		cmd.Close()
		c.wait = func() (string, error) {
			d, err := cmd.Wait()
			return fmt.Sprintf("appenduid{%d %d}", d.UID, d.UIDValidity), err
		}
	case "ENABLE":
		cmd := cl.Enable(imap.CapUTF8Accept)
		c.wait = func() (string, error) {
			d, err := cmd.Wait()
			var l []string
			for k := range d.Caps {
				l = append(l, string(k))
			}
			sort.Strings(l)
			return fmt.Sprintf("enabled%v", l), err
		}
	case "EXPUNGE":
		cmd := cl.Expunge()
		c.wait = func() (string, error) {
			l, err := cmd.Collect()
			if l == nil {
				l = []uint32{}
			}
			return fmt.Sprintf("expunged%v", l), err
		}
	}
}

func parseSeq(s string) (imap.SeqSet, error) {
	var set imap.SeqSet
	var lo, hi uint32
	fmt.Sscanf(s, "%d:%d", &lo, &hi)
	set.AddRange(lo, hi)
	return set, nil
}

// round runs one pipelined round.
func (r *run) round(t *rapid.T, idx int) (outOfOrder, sawUpdate bool) {
	cmds := genRound(t, r.m.exists, !r.rev2)
	// answer order: a permutation of the commands
	order := inOrderWithinKind(cmds, rapid.Permutation(indices(len(cmds))).Draw(t, "order"))
	// a refused APPEND is necessarily answered when its literal header arrives
	// the plan: per answered command, updates before its data and the data lines
	type step struct {
		updates []update
		cmd     int
	}
	var plan []step
	for _, ci := range order {
		st := step{cmd: ci}
		for j, k := 0, rapid.IntRange(0, 2).Draw(t, "nupd"); j < k; j++ {
			st.updates = append(st.updates, genUpdate(t, &r.m, fmt.Sprintf("u%d.%d", ci, j)))
		}
		plan = append(plan, st)
	}
	for i := 1; i < len(order); i++ {
		if order[i] < order[i-1] {
			outOfOrder = true
		}
	}
	// script goroutine: read the commands as the client sends them
	r.s.OnLiteral = func(ev *script.LiteralEvent) script.Decision {
		for _, c := range cmds {
			if c.kind == "APPEND" && c.refused {
				return script.Refuse
			}
		}
		return script.Accept
	}
	read := make(chan error, 1)
	go func() {
		for i := 0; i < len(cmds); i++ {
			cmd, err := r.s.ReadCommand()
			if err != nil {
				read <- fmt.Errorf("reading command %d of the round: %v", i, err)
				return
			}
			cmds[i].tag = cmd.Tag
			r.log("C: %s", strings.TrimSpace(clip(string(cmd.Raw))))
			if cmd.Refused {
				r.send(cmds[i].out.line(cmd.Tag, "literal refused"))
			}
		}
		read <- nil
	}()
	for _, c := range cmds {
		r.submit(c)
	}
	select {
	case err := <-read:
		if err != nil {
			r.fail("round %d: %v", idx, err)
		}
	case <-time.After(10 * time.Second):
		r.fail("round %d: the client did not send its %d commands within 10s", idx, len(cmds))
	}
	// play the plan
	completed := map[int]bool{}
	for i, c := range cmds {
		if c.refused {
			completed[i] = true
		}
	}
	expungePending := func() bool {
		for i, c := range cmds {
			if c.kind == "EXPUNGE" && !completed[i] {
				return true
			}
		}
		return false
	}
	skip := map[int]bool{}
	for pi, st := range plan {
		c := cmds[st.cmd]
		if c.refused || skip[st.cmd] {
			continue
		}
		// RFC 9051 5.5: a server working on two commands at once may send the
		// STATUS response of a pipelined STATUS command before the tagged
		// completion of a plain LIST (no RETURN (STATUS)) it is still busy
		// with; that STATUS data belongs to the STATUS command
		var early *cmdSpec
		if c.kind == "LIST" && !c.listStatus && pi+1 < len(plan) {
			if n := cmds[plan[pi+1].cmd]; n.kind == "STATUS" && !n.refused && rapid.Bool().Draw(t, "status-before-list-completion") {
				early = n
				skip[plan[pi+1].cmd] = true
				ev.Class("status-data-before-completion-of-plain-LIST")
			}
		}
		for _, u := range st.updates {
			if strings.HasSuffix(u.line, "EXPUNGE") && expungePending() {
				continue // would be indistinguishable from the EXPUNGE command's own data
			}
			r.send(u.line)
			u.apply(&r.m, false)
			sawUpdate = true
		}
		for _, d := range c.data {
			r.send(strings.ReplaceAll(d, "%TAG%", c.tag))
		}
		if c.kind == "EXPUNGE" {
			for range c.nums {
				if r.m.exists > 0 {
					r.m.exists--
				}
			}
		}
		if early != nil {
			for _, d := range early.data {
				r.send(strings.ReplaceAll(d, "%TAG%", early.tag))
			}
		}
		what := c.kind + " done"
		r.send(c.out.line(c.tag, what))
		completed[st.cmd] = true
		if early != nil {
			r.send(early.out.line(early.tag, "STATUS done"))
			completed[plan[pi+1].cmd] = true
		}
	}
	// every command completes exactly once with its own status and data
	// (all waits run at once: a command with more results than the client
	// buffers holds up the reader, and with it every later completion, until
	// its own caller collects them)
	type waited struct {
		got string
		err error
	}
	results := make([]chan waited, len(cmds))
	for i, c := range cmds {
		results[i] = make(chan waited, 1)
		go func(c *cmdSpec, ch chan waited) { g, e := c.wait(); ch <- waited{g, e} }(c, results[i])
	}
	for i, c := range cmds {
		var got string
		var err error
		select {
		case w := <-results[i]:
			got, err = w.got, w.err
		case <-time.After(10 * time.Second):
			r.fail("round %d: Wait of command %d (%s %s) did not return", idx, i, c.tag, c.kind)
		}
		if errKey(err) != c.out.want() {
			r.fail("round %d: %s %s completed with %s, its tagged response was %s", idx, c.tag, c.kind, errKey(err), c.out.want())
		}
		if got != c.want {
			r.fail("round %d: %s %s delivered data %s, the transcript addressed %s to it", idx, c.tag, c.kind, got, c.want)
		}
	}
	r.sync()
	r.checkMirror(fmt.Sprintf("after round %d", idx))
	for _, c := range cmds {
		ev.Class("cmd:" + c.kind + ":" + c.out.status)
		if c.refused {
			ev.Class("append-literal-refused")
		}
	}
	return
}

func indices(n int) []int {
	l := make([]int, n)
	for i := range l {
		l[i] = i
	}
	return l
}

func clip(s string) string {
	if len(s) > 120 {
		return s[:100] + "…"
	}
	return s
}

func (r *run) selectMailbox(t *rapid.T, name string, reselect bool) {
	exists := uint32(rapid.IntRange(0, 30).Draw(t, "sel.exists"))
	fl := rapid.SampledFrom(flagLists).Draw(t, "sel.flags")
	perm := rapid.SampledFrom(permLists).Draw(t, "sel.perm")
	out := outcome{status: "OK", code: "READ-WRITE"}
	if rapid.IntRange(0, 5).Draw(t, "sel.fail") == 3 {
		out = outcome{status: "NO", code: "NONEXISTENT"}
	}
	done := make(chan error, 1)
	var data *imap.SelectData
	deselectOnFail := false
	go func() {
		var err error
		data, err = r.c.Select(name, nil).Wait()
		done <- err
	}()
	cmd, err := r.s.ReadCommand()
	if err != nil || cmd.Name != "SELECT" {
		r.fail("select: %v %v", cmd, err)
	}
	r.log("C: %s", strings.TrimSpace(string(cmd.Raw)))
	if reselect {
		// IMAP4rev2 servers announce the implicit close, IMAP4rev1 servers (and
		// rev2-capable ones as long as the client has not enabled rev2) do not
		if rapid.Bool().Draw(t, "sel.closed") {
			r.send("* OK [CLOSED] previous mailbox closed")
			r.m.selected, r.m.state = false, imap.ConnStateAuthenticated
		} else if out.status != "OK" {
			// a SELECT that fails leaves no mailbox selected (RFC 3501 6.3.1, RFC 9051 6.3.2)
			deselectOnFail = true
		}
	}
	if out.status == "OK" {
		r.send(fmt.Sprintf("* %d EXISTS", exists))
		r.send("* OK [UIDVALIDITY 9] uids")
		r.send("* OK [UIDNEXT 99] next")
		r.send("* FLAGS " + fl)
		r.send("* OK [PERMANENTFLAGS " + perm + "] perm")
	}
	r.send(out.line(cmd.Tag, "select done"))
	select {
	case err := <-done:
		if errKey(err) != out.want() {
			r.fail("SELECT completed with %s, tagged response was %s", errKey(err), out.want())
		}
	case <-time.After(10 * time.Second):
		r.fail("SELECT did not complete")
	}
	if deselectOnFail {
		r.m.selected, r.m.state = false, imap.ConnStateAuthenticated
		r.checkMirror("immediately after the failed re-SELECT of " + name + " (no [CLOSED] was sent; a failed SELECT deselects)")
	}
	if out.status == "OK" {
		r.m.selected, r.m.state, r.m.name, r.m.exists, r.m.flags, r.m.permFlags = true, imap.ConnStateSelected, name, exists, fl, perm
		r.checkMirror("immediately after Select(" + name + ").Wait() returned")
		if data.NumMessages != exists || flagsKey(data.Flags) != fl || flagsKey(data.PermanentFlags) != perm || data.UIDNext != 99 || data.UIDValidity != 9 {
			r.fail("SELECT data %+v differs from the transcript (exists=%d flags=%s perm=%s)", data, exists, fl, perm)
		}
	}
	r.sync()
	r.checkMirror("after SELECT " + name)
}

// idleRound: while IDLE is running (it holds the encoder), a second goroutine
// submits EXPUNGE, which has to wait; the server then sends a unilateral
// EXPUNGE, and only after DONE the queued command goes out and gets its own
// data. The unilateral one belongs to the handler, not to the waiting command.
func (r *run) idleRound(t *rapid.T) {
	if r.m.exists < 3 {
		return
	}
	uni := uint32(rapid.IntRange(1, int(r.m.exists)).Draw(t, "idle.unilateral"))
	own := uint32(rapid.IntRange(1, int(r.m.exists)-1).Draw(t, "idle.own"))
	// Idle() returns once the continuation request has arrived
	type idleRes struct {
		cmd *imapclient.IdleCommand
		err error
	}
	idleCh := make(chan idleRes, 1)
	go func() { c, err := r.c.Idle(); idleCh <- idleRes{c, err} }()
	cmd, err := r.s.ReadCommand()
	if err != nil || cmd.Name != "IDLE" {
		r.fail("idle round: expected IDLE, got %v %v", cmd, err)
	}
	r.log("C: %s", strings.TrimSpace(string(cmd.Raw)))
	idleTag := cmd.Tag
	r.send("+ idling")
	var idle *imapclient.IdleCommand
	select {
	case x := <-idleCh:
		if x.err != nil {
			r.fail("idle round: Idle: %v", x.err)
		}
		idle = x.cmd
	case <-time.After(10 * time.Second):
		r.fail("idle round: Idle() did not return after the continuation request")
	}
	type res struct {
		nums []uint32
		err  error
	}
	done := make(chan res, 1)
	go func() {
		nums, err := r.c.Expunge().Collect() // blocks until IDLE releases the encoder
		done <- res{nums, err}
	}()
	time.Sleep(time.Duration(rapid.IntRange(0, 3).Draw(t, "idle.delay")) * time.Millisecond)
	r.send(fmt.Sprintf("* %d EXPUNGE", uni))
	r.m.exists--
	r.m.handlerLog = append(r.m.handlerLog, fmt.Sprintf("expunge:%d", uni))
	// The client is only bound to treat it as unilateral once it has processed
	// it before the queued command is sent (afterwards it cannot tell it from
	// the command's own data): wait until the EXISTS sent right behind it has
	// reached the handler (responses are processed in order).
	r.send(fmt.Sprintf("* %d EXISTS", r.m.exists))
	r.m.handlerLog = append(r.m.handlerLog, fmt.Sprintf("mailbox:exists=%d", r.m.exists))
	wantSeen := 0
	for _, w := range r.m.handlerLog {
		if strings.HasPrefix(w, "mailbox:exists=") {
			wantSeen++
		}
	}
	processed := false
	for deadline := time.Now().Add(5 * time.Second); time.Now().Before(deadline); time.Sleep(100 * time.Microsecond) {
		n := 0
		r.gmu.Lock()
		for _, g := range r.gotLog {
			if strings.HasPrefix(g, "mailbox:exists=") {
				n++
			}
		}
		r.gmu.Unlock()
		if n >= wantSeen {
			processed = true
			break
		}
	}
	if werr := cs.Within(10*time.Second, "idle.Close", func() error { return idle.Close() }); werr != nil {
		r.fail("idle round: IdleCommand.Close: %v", werr)
	}
	if l, err := r.s.ReadRawLine(); err != nil || l != "DONE" {
		r.fail("idle round: expected DONE, got %q %v", l, err)
	}
	r.send(idleTag + " OK IDLE terminated")
	if werr := cs.Within(10*time.Second, "idle.Wait", func() error { return idle.Wait() }); werr != nil {
		r.fail("idle round: IdleCommand.Wait: %v", werr)
	}
	cmd, err = r.s.ReadCommand()
	if err != nil || cmd.Name != "EXPUNGE" {
		r.fail("idle round: expected the queued EXPUNGE, got %v %v", cmd, err)
	}
	r.log("C: %s", strings.TrimSpace(string(cmd.Raw)))
	r.send(fmt.Sprintf("* %d EXPUNGE", own))
	r.m.exists--
	r.send(cmd.Tag + " OK EXPUNGE completed")
	select {
	case x := <-done:
		if x.err != nil || (processed && fmt.Sprint(x.nums) != fmt.Sprint([]uint32{own})) {
			r.fail("idle round: the EXPUNGE command that waited behind IDLE delivered %v (%v); the transcript addressed [%d] to it (EXPUNGE %d was unilateral, sent while the command had not been sent yet)", x.nums, x.err, own, uni)
		}
	case <-time.After(10 * time.Second):
		r.fail("idle round: the queued EXPUNGE did not complete")
	}
	r.sync()
	r.checkMirror("after the IDLE round")
	ev.Class("idle-round:command-queued-behind-idle")
}

// literalRetryRound: a command with two synchronising literals is refused at
// the first one; the connection stays usable, and the next command with a
// synchronising literal gets its own continuation request.
func (r *run) literalRetryRound(t *rapid.T) {
	status := rapid.SampledFrom([]string{"NO", "BAD"}).Draw(t, "retry.status")
	r.s.OnLiteral = func(*script.LiteralEvent) script.Decision { return script.Refuse }
	done := make(chan error, 1)
	go func() { done <- r.c.Login("us\r\ner", "pa\r\nss").Wait() }()
	cmd, err := r.s.ReadCommand()
	if err != nil || !cmd.Refused {
		r.fail("literal round: expected a LOGIN stopped at its first literal, got %v %v", cmd, err)
	}
	r.log("C: %s", strings.TrimSpace(clip(string(cmd.Raw))))
	r.send(cmd.Tag + " " + status + " literal refused")
	select {
	case err := <-done:
		if errKey(err) != status+"[]" {
			r.fail("literal round: LOGIN refused with %s completed with %s", status, errKey(err))
		}
	case <-time.After(10 * time.Second):
		r.fail("literal round: the refused LOGIN did not complete")
	}
	r.s.OnLiteral = nil
	// now a command whose literal is accepted
	adone := make(chan error, 1)
	go func() {
		cmd := r.c.Append("box", 5, nil)
		cmd.Write([]byte("hello"))
		cmd.Close()
		_, err := cmd.Wait()
		adone <- err
	}()
	rd := make(chan error, 1)
	go func() {
		cmd, err := r.s.ReadCommand()
		if err == nil {
			r.log("C: %s", strings.TrimSpace(clip(string(cmd.Raw))))
			r.send(cmd.Tag + " OK APPEND completed")
		}
		rd <- err
	}()
	select {
	case err := <-adone:
		if err != nil {
			r.fail("literal round: APPEND after the refused LOGIN failed: %v", err)
		}
	case <-time.After(10 * time.Second):
		r.fail("literal round: after a command with two literals was refused at the first one, an APPEND (whose literal the server accepts) never completes")
	}
	<-rd
	r.sync()
	r.checkMirror("after the literal round")
	ev.Class("literal-round:refused-two-literal-command-then-append")
}

// logoutRound: LOGOUT with 0-2 commands pipelined behind it. The server
// processes LOGOUT first (commands are processed in order), says BYE, completes
// LOGOUT and closes the connection; what was sent behind it is never answered.
func (r *run) logoutRound(t *rapid.T) {
	kinds := rapid.SliceOfN(rapid.SampledFrom([]string{"NOOP", "STATUS", "SELECT"}), 0, 2).Draw(t, "behind-logout")
	lo := r.c.Logout()
	var waits []func() error
	for _, k := range kinds {
		switch k {
		case "NOOP":
			cmd := r.c.Noop()
			waits = append(waits, cmd.Wait)
		case "STATUS":
			cmd := r.c.Status("later", &imap.StatusOptions{NumMessages: true})
			waits = append(waits, func() error { _, err := cmd.Wait(); return err })
		case "SELECT":
			cmd := r.c.Select("later", nil)
			waits = append(waits, func() error { _, err := cmd.Wait(); return err })
		}
	}
	var loTag string
	for i := 0; i <= len(kinds); i++ {
		cmd, err := r.s.ReadCommand()
		if err != nil {
			r.fail("logout round: reading command %d: %v", i, err)
		}
		r.log("C: %s", strings.TrimSpace(clip(string(cmd.Raw))))
		if i == 0 {
			if cmd.Name != "LOGOUT" {
				r.fail("logout round: expected LOGOUT first, got %q", cmd.Raw)
			}
			loTag = cmd.Tag
		}
	}
	r.send("* BYE logging out")
	r.send(loTag + " OK LOGOUT completed")
	r.s.Close()
	r.log("S: <connection closed>")
	r.m.state, r.m.selected = imap.ConnStateLogout, false
	var err error
	if werr := cs.Within(10*time.Second, "Logout.Wait", func() error { err = lo.Wait(); return nil }); werr != nil {
		r.fail("logout round: Logout().Wait() did not return")
	}
	if err != nil {
		r.fail("logout round: LOGOUT was answered OK but completed with %v", err)
	}
	for i, w := range waits {
		var err error
		if werr := cs.Within(10*time.Second, "Wait", func() error { err = w(); return nil }); werr != nil {
			r.fail("logout round: Wait of %s (sent behind LOGOUT) did not return", kinds[i])
		}
		if err == nil {
			r.fail("logout round: %s was sent behind LOGOUT and never answered (the server closed after completing LOGOUT), but it completed with success", kinds[i])
		}
	}
	r.checkMirror("after LOGOUT was completed and the connection closed")
	ev.Class(fmt.Sprintf("logout-round:behind=%d", len(kinds)))
}

func TestPropRouting(t *testing.T) {
	rapid.Check(t, func(t *rapid.T) {
		clientEnd, s := script.New()
		r := &run{t: t, s: s}
		mu := &r.gmu
		opts := &imapclient.Options{UnilateralDataHandler: &imapclient.UnilateralDataHandler{
			Expunge: func(n uint32) { mu.Lock(); r.gotLog = append(r.gotLog, fmt.Sprintf("expunge:%d", n)); mu.Unlock() },
			Mailbox: func(d *imapclient.UnilateralDataMailbox) {
				mu.Lock()
				defer mu.Unlock()
				switch {
				case d.NumMessages != nil:
					r.gotLog = append(r.gotLog, fmt.Sprintf("mailbox:exists=%d", *d.NumMessages))
				case d.PermanentFlags != nil:
					r.gotLog = append(r.gotLog, "mailbox:permanentflags="+flagsKey(d.PermanentFlags))
				default:
					r.gotLog = append(r.gotLog, "mailbox:flags="+flagsKey(d.Flags))
				}
			},
			Fetch: func(msg *imapclient.FetchMessageData) {
				buf, _ := msg.Collect()
				mu.Lock()
				r.gotLog = append(r.gotLog, fmt.Sprintf("fetch:%d:%s", buf.SeqNum, flagsKey(buf.Flags)))
				mu.Unlock()
			},
		}}
		// some servers also advertise IMAP4rev2 (the client never enables it
		// here, so the server keeps answering in IMAP4rev1 style)
		caps := "IMAP4rev1 UIDPLUS ESEARCH ENABLE"
		if rapid.Bool().Draw(t, "advertise-rev2") {
			caps = "IMAP4rev1 IMAP4rev2 UIDPLUS ESEARCH ENABLE"
			r.rev2 = true
			ev.Class("server-advertises-IMAP4rev2")
		}
		r.send("* OK [CAPABILITY " + caps + "] ready")
		r.c = imapclient.New(clientEnd, opts)
		defer func() {
			cs.Within(5*time.Second, "Close", func() error { r.c.Close(); return nil })
			s.Close()
		}()
		r.m.state = imap.ConnStateNotAuthenticated
		// sometimes commands are refused before anybody has logged in: the
		// mirrored state must stay "not authenticated"
		for i, n := 0, rapid.SampledFrom([]int{0, 0, 0, 1, 2}).Draw(t, "prelogin"); i < n; i++ {
			kind := rapid.SampledFrom([]string{"SELECT", "EXAMINE", "LOGIN", "STATUS"}).Draw(t, "prelogin-cmd")
			status := rapid.SampledFrom([]string{"NO", "NO", "BAD"}).Draw(t, "prelogin-status")
			pre := make(chan error, 1)
			go func() {
				switch kind {
				case "SELECT":
					_, err := r.c.Select("early", nil).Wait()
					pre <- err
				case "EXAMINE":
					_, err := r.c.Select("early", &imap.SelectOptions{ReadOnly: true}).Wait()
					pre <- err
				case "STATUS":
					_, err := r.c.Status("early", &imap.StatusOptions{NumMessages: true}).Wait()
					pre <- err
				default:
					pre <- r.c.Login("nobody", "wrong").Wait()
				}
			}()
			cmd, err := s.ReadCommand()
			if err != nil {
				r.fail("%s before login: %v", kind, err)
			}
			r.send(cmd.Tag + " " + status + " not before you have logged in")
			select {
			case err := <-pre:
				if err == nil {
					r.fail("%s answered %s before login: the client reports success", kind, status)
				}
			case <-time.After(10 * time.Second):
				r.fail("%s answered %s before login: the call never returned", kind, status)
			}
			r.checkMirror("after " + kind + " was refused (" + status + ") before login")
			ev.Class("refused-before-login:" + kind)
		}
		// login
		done := make(chan error, 1)
		go func() { done <- r.c.Login("u", "p").Wait() }()
		cmd, err := s.ReadCommand()
		if err != nil {
			r.fail("login: %v", err)
		}
		r.send(cmd.Tag + " OK [CAPABILITY " + caps + "] logged in")
		if err := <-done; err != nil {
			r.fail("login failed: %v", err)
		}
		r.m.state = imap.ConnStateAuthenticated
		r.checkMirror("after LOGIN")
		r.selectMailbox(t, "first", false)
		ooo, upd := false, false
		rounds := rapid.IntRange(1, 3).Draw(t, "rounds")
		for i := 0; i < rounds; i++ {
			if !r.m.selected {
				r.selectMailbox(t, fmt.Sprintf("again%d", i), false)
				continue
			}
			if rapid.IntRange(0, 5).Draw(t, "reselect") == 4 {
				r.selectMailbox(t, fmt.Sprintf("other%d", i), true)
				continue
			}
			switch rapid.IntRange(0, 7).Draw(t, "special-round") {
			case 0:
				r.idleRound(t)
				continue
			case 1:
				if !r.rev2 {
					r.literalRetryRound(t)
					continue
				}
			}
			o, u := r.round(t, i)
			ooo, upd = ooo || o, upd || u
		}
		// sometimes the session ends with LOGOUT and commands pipelined behind it
		// which the server never answers: BYE, the tagged OK of LOGOUT, close
		if rapid.IntRange(0, 3).Draw(t, "logout-round") == 0 {
			r.logoutRound(t)
		}
		// unilateral data must have reached the handlers, in order. FETCH
		// handlers run in their own goroutines, so compare them as a multiset.
		// (the client starts them with "go handler(msg)": wait for as many
		// FETCH entries as the transcript holds, a fixed sleep is schedule-dependent)
		nWantFetch := 0
		for _, w := range r.m.handlerLog {
			if strings.HasPrefix(w, "fetch:") {
				nWantFetch++
			}
		}
		var got []string
		for deadline := time.Now().Add(5 * time.Second); ; time.Sleep(200 * time.Microsecond) {
			mu.Lock()
			got = append([]string(nil), r.gotLog...)
			mu.Unlock()
			n := 0
			for _, g := range got {
				if strings.HasPrefix(g, "fetch:") {
					n++
				}
			}
			if n >= nWantFetch || time.Now().After(deadline) {
				break
			}
		}
		var gotOrdered, wantOrdered, gotFetch, wantFetch []string
		for _, g := range got {
			if g == "mailbox:flags=()" || g == "mailbox:permanentflags=()" {
				g = "mailbox:empty-list"
			}
			if strings.HasPrefix(g, "fetch:") {
				gotFetch = append(gotFetch, g)
			} else {
				gotOrdered = append(gotOrdered, g)
			}
		}
		for _, w := range r.m.handlerLog {
			if strings.HasPrefix(w, "fetch:") {
				wantFetch = append(wantFetch, w)
			} else {
				wantOrdered = append(wantOrdered, w)
			}
		}
		sort.Strings(gotFetch)
		sort.Strings(wantFetch)
		if fmt.Sprint(gotOrdered) != fmt.Sprint(wantOrdered) {
			r.fail("unilateral data delivered to the handlers: %v, the transcript contains %v", gotOrdered, wantOrdered)
		}
		if fmt.Sprint(gotFetch) != fmt.Sprint(wantFetch) {
			r.fail("unsolicited FETCH data delivered to the handler: %v, the transcript contains %v", gotFetch, wantFetch)
		}
		ev.Eval()
		if ooo || upd {
			ev.NonTrivial(strings.Join(r.hist, ";"))
		}
		if ooo {
			ev.Class("answered-out-of-order")
		}
		if upd {
			ev.Class("unsolicited-update-interleaved")
		}
		h := strings.Join(r.hist, " | ")
		if len(h) > 700 {
			h = h[:700]
		}
		ev.Sample(h)
	})
}
