// Package lockmon is injected (go build -overlay) into a scratch view of the
// library as github.com/emersion/go-imap/v2/internal/lockmon; the overlay also
// replaces every sync.Mutex / sync.RWMutex in imapserver/** by lockmon.Mutex /
// lockmon.RWMutex. Nothing of this is ever written to the library's tree.
//
// The monitor
//   - records, per goroutine, the stack of held mutex instances and the
//     lock-order edges "holding A, acquired B" with the other locks held at
//     that moment (gate locks) and the call sites;
//   - perturbs the schedule at the only points that matter for lock-order
//     inversions: a goroutine that already holds a monitored lock and is about
//     to take another one is paused for a short pseudo-random time (or, for
//     "hot" site pairs, until a partner arrives at another hot point);
//   - keeps the exact wait-for graph (owner and waiters of every monitored
//     mutex) and reports a cycle that persists, which is an actual deadlock,
//     not a prediction.
package lockmon

import (
	"fmt"
	"runtime"
	"sort"
	"strings"
	"sync"
	"sync/atomic"
	"time"
)

type Mutex struct {
	mu sync.Mutex
}

type RWMutex struct {
	mu sync.RWMutex
	w  Mutex // identity used for the write side in the monitor
}

type held struct {
	m    *Mutex
	site string
}

type EdgeObs struct {
	G         uint64
	Outer, In string // call sites
	Gates     []*Mutex
}

type waitRec struct {
	m    *Mutex
	site string
	seq  uint64
}

var (
	enabled   atomic.Bool
	state     sync.Mutex
	heldBy    = map[uint64][]held{}
	owner     = map[*Mutex]uint64{}
	foreign   = map[*Mutex]bool{} // unlocked by a goroutine that is not the owner: excluded from cycle reasoning
	waiting   = map[uint64]waitRec{}
	edges     = map[[2]*Mutex][]EdgeObs{}
	names     = map[*Mutex]string{}
	nameN     = map[string]int{}
	waitSeq   uint64
	deadlock  atomic.Value // string
	nested    atomic.Int64
	paused    atomic.Int64
	contended atomic.Int64

	pauseSeed     atomic.Uint64
	pauseCtr      atomic.Uint64
	pausePerMille atomic.Int64
	pauseMaxUS    atomic.Int64

	hotMu      sync.Mutex
	hot        = map[[2]string]bool{}
	hotWaiters int
	hotBudget  int // rendezvous waits left in this trial (bounds the slow-down)
	hotCond    = sync.NewCond(&hotMu)
)

// Reset forgets everything and (re)arms the monitor.
func Reset(seed uint64, perMille int, maxMicros int) {
	state.Lock()
	heldBy = map[uint64][]held{}
	owner = map[*Mutex]uint64{}
	foreign = map[*Mutex]bool{}
	waiting = map[uint64]waitRec{}
	edges = map[[2]*Mutex][]EdgeObs{}
	names = map[*Mutex]string{}
	nameN = map[string]int{}
	state.Unlock()
	deadlock.Store("")
	pauseSeed.Store(seed)
	pauseCtr.Store(0)
	pausePerMille.Store(int64(perMille))
	pauseMaxUS.Store(int64(maxMicros))
	hotMu.Lock()
	hot = map[[2]string]bool{}
	hotMu.Unlock()
	enabled.Store(true)
}

// Disable makes every monitored mutex behave like the plain one.
func Disable() { enabled.Store(false) }

// SetHot arms rendezvous pauses for the given (outer site, inner site) pairs.
func SetHot(pairs [][2]string) {
	hotMu.Lock()
	hot = map[[2]string]bool{}
	for _, p := range pairs {
		hot[p] = true
	}
	hotBudget = 60
	hotMu.Unlock()
}

// Deadlock returns a non-empty report once a wait-for cycle has persisted.
func Deadlock() string {
	s, _ := deadlock.Load().(string)
	return s
}

type Stats struct{ Nested, Paused, Contended int64 }

func Counters() Stats { return Stats{nested.Load(), paused.Load(), contended.Load()} }

func gid() uint64 {
	var buf [64]byte
	n := runtime.Stack(buf[:], false)
	// "goroutine 123 ["
	var id uint64
	for _, c := range buf[len("goroutine "):n] {
		if c < '0' || c > '9' {
			break
		}
		id = id*10 + uint64(c-'0')
	}
	return id
}

func site(skip int) string {
	pc := make([]uintptr, 6)
	n := runtime.Callers(skip, pc)
	fr := runtime.CallersFrames(pc[:n])
	for {
		f, more := fr.Next()
		if !strings.Contains(f.File, "/lockmon/") && !strings.Contains(f.File, "_lockmon") {
			file := f.File
			if i := strings.LastIndex(file, "/"); i >= 0 {
				if j := strings.LastIndex(file[:i], "/"); j >= 0 {
					file = file[j+1:]
				}
			}
			fn := f.Function
			if i := strings.LastIndex(fn, "/"); i >= 0 {
				fn = fn[i+1:]
			}
			return fmt.Sprintf("%s:%d(%s)", file, f.Line, fn)
		}
		if !more {
			return "?"
		}
	}
}

func nameOf(m *Mutex, s string) string {
	if n, ok := names[m]; ok {
		return n
	}
	// first acquisition site names the instance
	base := s
	if i := strings.Index(base, "("); i >= 0 {
		base = base[:i]
	}
	nameN[base]++
	n := fmt.Sprintf("M%d@%s", len(names)+1, base)
	names[m] = n
	return n
}

func splitmix(x uint64) uint64 {
	x += 0x9E3779B97F4A7C15
	z := x
	z = (z ^ (z >> 30)) * 0xBF58476D1CE4E5B9
	z = (z ^ (z >> 27)) * 0x94D049BB133111EB
	return z ^ (z >> 31)
}

func (m *Mutex) Lock() {
	if !enabled.Load() {
		m.mu.Lock()
		return
	}
	g := gid()
	s := site(3)
	state.Lock()
	hl := heldBy[g]
	var outerSite string
	if len(hl) > 0 {
		nameOf(m, s)
		for i, h := range hl {
			if h.m == m {
				continue
			}
			var gates []*Mutex
			for j, o := range hl {
				if j != i && o.m != m {
					gates = append(gates, o.m)
				}
			}
			k := [2]*Mutex{h.m, m}
			if obs := edges[k]; len(obs) < 8 {
				edges[k] = append(obs, EdgeObs{G: g, Outer: h.site, In: s, Gates: gates})
			}
		}
		outerSite = hl[len(hl)-1].site
	} else {
		nameOf(m, s)
	}
	state.Unlock()
	if outerSite != "" {
		nested.Add(1)
		pause(outerSite, s)
	}
	if m.mu.TryLock() {
		acquired(m, g, s)
		return
	}
	contended.Add(1)
	state.Lock()
	waitSeq++
	w := waitRec{m: m, site: s, seq: waitSeq}
	waiting[g] = w
	cyc := findCycle(g)
	state.Unlock()
	if cyc != nil {
		go confirm(cyc)
	}
	m.mu.Lock()
	state.Lock()
	delete(waiting, g)
	state.Unlock()
	acquired(m, g, s)
}

func acquired(m *Mutex, g uint64, s string) {
	state.Lock()
	owner[m] = g
	heldBy[g] = append(heldBy[g], held{m, s})
	state.Unlock()
}

func (m *Mutex) TryLock() bool {
	if !enabled.Load() {
		return m.mu.TryLock()
	}
	if m.mu.TryLock() {
		g := gid()
		s := site(3)
		state.Lock()
		nameOf(m, s)
		state.Unlock()
		acquired(m, g, s)
		return true
	}
	return false
}

func (m *Mutex) Unlock() {
	if enabled.Load() {
		g := gid()
		state.Lock()
		o, ok := owner[m]
		if ok {
			if o != g {
				foreign[m] = true
			}
			delete(owner, m)
			hl := heldBy[o]
			for i := len(hl) - 1; i >= 0; i-- {
				if hl[i].m == m {
					hl = append(hl[:i], hl[i+1:]...)
					break
				}
			}
			if len(hl) == 0 {
				delete(heldBy, o)
			} else {
				heldBy[o] = hl
			}
		}
		state.Unlock()
	}
	m.mu.Unlock()
}

// RWMutex: the write side is monitored like a Mutex (through the identity w);
// read locks are recorded as acquisitions for the order graph but are not part
// of the wait-for graph (several owners).
func (m *RWMutex) Lock() {
	if !enabled.Load() {
		m.mu.Lock()
		return
	}
	m.w.orderOnly()
	m.mu.Lock()
	acquired(&m.w, gid(), site(2))
}
func (m *RWMutex) Unlock() {
	if enabled.Load() {
		m.w.release()
	}
	m.mu.Unlock()
}
func (m *RWMutex) RLock() {
	if !enabled.Load() {
		m.mu.RLock()
		return
	}
	m.w.orderOnly()
	m.mu.RLock()
	g := gid()
	state.Lock()
	heldBy[g] = append(heldBy[g], held{&m.w, site(2)})
	state.Unlock()
}
func (m *RWMutex) RUnlock() {
	if enabled.Load() {
		g := gid()
		state.Lock()
		hl := heldBy[g]
		for i := len(hl) - 1; i >= 0; i-- {
			if hl[i].m == &m.w {
				hl = append(hl[:i], hl[i+1:]...)
				break
			}
		}
		if len(hl) == 0 {
			delete(heldBy, g)
		} else {
			heldBy[g] = hl
		}
		state.Unlock()
	}
	m.mu.RUnlock()
}
func (m *RWMutex) TryLock() bool        { return m.mu.TryLock() }
func (m *RWMutex) TryRLock() bool       { return m.mu.TryRLock() }
func (m *RWMutex) RLocker() sync.Locker { return (*rlocker)(m) }

type rlocker RWMutex

func (r *rlocker) Lock()   { (*RWMutex)(r).RLock() }
func (r *rlocker) Unlock() { (*RWMutex)(r).RUnlock() }

func (m *Mutex) orderOnly() {
	g := gid()
	s := site(3)
	state.Lock()
	hl := heldBy[g]
	nameOf(m, s)
	var outerSite string
	for i, h := range hl {
		if h.m == m {
			continue
		}
		var gates []*Mutex
		for j, o := range hl {
			if j != i && o.m != m {
				gates = append(gates, o.m)
			}
		}
		k := [2]*Mutex{h.m, m}
		if obs := edges[k]; len(obs) < 8 {
			edges[k] = append(obs, EdgeObs{G: g, Outer: h.site, In: s, Gates: gates})
		}
		outerSite = h.site
	}
	state.Unlock()
	if outerSite != "" {
		nested.Add(1)
		pause(outerSite, s)
	}
}

func (m *Mutex) release() {
	state.Lock()
	if o, ok := owner[m]; ok {
		delete(owner, m)
		hl := heldBy[o]
		for i := len(hl) - 1; i >= 0; i-- {
			if hl[i].m == m {
				hl = append(hl[:i], hl[i+1:]...)
				break
			}
		}
		if len(hl) == 0 {
			delete(heldBy, o)
		} else {
			heldBy[o] = hl
		}
	}
	state.Unlock()
}

func pause(outer, inner string) {
	hotMu.Lock()
	if hot[[2]string{outer, inner}] && hotBudget > 0 {
		hotBudget--
		// rendezvous: wait (bounded) until another goroutine reaches a hot point
		hotWaiters++
		hotCond.Broadcast()
		deadline := time.Now().Add(60 * time.Millisecond)
		timer := time.AfterFunc(61*time.Millisecond, func() { hotMu.Lock(); hotCond.Broadcast(); hotMu.Unlock() })
		for hotWaiters < 2 && time.Now().Before(deadline) {
			hotCond.Wait()
		}
		timer.Stop()
		met := hotWaiters >= 2
		hotMu.Unlock()
		if met {
			// both have arrived holding their outer lock; let the partner run too
			time.Sleep(2 * time.Millisecond)
		}
		hotMu.Lock()
		hotWaiters--
		hotMu.Unlock()
		paused.Add(1)
		return
	}
	hotMu.Unlock()
	pm := pausePerMille.Load()
	if pm <= 0 {
		return
	}
	r := splitmix(pauseSeed.Load() ^ splitmix(pauseCtr.Add(1)))
	if int64(r%1000) >= pm {
		return
	}
	max := pauseMaxUS.Load()
	if max <= 0 {
		runtime.Gosched()
		return
	}
	d := time.Duration((r>>16)%uint64(max)+1) * time.Microsecond
	paused.Add(1)
	if d < 30*time.Microsecond {
		runtime.Gosched()
		return
	}
	time.Sleep(d)
}

type cycMember struct {
	g uint64
	w waitRec
}

// findCycle follows g -> owner(waiting[g].m) -> ... ; state must be held.
func findCycle(start uint64) []cycMember {
	var path []cycMember
	seen := map[uint64]bool{}
	g := start
	for {
		w, ok := waiting[g]
		if !ok {
			return nil
		}
		if foreign[w.m] {
			return nil
		}
		if seen[g] {
			// cut the path to the cycle part
			for i, m := range path {
				if m.g == g {
					return path[i:]
				}
			}
			return nil
		}
		seen[g] = true
		path = append(path, cycMember{g, w})
		o, ok := owner[w.m]
		if !ok {
			return nil
		}
		g = o
	}
}

func confirm(cyc []cycMember) {
	time.Sleep(1500 * time.Millisecond)
	state.Lock()
	for _, m := range cyc {
		w, ok := waiting[m.g]
		if !ok || w.seq != m.w.seq {
			state.Unlock()
			return
		}
	}
	var b strings.Builder
	b.WriteString("lock monitor: wait-for cycle persisted for 1.5 s (actual deadlock):\n")
	for _, m := range cyc {
		fmt.Fprintf(&b, "  goroutine %d waits for %s at %s, owned by goroutine %d; it holds:", m.g, names[m.w.m], m.w.site, owner[m.w.m])
		for _, h := range heldBy[m.g] {
			fmt.Fprintf(&b, " %s(taken at %s)", names[h.m], h.site)
		}
		b.WriteString("\n")
	}
	state.Unlock()
	if Deadlock() == "" {
		deadlock.Store(b.String())
	}
}

// Prediction is a potential deadlock read off the lock-order graph.
type Prediction struct {
	Text  string
	Pairs [][2]string // (outer site, inner site) per edge
}

// Predict returns cycles of length 2 and 3 in the instance-level lock-order
// graph whose edges were observed in pairwise different goroutines with
// pairwise disjoint gate sets (Goodlock criterion).
func Predict() []Prediction {
	state.Lock()
	defer state.Unlock()
	type key = [2]*Mutex
	adj := map[*Mutex][]*Mutex{}
	for k := range edges {
		adj[k[0]] = append(adj[k[0]], k[1])
	}
	var out []Prediction
	seen := map[string]bool{}
	compatible := func(obs []EdgeObs) bool {
		for i := range obs {
			for j := i + 1; j < len(obs); j++ {
				if obs[i].G == obs[j].G {
					return false
				}
				for _, a := range obs[i].Gates {
					for _, b := range obs[j].Gates {
						if a == b {
							return false
						}
					}
				}
			}
		}
		return true
	}
	var try func(cycle []*Mutex, pick []EdgeObs, i int)
	emit := func(cycle []*Mutex, pick []EdgeObs) {
		var parts []string
		var pairs [][2]string
		var ids []string
		for i, e := range pick {
			a, b := cycle[i], cycle[(i+1)%len(cycle)]
			parts = append(parts, fmt.Sprintf("goroutine %d held %s (taken at %s) and took %s at %s", e.G, names[a], e.Outer, names[b], e.In))
			pairs = append(pairs, [2]string{e.Outer, e.In})
			ids = append(ids, names[a])
		}
		sort.Strings(ids)
		k := strings.Join(ids, "|")
		if seen[k] {
			return
		}
		seen[k] = true
		out = append(out, Prediction{Text: strings.Join(parts, "; "), Pairs: pairs})
	}
	try = func(cycle []*Mutex, pick []EdgeObs, i int) {
		if len(out) >= 8 {
			return
		}
		if i == len(cycle) {
			if compatible(pick) {
				emit(cycle, pick)
			}
			return
		}
		for _, e := range edges[key{cycle[i], cycle[(i+1)%len(cycle)]}] {
			try(cycle, append(pick, e), i+1)
		}
	}
	for a, bs := range adj {
		for _, b := range bs {
			if foreign[a] || foreign[b] {
				continue
			}
			if _, ok := edges[key{b, a}]; ok {
				try([]*Mutex{a, b}, nil, 0)
			}
			for _, c := range adj[b] {
				if c == a || foreign[c] {
					continue
				}
				if _, ok := edges[key{c, a}]; ok {
					try([]*Mutex{a, b, c}, nil, 0)
				}
			}
		}
	}
	return out
}

// EdgeCount is the number of distinct instance-level order edges seen.
func EdgeCount() int {
	state.Lock()
	defer state.Unlock()
	return len(edges)
}

// SiteEdges renders the distinct (outer site -> inner site) pairs seen.
func SiteEdges() []string {
	state.Lock()
	defer state.Unlock()
	set := map[string]bool{}
	for _, obs := range edges {
		for _, e := range obs {
			set[e.Outer+" -> "+e.In] = true
		}
	}
	var l []string
	for s := range set {
		l = append(l, s)
	}
	sort.Strings(l)
	return l
}

// Leaked lists the monitored mutexes that are still held. Asked when every
// goroutine that could hold one has finished, anything listed is a lock that
// was never released (an early return between Lock and Unlock).
func Leaked() []string {
	state.Lock()
	defer state.Unlock()
	var out []string
	for g, hl := range heldBy {
		for _, h := range hl {
			out = append(out, fmt.Sprintf("%s taken at %s by goroutine %d", names[h.m], h.site, g))
		}
	}
	sort.Strings(out)
	return out
}
