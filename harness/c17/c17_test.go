// Package c17 decides property C17: STARTTLS boundary - plaintext that arrives
// after the STARTTLS exchange line is never treated as protected data, on the
// server and on the client side; credentials are neither offered nor accepted
// on an unencrypted connection unless explicitly configured; an upgrading
// client refuses PREAUTH.
package c17

import (
	"bytes"
	"crypto/tls"
	"fmt"
	"io"
	"net"
	"strings"
	"sync"
	"testing"
	"time"

	imap "github.com/emersion/go-imap/v2"
	"github.com/emersion/go-imap/v2/imapclient"
	"github.com/emersion/go-imap/v2/imapserver"
	"github.com/emersion/go-imap/v2/verifh/kit/ev"
	"github.com/emersion/go-imap/v2/verifh/kit/pipe"
	"github.com/emersion/go-imap/v2/verifh/kit/srv"
	"github.com/emersion/go-imap/v2/verifh/kit/stub"
	"github.com/emersion/go-imap/v2/verifh/kit/tlsutil"
	"github.com/emersion/go-imap/v2/verifh/kit/tok"
	"pgregory.net/rapid"
)

func TestMain(m *testing.M) { ev.Main(m) }

type fataler interface {
	Fatalf(format string, args ...any)
}

// ---------------------------------------------------------------- server side

type sconfig struct {
	tlsConfig    bool
	insecureAuth bool
	afterLogin   bool // STARTTLS issued after a (plaintext, InsecureAuth) login
	sasl         bool // the backend session implements its own SASL mechanisms
	authCmd      bool // the plaintext credential attempt uses AUTHENTICATE instead of LOGIN
	otherMech    bool // ... with a mechanism other than PLAIN
	rev2Only     bool // the server is configured with IMAP4rev2 as its only protocol revision
	preauth      bool // PREAUTH greeting (a trusted channel set up elsewhere), then UNAUTHENTICATE: from then on the ordinary rules apply
}

func (c sconfig) String() string {
	return fmt.Sprintf("TLSConfig=%v InsecureAuth=%v afterLogin=%v saslSession=%v authCmd=%v otherMech=%v rev2Only=%v preauth=%v", c.tlsConfig, c.insecureAuth, c.afterLogin, c.sasl, c.authCmd, c.otherMech, c.rev2Only, c.preauth)
}

// waitConsumed waits until the server has read everything written so far and
// is quiescent, so that the next write arrives as a separate segment.
func waitConsumed(s *pipe.Conn) {
	deadline := time.Now().Add(2 * time.Second)
	for s.Pending() > 0 && time.Now().Before(deadline) {
		time.Sleep(50 * time.Microsecond)
	}
	time.Sleep(300 * time.Microsecond)
}

func serverCase(t fataler, cfg sconfig, suffix string, cuts []int, handshake bool) (accepted bool) {
	core := stub.NewCore()
	opts := imapserver.Options{
		NewSession: func(*imapserver.Conn) (imapserver.Session, *imapserver.GreetingData, error) {
			f := stub.FAll &^ stub.FSASL
			if cfg.sasl {
				f = stub.FAll
			}
			var g *imapserver.GreetingData
			if cfg.preauth {
				g = &imapserver.GreetingData{PreAuth: true}
			}
			return stub.Session(core, f), g, nil
		},
		InsecureAuth: cfg.insecureAuth,
	}
	switch {
	case cfg.rev2Only && cfg.preauth:
		opts.Caps = imap.CapSet{imap.CapIMAP4rev2: {}, imap.CapUnauthenticate: {}}
	case cfg.rev2Only:
		opts.Caps = imap.CapSet{imap.CapIMAP4rev2: {}}
	case cfg.preauth:
		opts.Caps = imap.CapSet{imap.CapIMAP4rev1: {}, imap.CapUnauthenticate: {}}
	}
	if cfg.tlsConfig {
		opts.TLSConfig = tlsutil.ServerConfig()
	}
	env := srv.Start(opts)
	defer env.Stop()
	raw := env.Dial()
	defer raw.Close()
	fail := func(f string, a ...any) {
		t.Fatalf("[%s suffix=%q cuts=%v handshake=%v] %s\nserver log: %v", cfg, suffix, cuts, handshake, fmt.Sprintf(f, a...), env.Log.Lines())
	}
	g, err := raw.Greeting()
	if err != nil {
		fail("greeting: %v", err)
	}
	// capability offer on the unencrypted connection
	caps := " " + g.Code + " "
	if cfg.preauth {
		// the greeting describes the authenticated state; leave it and look again
		if _, st, err := raw.Cmd("u0", "UNAUTHENTICATE"); err != nil || st.Status != "OK" {
			fail("UNAUTHENTICATE after PREAUTH: %v %v", st, err)
		}
		core.Reset()
		lines, st, err := raw.Cmd("u1", "CAPABILITY")
		if err != nil || st.Status != "OK" {
			fail("CAPABILITY: %v %v", st, err)
		}
		caps = " "
		for _, l := range lines {
			caps += strings.TrimSpace(strings.TrimPrefix(strings.TrimSpace(string(l.Raw)), "* CAPABILITY")) + " "
		}
	}
	if cfg.insecureAuth {
		if !strings.Contains(caps, " AUTH=") || strings.Contains(caps, " LOGINDISABLED ") {
			fail("greeting capabilities %q: InsecureAuth set, expected AUTH= and no LOGINDISABLED", g.Code)
		}
	} else if strings.Contains(caps, " AUTH=") || !strings.Contains(caps, " LOGINDISABLED ") {
		fail("greeting capabilities %q offer credentials on an unencrypted connection", g.Code)
	}
	if strings.Contains(caps, " STARTTLS ") != cfg.tlsConfig {
		fail("greeting capabilities %q: STARTTLS advertised=%v, TLSConfig set=%v", g.Code, strings.Contains(caps, " STARTTLS "), cfg.tlsConfig)
	}
	loggedIn := false
	if cfg.afterLogin {
		cmd := "LOGIN plainuser plainpass"
		if cfg.authCmd {
			cmd = "AUTHENTICATE PLAIN AHBsYWludXNlcgBwbGFpbnBhc3M="
			if cfg.otherMech {
				// any other mechanism is a credential exchange as well
				cmd = "AUTHENTICATE XOAUTH2 AHBsYWludXNlcgBwbGFpbnBhc3M="
			}
		}
		_, st, err := raw.Cmd("l0", cmd)
		if err != nil {
			fail("pre-login: %v", err)
		}
		if cfg.insecureAuth && cfg.authCmd && cfg.otherMech && !cfg.sasl {
			// the built-in fallback only knows PLAIN: refused, nobody is logged in
			if st.Status == "OK" {
				fail("AUTHENTICATE XOAUTH2 accepted by a session without SASL support")
			}
		} else if cfg.insecureAuth {
			if st.Status != "OK" {
				fail("plaintext LOGIN refused although InsecureAuth is set: %s", st.Text)
			}
			loggedIn = true
		} else {
			if st.Status == "OK" || len(core.Calls()) != 0 {
				fail("credentials accepted on an unencrypted connection without InsecureAuth (status %s, backend calls %v)", st.Status, core.Calls())
			}
		}
		core.Reset()
	}
	// the model: is STARTTLS accepted here?
	accepted = cfg.tlsConfig && !loggedIn
	// send "x STARTTLS CRLF" + suffix, split at cuts
	stream := "x STARTTLS\r\n" + suffix
	prev := 0
	for _, c := range cuts {
		if c <= prev || c >= len(stream) {
			continue
		}
		raw.C.Write([]byte(stream[prev:c]))
		waitConsumed(raw.S)
		prev = c
	}
	raw.C.Write([]byte(stream[prev:]))
	// read the tagged answer to STARTTLS as raw bytes (not through the line
	// reader, because what follows may be TLS records)
	var got []byte
	deadline := time.Now().Add(5 * time.Second)
	var okLineEnd int
	for {
		if i := bytes.Index(got, []byte("\r\n")); i >= 0 && bytes.HasPrefix(got, []byte("x ")) {
			okLineEnd = i + 2
			break
		}
		if time.Now().After(deadline) {
			fail("no answer to STARTTLS; got %q", got)
		}
		raw.C.SetReadDeadline(time.Now().Add(200 * time.Millisecond))
		buf := make([]byte, 4096)
		n, err := raw.C.Read(buf)
		got = append(got, buf[:n]...)
		if err == io.EOF {
			fail("connection closed before the STARTTLS answer; got %q", got)
		}
	}
	raw.C.SetReadDeadline(time.Time{})
	line := string(got[:okLineEnd])
	if accepted != strings.HasPrefix(line, "x OK") {
		fail("STARTTLS answered %q, the model says accepted=%v", line, accepted)
	}
	if !accepted {
		// the suffix is ordinary plaintext input here; nothing to judge except
		// that credentials still need InsecureAuth
		rest, _ := raw.C.ReadAvailable(20*time.Millisecond, 500*time.Millisecond)
		_ = rest
		for _, c := range core.Calls() {
			if (c.Method == "Login" || c.Method == "Authenticate" || c.Method == "SASL-PLAIN") && !cfg.insecureAuth {
				fail("plaintext credentials reached the backend (%s) without InsecureAuth", c.Method)
			}
		}
		return accepted
	}
	// STARTTLS accepted: from here on the server may only speak TLS
	after := append([]byte(nil), got[okLineEnd:]...)
	if handshake {
		var tc *tls.Conn
		// bytes already read past the OK line belong to the TLS stream: feed
		// them back through a prefix reader
		conn := &prefixConn{Conn: raw.C, prefix: after}
		tc = tls.Client(conn, tlsutil.ClientConfig())
		raw.C.SetDeadline(time.Now().Add(3 * time.Second))
		herr := tc.Handshake()
		raw.C.SetDeadline(time.Time{})
		if suffix != "" {
			if herr == nil {
				fail("the TLS handshake succeeded although %d plaintext bytes were injected after the STARTTLS line: they were not consumed by TLS", len(suffix))
			}
		} else {
			if herr != nil {
				fail("clean STARTTLS: TLS handshake failed: %v", herr)
			}
			// a LOGIN inside TLS must reach the backend
			r2 := &srv.Raw{Conn: tc, C: raw.C, S: raw.S, R: &tok.Reader{R: tc, Server: true}, Timeout: 5 * time.Second}
			_, st, err := r2.Cmd("t1", "LOGIN tlsuser tlspass")
			if err != nil || st.Status != "OK" {
				fail("LOGIN inside TLS: %v %v", st, err)
			}
			calls := core.Calls()
			if len(calls) != 1 || calls[0].Method != "Login" || calls[0].Args["username"] != "tlsuser" {
				fail("backend calls after LOGIN inside TLS: %v", calls)
			}
			return accepted
		}
	} else {
		more, _ := raw.C.ReadAvailable(20*time.Millisecond, 300*time.Millisecond)
		after = append(after, more...)
		// a peer that breaks the handshake with something that is not TLS,
		// waits for the server's reaction, and then goes on in plaintext: the
		// upgrade has failed, nothing sent now may be treated as protected
		raw.C.Write([]byte("this is not a TLS record\r\n"))
		more, _ = raw.C.ReadAvailable(20*time.Millisecond, 300*time.Millisecond)
		after = append(after, more...)
		raw.C.Write([]byte("z9 LOGIN lateuser latepass\r\nz10 NOOP\r\n"))
		more, _ = raw.C.ReadAvailable(20*time.Millisecond, 300*time.Millisecond)
		after = append(after, more...)
	}
	// plaintext check: anything the server wrote after the OK line must be a
	// TLS record (handshake 0x16 / alert 0x15), never an IMAP line
	if !handshake && len(after) > 0 {
		if !(after[0] == 0x15 || after[0] == 0x16) || bytes.Contains(after, []byte(" OK ")) || bytes.Contains(after, []byte(" BAD ")) || bytes.Contains(after, []byte("* ")) {
			fail("plaintext written by the server after the STARTTLS OK line: %q", after)
		}
	}
	// no backend call may stem from the injected plaintext
	if calls := core.Calls(); len(calls) != 0 {
		fail("injected plaintext after STARTTLS reached the backend: %v", calls)
	}
	return accepted
}

type prefixConn struct {
	net.Conn
	prefix []byte
}

func (p *prefixConn) Read(b []byte) (int, error) {
	if len(p.prefix) > 0 {
		n := copy(b, p.prefix)
		p.prefix = p.prefix[n:]
		return n, nil
	}
	return p.Conn.Read(b)
}

var suffixes = []string{"", "", "y LOGIN injuser injpass\r\n", "y LOGIN injuser injpass\r\nz NOOP\r\n", "z NOOP\r\n", "y LOG", "y AUTHENTICATE PLAIN AGluanVzZXIAaW5qcGFzcw==\r\n",
	"y CAPABILITY\r\nz LOGIN injuser injpass\r\n", "\r\n", "y SELECT INBOX\r\n", "y LOGOUT\r\n"}

func TestPropServerBoundary(t *testing.T) {
	rapid.Check(t, func(t *rapid.T) {
		cfg := sconfig{
			tlsConfig:    rapid.IntRange(0, 4).Draw(t, "tlsConfig") != 0,
			insecureAuth: rapid.Bool().Draw(t, "insecureAuth"),
			afterLogin:   rapid.IntRange(0, 3).Draw(t, "afterLogin") == 2,
			sasl:         rapid.Bool().Draw(t, "saslSession"),
			authCmd:      rapid.Bool().Draw(t, "authCmd"),
			otherMech:    rapid.Bool().Draw(t, "otherMech"),
			rev2Only:     rapid.IntRange(0, 3).Draw(t, "rev2Only") == 0,
			preauth:      rapid.IntRange(0, 3).Draw(t, "preauth") == 0,
		}
		suffix := rapid.SampledFrom(suffixes).Draw(t, "suffix")
		total := len("x STARTTLS\r\n") + len(suffix)
		var cuts []int
		for i, n := 0, rapid.IntRange(0, 2).Draw(t, "ncuts"); i < n; i++ {
			cuts = append(cuts, rapid.IntRange(1, total).Draw(t, "cut"))
		}
		if len(cuts) == 2 && cuts[0] > cuts[1] {
			cuts[0], cuts[1] = cuts[1], cuts[0]
		}
		handshake := rapid.Bool().Draw(t, "handshake")
		accepted := serverCase(t, cfg, suffix, cuts, handshake)
		ev.Eval()
		sameSegment := len(cuts) == 0 || cuts[0] > len("x STARTTLS\r\n")
		if accepted && suffix != "" {
			ev.NonTrivial(fmt.Sprint("srv", cfg, suffix, cuts, handshake))
			if sameSegment {
				ev.Class("server:suffix-in-same-segment-as-STARTTLS")
			} else {
				ev.Class("server:suffix-in-later-segment")
			}
		}
		ev.Class(fmt.Sprintf("server:accepted=%v", accepted))
		ev.Sample(fmt.Sprintf("server [%s] suffix=%q cuts=%v handshake=%v", cfg, suffix, cuts, handshake))
	})
}

// TestEnumServerSplits: every way of splitting "x STARTTLS CRLF" + suffix into
// <=2 writes, for each short suffix (exhaustive).
func TestEnumServerSplits(t *testing.T) {
	cfg := sconfig{tlsConfig: true, insecureAuth: true}
	var n int64
	for _, suffix := range []string{"y LOGIN injuser injpass\r\n", "z NOOP\r\n", "y LOG"} {
		total := len("x STARTTLS\r\n") + len(suffix)
		for cut := 0; cut < total; cut++ {
			for _, hs := range []bool{false, true} {
				var cuts []int
				if cut > 0 {
					cuts = []int{cut}
				}
				serverCase(t, cfg, suffix, cuts, hs)
				n++
				ev.NonTrivial(fmt.Sprint("enum", suffix, cut, hs))
			}
		}
	}
	ev.EvalN(n)
	ev.ClassN("server:enum-splits", n)
	ev.Set("enum_server_splits", "every split point of 'x STARTTLS CRLF'+suffix into <=2 writes for 3 suffixes x {handshake, none}: complete")
}

// ---------------------------------------------------------------- client side

type cconfig struct {
	greeting  string // OK, OKCAP, PREAUTH, BYE
	answer    string // OK, NO, BAD
	injected  string // plaintext after the STARTTLS OK line
	sameWrite bool
	handshake string // real, garbage, none
	dial      bool   // enter through imapclient.DialStartTLS over loopback TCP instead of NewStartTLS over a pipe
}

func (c cconfig) String() string {
	return fmt.Sprintf("greeting=%s answer=%s injected=%q sameWrite=%v handshake=%s dial=%v", c.greeting, c.answer, c.injected, c.sameWrite, c.handshake, c.dial)
}

func clientCase(t fataler, cfg cconfig) (upgraded bool) {
	var cEnd, sEnd net.Conn
	var ln net.Listener
	if cfg.dial {
		var err error
		if ln, err = net.Listen("tcp", "127.0.0.1:0"); err != nil {
			cfg.dial = false // no loopback here: use the pipe
		} else {
			defer ln.Close()
		}
	}
	if !cfg.dial {
		a, b := pipe.New()
		cEnd, sEnd = a, b
	}
	var hist []string
	var hmu sync.Mutex
	logf := func(f string, a ...any) {
		hmu.Lock()
		hist = append(hist, fmt.Sprintf(f, a...))
		hmu.Unlock()
	}
	fail := func(f string, a ...any) {
		hmu.Lock()
		defer hmu.Unlock()
		t.Fatalf("[%s] %s\nscript: %s", cfg, fmt.Sprintf(f, a...), strings.Join(hist, " | "))
	}
	var mboxUpdates, expunges int
	var umu sync.Mutex
	opts := &imapclient.Options{
		TLSConfig: tlsutil.ClientConfig(),
		UnilateralDataHandler: &imapclient.UnilateralDataHandler{
			Mailbox: func(*imapclient.UnilateralDataMailbox) { umu.Lock(); mboxUpdates++; umu.Unlock() },
			Expunge: func(uint32) { umu.Lock(); expunges++; umu.Unlock() },
		},
	}
	scriptDone := make(chan struct{})
	var tlsServer *tls.Conn
	go func() {
		defer close(scriptDone)
		if cfg.dial {
			c, err := ln.Accept()
			if err != nil {
				logf("accept: %v", err)
				return
			}
			sEnd = c
			defer c.Close()
		}
		switch cfg.greeting {
		case "OK":
			sEnd.Write([]byte("* OK hello\r\n"))
		case "OKCAP":
			sEnd.Write([]byte("* OK [CAPABILITY IMAP4rev1 STARTTLS LOGINDISABLED] hello\r\n"))
		case "PREAUTH":
			sEnd.Write([]byte("* PREAUTH [CAPABILITY IMAP4rev1 STARTTLS] welcome back\r\n"))
		case "BYE":
			sEnd.Write([]byte("* BYE go away\r\n"))
		}
		rd := &tok.Reader{R: sEnd, Server: false}
		var l *tok.Line
		for {
			// the client may fetch the capabilities first (greeting without a
			// CAPABILITY code), depending on scheduling
			sEnd.SetReadDeadline(time.Now().Add(3 * time.Second))
			var err error
			l, err = rd.ReadLine()
			if err != nil {
				logf("no STARTTLS command: %v", err)
				return
			}
			logf("C: %s", strings.TrimSpace(string(l.Raw)))
			if len(l.Toks) >= 3 && strings.EqualFold(l.Toks[2].S, "CAPABILITY") {
				sEnd.Write([]byte("* CAPABILITY IMAP4rev1 STARTTLS LOGINDISABLED\r\n" + l.Toks[0].S + " OK caps\r\n"))
				continue
			}
			break
		}
		if len(l.Toks) < 3 || !strings.EqualFold(l.Toks[2].S, "STARTTLS") {
			logf("unexpected command")
			return
		}
		tag := l.Toks[0].S
		line := fmt.Sprintf("%s %s starttls\r\n", tag, cfg.answer)
		if cfg.sameWrite {
			sEnd.Write([]byte(line + cfg.injected))
		} else {
			sEnd.Write([]byte(line))
			time.Sleep(500 * time.Microsecond)
			if cfg.injected != "" {
				sEnd.Write([]byte(cfg.injected))
			}
		}
		if cfg.answer != "OK" {
			return
		}
		switch cfg.handshake {
		case "real":
			pc := &prefixConn{Conn: sEnd, prefix: rd.Rest()}
			tlsServer = tls.Server(pc, tlsutil.ServerConfig())
			sEnd.SetDeadline(time.Now().Add(3 * time.Second))
			err := tlsServer.Handshake()
			sEnd.SetDeadline(time.Time{})
			logf("server handshake: %v", err)
			if err != nil {
				return
			}
			// inside TLS: answer commands
			tr := &tok.Reader{R: tlsServer, Server: false}
			for {
				sEnd.SetReadDeadline(time.Now().Add(2 * time.Second))
				l, err := tr.ReadLine()
				if err != nil {
					return
				}
				logf("C(tls): %s", strings.TrimSpace(string(l.Raw)))
				tag := l.Toks[0].S
				switch strings.ToUpper(l.Toks[2].S) {
				case "CAPABILITY":
					tlsServer.Write([]byte("* CAPABILITY IMAP4rev1 AUTH=PLAIN XINSIDETLS\r\n" + tag + " OK done\r\n"))
				default:
					tlsServer.Write([]byte(tag + " OK done\r\n"))
				}
			}
		case "garbage":
			sEnd.Write([]byte("this is not a TLS record at all\r\n* OK [CAPABILITY IMAP4rev1 XINJECTED] hi\r\n"))
			time.Sleep(time.Millisecond)
			sEnd.Close()
		case "none":
			// a silent peer is a stall (property C10); here the peer goes away
			time.Sleep(time.Millisecond)
			sEnd.Close()
		}
	}()
	type res struct {
		c   *imapclient.Client
		err error
	}
	resCh := make(chan res, 1)
	go func() {
		if cfg.dial {
			c, err := imapclient.DialStartTLS(ln.Addr().String(), opts)
			resCh <- res{c, err}
			return
		}
		c, err := imapclient.NewStartTLS(cEnd, opts)
		resCh <- res{c, err}
	}()
	var r res
	select {
	case r = <-resCh:
	case <-time.After(8 * time.Second):
		fail("NewStartTLS did not return within 8s")
	}
	logf("NewStartTLS -> err=%v", r.err)
	expectErr := cfg.greeting == "PREAUTH" || cfg.greeting == "BYE" || cfg.answer != "OK"
	if expectErr && r.err == nil {
		r.c.Close()
		fail("NewStartTLS/DialStartTLS succeeded although the greeting was %s / the STARTTLS answer was %s", cfg.greeting, cfg.answer)
	}
	if r.err == nil {
		c := r.c
		// nothing injected in plaintext may ever surface
		done := make(chan struct{})
		var caps imap.CapSet
		var noopErr error
		go func() {
			defer close(done)
			caps = c.Caps()
			noopErr = c.Noop().Wait()
		}()
		select {
		case <-done:
		case <-time.After(8 * time.Second):
			c.Close()
			fail("Caps()/Noop().Wait() did not return within 8s after the upgrade")
		}
		if caps.Has("XINJECTED") {
			fail("a capability injected in plaintext after STARTTLS is reported by Caps(): %v", caps)
		}
		clean := cfg.injected == "" && cfg.handshake == "real"
		if clean {
			if noopErr != nil || !caps.Has("XINSIDETLS") {
				fail("clean upgrade: NOOP err=%v caps=%v", noopErr, caps)
			}
			upgraded = true
		} else if noopErr == nil {
			fail("a command completed successfully although the TLS handshake cannot have succeeded (injected=%q handshake=%s): plaintext was interpreted as IMAP", cfg.injected, cfg.handshake)
		}
		c.Close()
	}
	if cEnd != nil {
		cEnd.Close()
	}
	if ln != nil {
		ln.Close()
	}
	if !cfg.dial {
		sEnd.Close()
	}
	<-scriptDone
	umu.Lock()
	defer umu.Unlock()
	// (when STARTTLS is refused the connection stays in plaintext and the data
	// after the refusal is ordinary plaintext traffic)
	if cfg.answer == "OK" && (mboxUpdates != 0 || expunges != 0) {
		fail("unilateral data injected in plaintext was delivered to the handlers (mailbox=%d expunge=%d)", mboxUpdates, expunges)
	}
	return upgraded
}

var injections = []string{"", "", "* CAPABILITY IMAP4rev1 AUTH=PLAIN XINJECTED\r\n", "* 5 EXISTS\r\n* 1 EXPUNGE\r\n", "T2 OK done\r\nT3 OK done\r\n",
	"* OK [CAPABILITY IMAP4rev1 XINJECTED] x\r\nT2 OK [CAPABILITY IMAP4rev1 XINJECTED] done\r\nT3 OK done\r\nT4 OK done\r\n", "* CAPABILITY IMAP4rev1 XINJECTED\r\nT2 OK done\r\n* 7 EXISTS\r\nT3 OK done\r\n"}

func TestPropClientBoundary(t *testing.T) {
	rapid.Check(t, func(t *rapid.T) {
		cfg := cconfig{
			greeting:  rapid.SampledFrom([]string{"OK", "OK", "OKCAP", "OKCAP", "PREAUTH", "BYE"}).Draw(t, "greeting"),
			answer:    rapid.SampledFrom([]string{"OK", "OK", "OK", "OK", "NO", "BAD"}).Draw(t, "answer"),
			injected:  rapid.SampledFrom(injections).Draw(t, "injected"),
			sameWrite: rapid.Bool().Draw(t, "sameWrite"),
			handshake: rapid.SampledFrom([]string{"real", "real", "garbage", "none"}).Draw(t, "handshake"),
			dial:      rapid.IntRange(0, 3).Draw(t, "dial") == 0,
		}
		up := clientCase(t, cfg)
		ev.Eval()
		if cfg.injected != "" && cfg.answer == "OK" && cfg.greeting != "BYE" {
			ev.NonTrivial("cli:" + cfg.String())
			if cfg.sameWrite {
				ev.Class("client:injected-in-same-write-as-OK")
			}
		}
		ev.Class("client:greeting=" + cfg.greeting)
		if up {
			ev.Class("client:clean-upgrade")
		}
		ev.Sample("client " + cfg.String())
	})
}

func TestReplayScenarios(t *testing.T) {
	for _, cfg := range []sconfig{{tlsConfig: true}, {tlsConfig: true, insecureAuth: true}, {}, {insecureAuth: true}, {tlsConfig: true, insecureAuth: true, afterLogin: true}, {tlsConfig: true, afterLogin: true},
		{tlsConfig: true, afterLogin: true, sasl: true, authCmd: true}, {afterLogin: true, sasl: true, authCmd: true}, {tlsConfig: true, insecureAuth: true, afterLogin: true, sasl: true, authCmd: true},
		{afterLogin: true, sasl: true, authCmd: true, otherMech: true}, {tlsConfig: true, afterLogin: true, sasl: true, authCmd: true, otherMech: true}, {insecureAuth: true, afterLogin: true, authCmd: true, otherMech: true},
		{rev2Only: true}, {rev2Only: true, tlsConfig: true, afterLogin: true}, {preauth: true, afterLogin: true}, {preauth: true, tlsConfig: true, afterLogin: true, sasl: true, authCmd: true}, {preauth: true, rev2Only: true, afterLogin: true}} {
		for _, sfx := range []string{"", "y LOGIN injuser injpass\r\n"} {
			for _, hs := range []bool{true, false} {
				serverCase(t, cfg, sfx, nil, hs)
				ev.Eval()
			}
		}
	}
	for _, g := range []string{"OK", "OKCAP", "PREAUTH", "BYE"} {
		for _, inj := range []string{"", injections[5]} {
			clientCase(t, cconfig{greeting: g, answer: "OK", injected: inj, sameWrite: true, handshake: "real"})
			clientCase(t, cconfig{greeting: g, answer: "OK", injected: inj, sameWrite: true, handshake: "real", dial: true})
			ev.EvalN(2)
		}
	}
}
