// Package c20 decides property C20: LIST wildcard matching follows IMAP
// semantics. Oracle: an anchored regular expression built from the resolved
// pattern, cross-checked by an independent dynamic-programming matcher.
package c20

import (
	"fmt"
	"os"
	"regexp"
	"strconv"
	"strings"
	"testing"
	"time"

	"github.com/emersion/go-imap/v2/imapserver"
	"github.com/emersion/go-imap/v2/verifh/kit/ev"
	"pgregory.net/rapid"
)

func TestMain(m *testing.M) { ev.Main(m) }

// resolve applies the reference rule fixed by the repository's TestMatchList:
// a pattern starting with the delimiter is absolute (the delimiter is
// dropped); otherwise a non-empty reference, completed with the delimiter if
// missing, is a literal prefix of the name.
func resolve(name string, delim rune, ref, pattern string) (rest string, pat string, ok bool) {
	d := ""
	if delim != 0 {
		d = string(delim)
	}
	if d != "" && strings.HasPrefix(pattern, d) {
		ref = ""
		pattern = pattern[len(d):]
	}
	if ref != "" {
		if d != "" && !strings.HasSuffix(ref, d) {
			ref += d
		}
		if !strings.HasPrefix(name, ref) {
			return "", "", false
		}
		name = name[len(ref):]
	}
	return name, pattern, true
}

func patternRegexp(pattern string, delim rune) *regexp.Regexp {
	var sb strings.Builder
	sb.WriteString(`(?s)\A`)
	for _, r := range pattern {
		switch r {
		case '*':
			sb.WriteString(`.*`)
		case '%':
			if delim == 0 {
				sb.WriteString(`.*`)
			} else {
				sb.WriteString(`[^` + regexp.QuoteMeta(string(delim)) + `]*`)
			}
		default:
			sb.WriteString(regexp.QuoteMeta(string(r)))
		}
	}
	sb.WriteString(`\z`)
	return regexp.MustCompile(sb.String())
}

// dpMatch: second, independent reference (rune-wise dynamic programming).
func dpMatch(name, pattern string, delim rune) bool {
	n, p := []rune(name), []rune(pattern)
	dp := make([][]bool, len(p)+1)
	for i := range dp {
		dp[i] = make([]bool, len(n)+1)
	}
	dp[0][0] = true
	for i := 1; i <= len(p); i++ {
		for j := 0; j <= len(n); j++ {
			switch p[i-1] {
			case '*':
				dp[i][j] = dp[i-1][j] || (j > 0 && dp[i][j-1])
			case '%':
				dp[i][j] = dp[i-1][j] || (j > 0 && dp[i][j-1] && (delim == 0 || n[j-1] != delim))
			default:
				dp[i][j] = j > 0 && dp[i-1][j-1] && n[j-1] == p[i-1]
			}
		}
	}
	return dp[len(p)][len(n)]
}

type fataler interface {
	Fatalf(format string, args ...any)
}

var slowest time.Duration
var slowestCase string

func expect(name string, delim rune, ref, pattern string) bool {
	rest, pat, ok := resolve(name, delim, ref, pattern)
	if !ok {
		return false
	}
	return dpMatch(rest, pat, delim)
}

func checkOne(t fataler, name string, delim rune, ref, pattern string, re *regexp.Regexp) bool {
	want := expect(name, delim, ref, pattern)
	if re != nil {
		// cross-check of the two references (a disagreement is a harness bug)
		if rest, _, ok := resolve(name, delim, ref, pattern); ok {
			if re.MatchString(rest) != want {
				t.Fatalf("HARNESS: reference matchers disagree on name=%q delim=%q ref=%q pattern=%q", name, delim, ref, pattern)
			}
		}
	}
	t0 := time.Now()
	got := imapserver.MatchList(name, delim, ref, pattern)
	if d := time.Since(t0); d > slowest {
		slowest, slowestCase = d, fmt.Sprintf("name=%q pattern=%q", name, pattern)
	}
	if got != want {
		t.Fatalf("MatchList(name=%q, delim=%q, ref=%q, pattern=%q) = %v, want %v", name, delim, ref, pattern, got, want)
	}
	return want
}

func envInt(k string, def int) int {
	if v, err := strconv.Atoi(os.Getenv(k)); err == nil {
		return v
	}
	return def
}

var alphabet = []string{"a", "b", "/", ".", "*", "%", "é", "香"}

func allStrings(maxLen int) []string {
	out := []string{""}
	prev := []string{""}
	for l := 1; l <= maxLen; l++ {
		var cur []string
		for _, p := range prev {
			for _, a := range alphabet {
				cur = append(cur, p+a)
			}
		}
		out = append(out, cur...)
		prev = cur
	}
	return out
}

var enumDelims = []rune{'/', '.', 0, 'é'}
var enumRefs = []string{"", "a", "a/", "a/b", "*", "é", "a."}

// TestEnumSmallScope: exhaustive over names x patterns (length <=3 quick, <=4
// thorough) x delimiters with the empty reference, and (one length shorter)
// x all references.
func TestEnumSmallScope(t *testing.T) {
	maxLen := 3
	if ev.Thorough() {
		maxLen = 4
	}
	shard, nshard := envInt("VERIF_SHARD", 0), envInt("VERIF_NSHARD", 1)
	names := allStrings(maxLen)
	pats := allStrings(maxLen)
	var count, nontriv int64
	for pi, pat := range pats {
		if pi%nshard != shard {
			continue
		}
		hasWild := strings.ContainsAny(pat, "*%")
		for _, d := range enumDelims {
			_, rpat, _ := resolve("", d, "", pat)
			re := patternRegexp(rpat, d)
			for _, name := range names {
				checkOne(t, name, d, "", pat, re)
				count++
				if hasWild && d != 0 && strings.ContainsRune(name, d) {
					nontriv++
					if len(pat) <= 3 && len(name) <= 4 {
						ev.NonTrivial(fmt.Sprint(name, "|", d, "|", pat))
					}
				}
			}
		}
	}
	shortNames, shortPats := allStrings(maxLen-1), allStrings(maxLen-1)
	for pi, pat := range shortPats {
		if pi%nshard != shard {
			continue
		}
		for _, d := range enumDelims {
			for _, ref := range enumRefs {
				if ref == "" {
					continue
				}
				for _, name := range shortNames {
					for _, nm := range []string{name, ref + name, ref + string(orSlash(d)) + name} {
						checkOne(t, nm, d, ref, pat, nil)
						count++
					}
				}
			}
		}
	}
	ev.EvalN(count)
	ev.ClassN("enum:cases", count)
	ev.ClassN("enum:wildcard-and-delimiter-in-name", nontriv)
	ev.Set("enum_small_scope", fmt.Sprintf("names x patterns of <=%d symbols over %v x delimiters %q with empty reference; <=%d symbols x references %q: complete", maxLen, alphabet, enumDelims, maxLen-1, enumRefs))
	ev.Set("slowest_call", fmt.Sprintf("%v on %s (reported, not judged)", slowest, slowestCase))
}

func orSlash(d rune) rune {
	if d == 0 {
		return '/'
	}
	return d
}

func genStr(t *rapid.T, label string, max int) string {
	n := rapid.IntRange(0, max).Draw(t, label+"n")
	var sb strings.Builder
	for i := 0; i < n; i++ {
		sb.WriteString(rapid.SampledFrom(alphabet).Draw(t, label))
	}
	return sb.String()
}

// TestPropRandom: random names/patterns up to length 12, derived names that
// are likely to match (pattern with wildcards expanded), all delimiters and
// references.
func TestPropRandom(t *testing.T) {
	rapid.Check(t, func(t *rapid.T) {
		delim := rapid.SampledFrom([]rune{'/', '/', '.', 0, 'é', '香'}).Draw(t, "delim")
		ref := rapid.SampledFrom([]string{"", "", "", "a", "a/", "a/b", "*", "a.", "é"}).Draw(t, "ref")
		pattern := genStr(t, "p", 12)
		var name string
		if rapid.Bool().Draw(t, "derive") {
			// expand wildcards of the resolved pattern so that matches are frequent
			_, rp, _ := resolve("", delim, "", pattern)
			var sb strings.Builder
			for _, r := range rp {
				if r == '*' || r == '%' {
					sb.WriteString(genStr(t, "fill", 3))
				} else {
					sb.WriteRune(r)
				}
			}
			name = sb.String()
			if ref != "" && !(delim != 0 && strings.HasPrefix(pattern, string(delim))) {
				pre := ref
				if delim != 0 && !strings.HasSuffix(pre, string(delim)) {
					pre += string(delim)
				}
				name = pre + name
			}
		} else {
			name = genStr(t, "n", 12)
		}
		want := checkOne(t, name, delim, ref, pattern, nil)
		ev.Eval()
		if strings.ContainsAny(pattern, "*%") && delim != 0 && strings.ContainsRune(name, delim) {
			ev.NonTrivial(fmt.Sprint(name, "|", delim, "|", ref, "|", pattern))
		}
		ev.Class(fmt.Sprintf("match=%v", want))
		if ref != "" {
			ev.Class("with-reference")
		}
		if delim > 0x7f {
			ev.Class("non-ascii-delimiter")
		}
		ev.Sample(fmt.Sprintf("MatchList(%q, %q, %q, %q) = %v", name, delim, ref, pattern, want))
	})
}

func TestReplayRegressions(t *testing.T) {
	cases := []struct {
		name     string
		delim    rune
		ref, pat string
		want     bool
	}{
		{"INBOX", '/', "", "*", true}, {"a/b", '/', "", "%", false}, {"a/b", '/', "", "%/%", true}, {"a/b", 0, "", "%", true},
		{"Misato/Misato", '/', "Shinji", "/Misato/*", true}, {"Misato/Misato", '/', "Misato", "/Misato", false},
		{"香", 'é', "", "%", true}, {"aéb", 'é', "", "%", false}, {"aéb", 'é', "", "%é%", true}, {"aéb", 'é', "", "*", true},
		{"a", '/', "", "", false}, {"", '/', "", "", true}, {"", '/', "", "*", true}, {"/", '/', "", "/", false}, {"/", '/', "", "//", true},
	}
	for _, c := range cases {
		if expect(c.name, c.delim, c.ref, c.pat) != c.want {
			t.Fatalf("HARNESS: reference gives %v for %+v", !c.want, c)
		}
		checkOne(t, c.name, c.delim, c.ref, c.pat, nil)
		ev.Eval()
	}
}
