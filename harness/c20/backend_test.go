package c20

// LIST through the server and the in-memory backend (anchor
// imapserver/imapmemserver/user.go): the set of names a LIST command returns
// must be exactly the created mailboxes that the reference matcher accepts.

import (
	"fmt"
	"sort"
	"strings"
	"sync"
	"testing"

	imap "github.com/emersion/go-imap/v2"
	"github.com/emersion/go-imap/v2/imapserver"
	"github.com/emersion/go-imap/v2/imapserver/imapmemserver"
	"github.com/emersion/go-imap/v2/verifh/kit/ev"
	"github.com/emersion/go-imap/v2/verifh/kit/refutf7"
	"github.com/emersion/go-imap/v2/verifh/kit/srv"
	"github.com/emersion/go-imap/v2/verifh/kit/tok"
	"pgregory.net/rapid"
)

var (
	memOnce sync.Once
	memSrv  *imapmemserver.Server
	memEnv  *srv.Env
	userN   int
	memMu   sync.Mutex
)

func memEnvGet() (*imapmemserver.Server, *srv.Env) {
	memOnce.Do(func() {
		memSrv = imapmemserver.New()
		memEnv = srv.Start(imapserver.Options{
			NewSession: func(*imapserver.Conn) (imapserver.Session, *imapserver.GreetingData, error) {
				return memSrv.NewSession(), nil, nil
			},
			InsecureAuth: true,
			Caps:         imap.CapSet{imap.CapIMAP4rev1: {}, imap.CapIMAP4rev2: {}},
		})
	})
	return memSrv, memEnv
}

func quote(s string) string {
	return `"` + strings.NewReplacer(`\`, `\\`, `"`, `\"`).Replace(s) + `"`
}

var nameAlphabet = []string{"a", "b", "c", "/", ".", "é", "香", "-", " "}

func genName(t *rapid.T, label string) string {
	n := rapid.IntRange(1, 7).Draw(t, label+"n")
	var sb strings.Builder
	for i := 0; i < n; i++ {
		sb.WriteString(rapid.SampledFrom(nameAlphabet).Draw(t, label))
	}
	s := strings.TrimRight(sb.String(), "/") // CREATE strips trailing delimiters
	if s == "" || strings.EqualFold(s, "inbox") {
		s = "x"
	}
	return s
}

func listNames(t fataler, raw *srv.Raw, tag, ref, pattern string) []string {
	cmd := fmt.Sprintf("LIST %s %s", quote(refutf7.Encode(ref)), quote(refutf7.Encode(pattern)))
	lines, st, err := raw.Cmd(tag, cmd)
	if err != nil || st.Status != "OK" {
		t.Fatalf("%q failed: %v %v", cmd, st, err)
	}
	var names []string
	for _, l := range lines {
		tr, err := tok.Tree(l.Toks)
		if err != nil || len(tr) != 5 || !tr[1].IsAtom("LIST") {
			t.Fatalf("unexpected LIST response line %q", l.Raw)
		}
		n, why := refutf7.Decode(tr[4].Str())
		if why != "" {
			t.Fatalf("LIST returned a name that is not valid modified UTF-7: %q (%s)", tr[4].Str(), why)
		}
		names = append(names, n)
	}
	sort.Strings(names)
	return names
}

func TestPropListBackend(t *testing.T) {
	rapid.Check(t, func(t *rapid.T) {
		ms, env := memEnvGet()
		memMu.Lock()
		userN++
		uname := fmt.Sprintf("u%d", userN)
		memMu.Unlock()
		user := imapmemserver.NewUser(uname, "pw")
		ms.AddUser(user)
		created := map[string]bool{}
		for i, n := 0, rapid.IntRange(1, 8).Draw(t, "nmbox"); i < n; i++ {
			name := genName(t, "mbox")
			if !created[name] {
				if err := user.Create(name, nil); err != nil {
					t.Fatalf("Create(%q): %v", name, err)
				}
				created[name] = true
			}
		}
		raw := env.Dial()
		defer raw.Close()
		if _, err := raw.Greeting(); err != nil {
			t.Fatalf("greeting: %v", err)
		}
		if _, st, err := raw.Cmd("l", "LOGIN "+uname+" pw"); err != nil || st.Status != "OK" {
			t.Fatalf("login: %v %v", st, err)
		}
		var all []string
		for n := range created {
			all = append(all, n)
		}
		sort.Strings(all)
		for q, nq := 0, rapid.IntRange(1, 5).Draw(t, "nqueries"); q < nq; q++ {
			ref := rapid.SampledFrom([]string{"", "", "", "a", "a/", "a/b", "é", "b."}).Draw(t, "ref")
			if rapid.IntRange(0, 5).Draw(t, "refFromName") == 3 {
				base := rapid.SampledFrom(all).Draw(t, "refbase")
				ref = base[:rapid.IntRange(0, len(base)).Draw(t, "refcut")]
				for !utf8ok(ref) {
					ref = ref[:len(ref)-1]
				}
				if strings.EqualFold(ref, "inbox") {
					ref = ""
				}
			}
			var pattern string
			switch rapid.IntRange(0, 3).Draw(t, "pk") {
			case 0:
				pattern = rapid.SampledFrom([]string{"*", "%", "%/%", "*/*", "/*", "/%", "%*", "*%", "a*", "%b", "/a", "/a/%"}).Draw(t, "ppool")
			case 1:
				// a created name with some characters replaced by wildcards, optionally absolute
				base := []rune(rapid.SampledFrom(all).Draw(t, "pbase"))
				var sb strings.Builder
				if rapid.IntRange(0, 3).Draw(t, "abs") == 2 {
					sb.WriteString("/")
				}
				for _, r := range base {
					switch rapid.IntRange(0, 5).Draw(t, "pw") {
					case 4:
						sb.WriteString("*")
					case 5:
						sb.WriteString("%")
					default:
						sb.WriteRune(r)
					}
				}
				pattern = sb.String()
			default:
				pattern = genStr(t, "p", 6)
			}
			if pattern == "" {
				pattern = "%"
			}
			got := listNames(t, raw, fmt.Sprintf("q%d", q), ref, pattern)
			var want []string
			for _, n := range all {
				if expect(n, '/', ref, pattern) {
					want = append(want, n)
				}
			}
			if fmt.Sprint(got) != fmt.Sprint(want) {
				t.Fatalf("LIST %q %q over mailboxes %q returned %q, the reference matcher selects %q", ref, pattern, all, got, want)
			}
			ev.Eval()
			if strings.ContainsAny(pattern, "*%") && len(want) > 0 && len(want) < len(all) {
				ev.NonTrivial(fmt.Sprint("backend|", all, "|", ref, "|", pattern))
			}
			ev.Class("backend-list")
			if !strings.ContainsAny(pattern, "*%") {
				ev.Class("backend-list:no-wildcard")
			}
			if strings.HasPrefix(pattern, "/") {
				ev.Class("backend-list:absolute-pattern")
			}
			if ref != "" {
				ev.Class("backend-list:with-reference")
			}
			ev.Sample(fmt.Sprintf("LIST %q %q over %q -> %q", ref, pattern, all, got))
		}
	})
}

func utf8ok(s string) bool { return strings.ToValidUTF8(s, "\x00") == s }
