package c01

import (
	"bufio"
	"bytes"
	"fmt"
	"strings"
	"testing"

	"github.com/emersion/go-imap/v2"
	"github.com/emersion/go-imap/v2/internal"
	"github.com/emersion/go-imap/v2/internal/imapwire"
	"github.com/emersion/go-imap/v2/verifh/kit/ev"
	"github.com/emersion/go-imap/v2/verifh/kit/gen"
	"github.com/emersion/go-imap/v2/verifh/kit/tok"
	"pgregory.net/rapid"
)

// The flag / mailbox-attribute domain of TestPropRoundTrip is "syntactically
// valid ASCII". This file quantifies over ARBITRARY flag strings instead and
// uses the two-sided oracle of the statement: what the encoder accepts the
// peer decodes to the same value (modulo ASCII case normalisation of the
// well-known names), and what it does not accept is refused with nothing
// complete on the wire.
//
// Which strings MUST be accepted / refused is decided independently of the
// code: RFC 9051 flag = "\" atom / atom over 7-bit ATOM-CHARs. 8-bit bytes are
// outside the RFC grammar; the library is lenient about some of them, so for
// those either answer is allowed - but it must be the same answer on both
// ends (accepted => decodes back).

func asciiAtomChar(ch byte) bool {
	if ch <= ' ' || ch >= 0x7f {
		return false
	}
	return !strings.ContainsRune("(){%*\"\\]", rune(ch))
}

// flagVerdict: +1 must be accepted, -1 must be refused, 0 either (8-bit).
func flagVerdict(s string, attr bool) int {
	if s == "\\*" {
		if attr {
			return -1
		}
		return +1
	}
	body := s
	if strings.HasPrefix(body, "\\") {
		body = body[1:]
	} else if attr {
		return -1
	}
	if body == "" {
		return -1
	}
	eight := false
	for i := 0; i < len(body); i++ {
		ch := body[i]
		if ch >= 0x80 {
			eight = true
		} else if !asciiAtomChar(ch) {
			return -1
		}
	}
	if eight {
		return 0
	}
	return +1
}

var foldVariants = map[rune][]string{
	's': {"ſ"}, 'S': {"ſ"},
	'i': {"İ", "ı"}, 'I': {"İ", "ı"},
	'k': {"K"}, 'K': {"K"},
	'a': {"å", "а"}, 'e': {"é", "е"},
}

var utf8Words = []string{"Größe", "Übung", "Ärger", "ÀFaire", "Привет", "étiquette", "日本語", "ſeen", "Ελληνικά", "naïve", "À", "ß"}

func genAnyFlag(t *rapid.T, label string, attr bool) string {
	wk := gen.WellKnownFlags
	if attr || rapid.Bool().Draw(t, label+".tbl") {
		wk = append(append([]string{}, gen.WellKnownFlags...), gen.WellKnownAttrs...)
	}
	switch rapid.IntRange(0, 6).Draw(t, label+".how") {
	case 0:
		// a well-known name with one letter replaced by a non-ASCII
		// look-alike that Unicode case folding maps onto it
		base := []rune(rapid.SampledFrom(wk).Draw(t, label+".wk"))
		var idx []int
		for i, r := range base {
			if _, ok := foldVariants[r]; ok {
				idx = append(idx, i)
			}
		}
		if len(idx) == 0 {
			return string(base)
		}
		i := rapid.SampledFrom(idx).Draw(t, label+".pos")
		v := rapid.SampledFrom(foldVariants[base[i]]).Draw(t, label+".var")
		s := string(base[:i]) + v + string(base[i+1:])
		if rapid.Bool().Draw(t, label+".recase") {
			s = strings.ToUpper(s[:2]) + s[2:]
		}
		return s
	case 1:
		return rapid.SampledFrom([]string{"", "\\", "$"}).Draw(t, label+".pfx") + rapid.SampledFrom(utf8Words).Draw(t, label+".word")
	case 2:
		b := byte(rapid.IntRange(0, 255).Draw(t, label+".byte"))
		return rapid.SampledFrom([]string{"", "\\", "$"}).Draw(t, label+".pfx") + "x" + string([]byte{b}) + "y"
	case 3:
		n := rapid.IntRange(1, 5).Draw(t, label+".n")
		b := make([]byte, n)
		for i := range b {
			b[i] = byte(rapid.IntRange(0, 255).Draw(t, label+".b"))
		}
		return rapid.SampledFrom([]string{"", "\\"}).Draw(t, label+".pfx") + string(b)
	case 4:
		return rapid.SampledFrom(gen.InvalidFlags).Draw(t, label+".bad")
	case 5:
		if attr {
			return gen.ValidAttr(t, label+".valid")
		}
		return gen.ValidFlag(t, label+".valid")
	default:
		return rapid.SampledFrom([]string{"\\*", "NIL", "nil", "\\NIL", "+", "~", "a+b", "1", "\\1", "$", "a\x7fb", "[x", "x[", "a]"}).Draw(t, label+".odd")
	}
}

func TestPropAnyFlag(t *testing.T) { rapid.Check(t, propAnyFlag) }

func propAnyFlag(t *rapid.T) {
	c := genConfig(t)
	c.cont = "grant"
	attr := rapid.Bool().Draw(t, "attr")
	asList := rapid.Bool().Draw(t, "asList")
	n := 1
	if asList {
		n = rapid.IntRange(0, 3).Draw(t, "n")
	}
	var items []string
	for i := 0; i < n; i++ {
		items = append(items, genAnyFlag(t, fmt.Sprintf("f%d", i), attr))
	}
	verdict := +1
	for _, s := range items {
		switch v := flagVerdict(s, attr); {
		case v < 0:
			verdict = -1
		case v == 0 && verdict > 0:
			verdict = 0
		}
	}

	var buf bytes.Buffer
	e, bw := newEncoder(&buf, c)
	e.Atom("a").SP()
	one := func(s string) {
		if attr {
			e.MailboxAttr(imap.MailboxAttr(s))
		} else {
			e.Flag(imap.Flag(s))
		}
	}
	if asList {
		e.List(len(items), func(i int) { one(items[i]) })
	} else {
		one(items[0])
	}
	e.SP().Atom("z")
	err := e.CRLF()
	bw.Flush()
	out := append([]byte(nil), buf.Bytes()...)
	kind := "flag"
	if attr {
		kind = "attr"
	}
	ev.Eval()
	ev.NonTrivial(fmt.Sprintf("anyflag:%v:%v:%q", attr, asList, items))

	if err != nil {
		if verdict > 0 {
			t.Fatalf("[%s] encoder refused the valid %s(s) %q: %v", c, kind, items, err)
		}
		if bytes.Contains(out, []byte("\r\n")) {
			t.Fatalf("[%s] encoder reported %v for %s(s) %q but still emitted a line: %q", c, err, kind, items, out)
		}
		ev.Class(fmt.Sprintf("anyflag:refused (verdict %d)", verdict))
		return
	}
	if verdict < 0 {
		t.Fatalf("[%s] encoder accepted the malformed %s(s) %q and emitted %q", c, kind, items, out)
	}
	ev.Class(fmt.Sprintf("anyflag:accepted (verdict %d)", verdict))
	lines, rest, lerr := tok.All(out, false)
	if lerr != nil || len(rest) != 0 || len(lines) != 1 {
		t.Fatalf("[%s] %s(s) %q: emitted bytes are not exactly one line: %q", c, kind, items, out)
	}

	rd := bytes.NewReader(out)
	br := bufio.NewReader(rd)
	side := imapwire.ConnSideClient
	if c.clientToServer {
		side = imapwire.ConnSideServer
	}
	d := imapwire.NewDecoder(br, side)
	var a string
	if !d.ExpectAtom(&a) || a != "a" || !d.ExpectSP() {
		t.Fatalf("[%s] leading atom not decoded: %v; wire %q", c, d.Err(), out)
	}
	var got []string
	switch {
	case asList && attr:
		l, derr := internal.ExpectMailboxAttrList(d)
		if derr != nil {
			t.Fatalf("[%s] the encoder accepted attributes %q but the peer's decoder rejects them: %v; wire %q", c, items, derr, out)
		}
		for _, x := range l {
			got = append(got, string(x))
		}
	case asList:
		l, derr := internal.ExpectFlagList(d)
		if derr != nil {
			t.Fatalf("[%s] the encoder accepted flags %q but the peer's decoder rejects them: %v; wire %q", c, items, derr, out)
		}
		for _, x := range l {
			got = append(got, string(x))
		}
	case attr:
		x, derr := internal.ExpectMailboxAttr(d)
		if derr != nil {
			t.Fatalf("[%s] the encoder accepted attribute %q but the peer's decoder rejects it: %v; wire %q", c, items[0], derr, out)
		}
		got = []string{string(x)}
	default:
		x, derr := internal.ExpectFlag(d)
		if derr != nil {
			t.Fatalf("[%s] the encoder accepted flag %q but the peer's decoder rejects it: %v; wire %q", c, items[0], derr, out)
		}
		got = []string{string(x)}
	}
	if len(got) != len(items) {
		t.Fatalf("[%s] %d %s(s) %q decoded as %d: %q; wire %q", c, len(items), kind, items, len(got), got, out)
	}
	for i, s := range items {
		want := gen.CanonFlag(s)
		if attr {
			want = gen.CanonAttr(s)
		}
		if got[i] != want {
			t.Fatalf("[%s] %s %q decoded as %q, want %q (only ASCII case normalisation of well-known names is documented); wire %q", c, kind, s, got[i], want, out)
		}
		if want != s {
			ev.Class("anyflag:canonicalised")
		}
		if flagVerdict(s, attr) == 0 {
			ev.Class("anyflag:8-bit accepted and round-tripped")
		}
	}
	var z string
	if !d.ExpectSP() || !d.ExpectAtom(&z) || z != "z" || !d.ExpectCRLF() {
		t.Fatalf("[%s] after %s(s) %q the rest of the line was not decoded (%v): bytes consumed do not match bytes written; wire %q", c, kind, items, d.Err(), out)
	}
	if br.Buffered() != 0 || rd.Len() != 0 {
		t.Fatalf("[%s] %d bytes left unread after %s(s) %q", c, br.Buffered()+rd.Len(), kind, items)
	}
	ev.Sample(fmt.Sprintf("[%s] %s %q => %q", c, kind, items, clip(string(out))))
}

// TestPropRefusalTail: the refused value is FOLLOWED by further values,
// including synchronising literals (which flush the line so far and wait for
// the continuation, as Client.Append does after its flag list): the line
// must still be refused as a whole.
func TestPropRefusalTail(t *testing.T) {
	rapid.Check(t, func(t *rapid.T) {
		c := genConfig(t)
		c.cont = "grant"
		var before []val
		for i, n := 0, rapid.IntRange(0, 2).Draw(t, "nbefore"); i < n; i++ {
			before = append(before, val{kind: "atom", s: "x"})
		}
		var bad val
		what := rapid.SampledFrom([]string{"empty seq set", "empty uid set", "invalid flag", "invalid attr", "negative number64"}).Draw(t, "what")
		switch what {
		case "empty seq set":
			bad = val{kind: "emptyseqset"}
		case "empty uid set":
			bad = val{kind: "emptyuidset"}
		case "invalid flag":
			bad = val{kind: "flag", s: rapid.SampledFrom(gen.InvalidFlags).Draw(t, "badflag")}
		case "invalid attr":
			bad = val{kind: "attr", s: rapid.SampledFrom(append(append([]string{}, gen.InvalidFlags...), "Seen", "noslash", "\\*")).Draw(t, "badattr")}
		case "negative number64":
			bad = val{kind: "num64", n64: rapid.SampledFrom([]int64{-1, -4096, -1 << 63}).Draw(t, "neg")}
		}
		inList := rapid.Bool().Draw(t, "inList")
		var after []val
		tail := ""
		for i, n := 0, rapid.IntRange(1, 3).Draw(t, "nafter"); i < n; i++ {
			k := rapid.SampledFrom([]string{"atom", "string-literal", "explicit-literal", "num", "mailbox"}).Draw(t, "afterkind")
			tail += k + ","
			switch k {
			case "atom":
				after = append(after, val{kind: "atom", s: "y"})
			case "string-literal":
				after = append(after, val{kind: "string", s: rapid.SampledFrom([]string{"a\r\nb", "\x00", strings.Repeat("L", 4097)}).Draw(t, "lit")})
			case "explicit-literal":
				after = append(after, val{kind: "xliteral", s: rapid.SampledFrom([]string{"", "payload", strings.Repeat("P", 5000)}).Draw(t, "xlit")})
			case "num":
				after = append(after, val{kind: "num", n: 7})
			case "mailbox":
				after = append(after, val{kind: "mailbox", s: "Entwürfe"})
			}
		}

		var buf bytes.Buffer
		e, bw := newEncoder(&buf, c)
		for _, v := range before {
			encode(e, v)
			e.SP()
		}
		if inList {
			e.List(2, func(i int) {
				if i == 0 {
					e.Atom("k")
				} else {
					encode(e, bad)
				}
			})
		} else {
			encode(e, bad)
		}
		for _, v := range after {
			e.SP()
			if v.kind == "xliteral" {
				// the caller-driven form: errors of Write/Close are the
				// caller's to ignore, the verdict comes from CRLF
				var cr *imapwire.ContinuationRequest
				if c.clientToServer && syncRequired(len(v.s), c) {
					cr = e.NewContinuationRequest()
				}
				w := e.Literal(int64(len(v.s)), cr)
				w.Write([]byte(v.s))
				w.Close()
				continue
			}
			encode(e, v)
		}
		err := e.CRLF()
		bw.Flush()
		out := buf.Bytes()
		ev.Eval()
		ev.NonTrivial("refusetail:" + c.String() + what + bad.String() + tail)
		ev.Class("refusal-tail:" + what)
		if err == nil {
			t.Fatalf("[%s] a line with the unrepresentable %s (%s) followed by [%s] was accepted: CRLF() returned nil and %q went out", c, what, bad, tail, clip(string(out)))
		}
		if bytes.HasSuffix(out, []byte("\r\n")) {
			if lines, rest, lerr := tok.All(out, false); lerr == nil && len(rest) == 0 && len(lines) > 0 {
				t.Fatalf("[%s] encoder reported %v for %s followed by [%s] but still emitted the complete line %q", c, err, what, tail, clip(string(out)))
			}
		}
		ev.Sample(fmt.Sprintf("[%s] refuse %s %s then [%s] -> %v, wire %q", c, what, bad, tail, err, clip(string(out))))
	})
}

// TestReplayAnyFlag: the shrunk failures of TestPropAnyFlag as plain checks
// (F-C01c: U+0130 folded onto "i" by the canonicalisation of well-known
// names), plus the boundary cases of the accept-or-refuse oracle.
func TestReplayAnyFlag(t *testing.T) {
	type tc struct {
		s    string
		attr bool
		want string // "" = must be refused
	}
	cases := []tc{
		{"$Phİshing", false, "$Phİshing"},
		{"\\NonExİstent", true, "\\NonExİstent"},
		{"\\İmportant", true, "\\İmportant"},
		{"\\ſeen", false, "\\ſeen"},
		{"\\SEEN", false, "\\Seen"},
		{"$mdnsent", false, "$MDNSent"},
		{"\\noinferiors", true, "\\Noinferiors"},
		{"a b", false, ""},
		{"\\", false, ""},
		{"Seen", true, ""},
	}
	for _, c := range cases {
		var buf bytes.Buffer
		bw := bufio.NewWriter(&buf)
		e := imapwire.NewEncoder(bw, imapwire.ConnSideServer)
		if c.attr {
			e.MailboxAttr(imap.MailboxAttr(c.s))
		} else {
			e.Flag(imap.Flag(c.s))
		}
		err := e.CRLF()
		ev.Eval()
		if c.want == "" {
			if err == nil {
				t.Fatalf("malformed %q accepted: %q", c.s, buf.String())
			}
			continue
		}
		if err != nil {
			t.Fatalf("%q refused: %v", c.s, err)
		}
		d := imapwire.NewDecoder(bufio.NewReader(bytes.NewReader(buf.Bytes())), imapwire.ConnSideClient)
		var got string
		if c.attr {
			a, derr := internal.ExpectMailboxAttr(d)
			if derr != nil {
				t.Fatalf("%q: decoder: %v", c.s, derr)
			}
			got = string(a)
		} else {
			f, derr := internal.ExpectFlag(d)
			if derr != nil {
				t.Fatalf("%q: decoder: %v", c.s, derr)
			}
			got = string(f)
		}
		if got != c.want || !d.ExpectCRLF() {
			t.Fatalf("%q decoded as %q, want %q (F-C01c: only ASCII case is normalised)", c.s, got, c.want)
		}
	}
	ev.NonTrivial("replay:anyflag")
}
