// Package c01 decides property C01: wire encoder/decoder round-trip for every
// IMAP data value, under every encoder mode, on both connection sides.
// Oracle: round-trip through the peer's decoder with exact byte consumption,
// an independent canonicalisation table, and the independent tokenizer kit/tok
// judging the emitted bytes against the negotiated mode; unrepresentable
// values must be refused without emitting a complete malformed line.
package c01

import (
	"bufio"
	"bytes"
	"fmt"
	"io"
	"strings"
	"testing"
	"unicode/utf8"

	imap "github.com/emersion/go-imap/v2"
	"github.com/emersion/go-imap/v2/internal"
	"github.com/emersion/go-imap/v2/internal/imapwire"
	"github.com/emersion/go-imap/v2/verifh/kit/ev"
	"github.com/emersion/go-imap/v2/verifh/kit/gen"
	"github.com/emersion/go-imap/v2/verifh/kit/refutf7"
	"github.com/emersion/go-imap/v2/verifh/kit/tok"
	"pgregory.net/rapid"
)

func TestMain(m *testing.M) { ev.Main(m) }

type config struct {
	clientToServer bool
	quotedUTF8     bool
	literalMinus   bool
	literalPlus    bool
	cont           string // grant, cancel, none
}

func (c config) String() string {
	side := "server->client"
	if c.clientToServer {
		side = "client->server"
	}
	return fmt.Sprintf("%s utf8=%v lit-=%v lit+=%v cont=%s", side, c.quotedUTF8, c.literalMinus, c.literalPlus, c.cont)
}

type val struct {
	kind  string // string quoted atom mailbox flag attr num num64 modseq seqset uidset searchres nil list literal
	s     string
	dec   string // which decoder entry point to use for strings
	n     uint32
	n64   int64
	u64   uint64
	kids  []val
	class string
}

func (v val) String() string {
	switch v.kind {
	case "string", "quoted", "atom", "mailbox", "flag", "attr", "literal":
		s := v.s
		if len(s) > 40 {
			s = fmt.Sprintf("%q...(%d bytes)", s[:20], len(s))
			return v.kind + ":" + s
		}
		return fmt.Sprintf("%s:%q", v.kind, s)
	case "num":
		return fmt.Sprintf("num:%d", v.n)
	case "num64":
		return fmt.Sprintf("num64:%d", v.n64)
	case "modseq":
		return fmt.Sprintf("modseq:%d", v.u64)
	case "seqset", "uidset":
		return v.kind + ":" + v.s
	case "list":
		parts := make([]string, len(v.kids))
		for i, k := range v.kids {
			parts[i] = k.String()
		}
		return "(" + strings.Join(parts, " ") + ")"
	}
	return v.kind
}

func parseSeq(s string) imap.SeqSet {
	set, err := imapwire.ParseSeqSet(s)
	if err != nil {
		panic(err)
	}
	return set
}

func toUIDSet(s imap.SeqSet) imap.UIDSet {
	var u imap.UIDSet
	for _, r := range s {
		u = append(u, imap.UIDRange{Start: imap.UID(r.Start), Stop: imap.UID(r.Stop)})
	}
	return u
}

func encode(e *imapwire.Encoder, v val) {
	switch v.kind {
	case "string":
		e.String(v.s)
	case "quoted":
		e.Quoted(v.s)
	case "atom":
		e.Atom(v.s)
	case "mailbox":
		e.Mailbox(v.s)
	case "flag":
		e.Flag(imap.Flag(v.s))
	case "attr":
		e.MailboxAttr(imap.MailboxAttr(v.s))
	case "num":
		e.Number(v.n)
	case "num64":
		e.Number64(v.n64)
	case "modseq":
		e.ModSeq(v.u64)
	case "seqset":
		e.NumSet(parseSeq(v.s))
	case "uidset":
		e.NumSet(toUIDSet(parseSeq(v.s)))
	case "emptyseqset":
		e.NumSet(imap.SeqSet(nil))
	case "emptyuidset":
		e.NumSet(imap.UIDSet{})
	case "searchres":
		e.NumSet(imap.SearchRes())
	case "nil":
		e.NIL()
	case "list":
		e.List(len(v.kids), func(i int) { encode(e, v.kids[i]) })
	case "literal":
		w := e.Literal(int64(len(v.s)), nil)
		io.WriteString(w, v.s)
		w.Close()
	}
}

// decode consumes v from d and returns a description of any mismatch.
func decode(d *imapwire.Decoder, v val, c config) string {
	switch v.kind {
	case "string", "quoted", "literal":
		var got string
		ok := false
		switch v.dec {
		case "astring":
			ok = d.ExpectAString(&got)
		case "nstring":
			ok = d.ExpectNString(&got)
		case "reader":
			lit, _, rok := d.ExpectNStringReader()
			if rok && lit != nil {
				b, err := io.ReadAll(lit)
				if err != nil {
					return fmt.Sprintf("reading literal: %v", err)
				}
				if lit.Size() != int64(len(v.s)) {
					return fmt.Sprintf("LiteralReader.Size()=%d want %d", lit.Size(), len(v.s))
				}
				got, ok = string(b), true
			} else if rok && lit == nil {
				return "ExpectNStringReader returned NIL for a string"
			}
		default:
			ok = d.ExpectString(&got)
		}
		if !ok {
			return fmt.Sprintf("decoder rejected %s: %v", v, d.Err())
		}
		if got != v.s {
			return fmt.Sprintf("decoded %q (%d bytes), want %q (%d bytes)", clip(got), len(got), clip(v.s), len(v.s))
		}
	case "atom":
		var got string
		if !d.ExpectAtom(&got) {
			return fmt.Sprintf("decoder rejected atom %q: %v", v.s, d.Err())
		}
		if got != v.s {
			return fmt.Sprintf("atom decoded %q want %q", got, v.s)
		}
	case "mailbox":
		var got string
		if !d.ExpectMailbox(&got) {
			return fmt.Sprintf("decoder rejected mailbox %q: %v", clip(v.s), d.Err())
		}
		want := v.s
		if strings.EqualFold(want, "INBOX") {
			want = "INBOX"
		}
		if got != want {
			return fmt.Sprintf("mailbox decoded %q want %q", clip(got), clip(want))
		}
	case "flag":
		got, err := internal.ExpectFlag(d)
		if err != nil {
			return fmt.Sprintf("decoder rejected flag %q: %v", v.s, err)
		}
		if want := gen.CanonFlag(v.s); string(got) != want {
			return fmt.Sprintf("flag decoded %q want %q", got, want)
		}
	case "attr":
		got, err := internal.ExpectMailboxAttr(d)
		if err != nil {
			return fmt.Sprintf("decoder rejected mailbox attribute %q: %v", v.s, err)
		}
		if want := gen.CanonAttr(v.s); string(got) != want {
			return fmt.Sprintf("attr decoded %q want %q", got, want)
		}
	case "num":
		var got uint32
		if !d.ExpectNumber(&got) {
			return fmt.Sprintf("decoder rejected number %d: %v", v.n, d.Err())
		}
		if got != v.n {
			return fmt.Sprintf("number decoded %d want %d", got, v.n)
		}
	case "num64":
		var got int64
		if !d.ExpectNumber64(&got) {
			return fmt.Sprintf("decoder rejected number64 %d: %v", v.n64, d.Err())
		}
		if got != v.n64 {
			return fmt.Sprintf("number64 decoded %d want %d", got, v.n64)
		}
	case "modseq":
		var got uint64
		if !d.ExpectModSeq(&got) {
			return fmt.Sprintf("decoder rejected modseq %d: %v", v.u64, d.Err())
		}
		if got != v.u64 {
			return fmt.Sprintf("modseq decoded %d want %d", got, v.u64)
		}
	case "seqset", "uidset", "searchres":
		kind := imapwire.NumKindSeq
		if v.kind != "seqset" {
			kind = imapwire.NumKindUID
		}
		var got imap.NumSet
		if !d.ExpectNumSet(kind, &got) {
			return fmt.Sprintf("decoder rejected %s: %v", v, d.Err())
		}
		switch v.kind {
		case "searchres":
			if !imap.IsSearchRes(got) {
				return fmt.Sprintf("'$' decoded as %v", got)
			}
		case "seqset":
			s, ok := got.(imap.SeqSet)
			if !ok || s.String() != parseSeq(v.s).String() {
				return fmt.Sprintf("seqset decoded %T %v want %s", got, got, parseSeq(v.s).String())
			}
		case "uidset":
			s, ok := got.(imap.UIDSet)
			if !ok || imap.IsSearchRes(s) || s.String() != parseSeq(v.s).String() {
				return fmt.Sprintf("uidset decoded %T %v want %s", got, got, parseSeq(v.s).String())
			}
		}
	case "nil":
		if !d.ExpectNIL() {
			return fmt.Sprintf("decoder rejected NIL: %v", d.Err())
		}
	case "list":
		i := 0
		var inner string
		err := d.ExpectList(func() error {
			if i >= len(v.kids) {
				inner = "list has more items than were encoded"
				return fmt.Errorf("extra item")
			}
			if m := decode(d, v.kids[i], c); m != "" {
				inner = m
				return fmt.Errorf("item mismatch")
			}
			i++
			return nil
		})
		if inner != "" {
			return inner
		}
		if err != nil {
			return fmt.Sprintf("decoder rejected list %s: %v", clip(v.String()), err)
		}
		if i != len(v.kids) {
			return fmt.Sprintf("list decoded %d items, %d were encoded", i, len(v.kids))
		}
	}
	return ""
}

func clip(s string) string {
	if len(s) > 60 {
		return s[:30] + "…" + s[len(s)-20:]
	}
	return s
}

type fataler interface {
	Fatalf(format string, args ...any)
}

// contRequests counts continuation requests created by the encoder under
// test in the current case (single goroutine).
var contRequests int

func newEncoder(buf *bytes.Buffer, c config) (*imapwire.Encoder, *bufio.Writer) {
	contRequests = 0
	bw := bufio.NewWriter(buf)
	side := imapwire.ConnSideServer
	if c.clientToServer {
		side = imapwire.ConnSideClient
	}
	e := imapwire.NewEncoder(bw, side)
	e.QuotedUTF8 = c.quotedUTF8
	e.LiteralMinus = c.literalMinus
	e.LiteralPlus = c.literalPlus
	switch c.cont {
	case "grant":
		e.NewContinuationRequest = func() *imapwire.ContinuationRequest {
			contRequests++
			r := imapwire.NewContinuationRequest()
			r.Done("")
			return r
		}
	case "cancel":
		e.NewContinuationRequest = func() *imapwire.ContinuationRequest {
			r := imapwire.NewContinuationRequest()
			r.Cancel(fmt.Errorf("refused"))
			return r
		}
	}
	return e, bw
}

// needsSync reports, by the protocol rules alone, whether a client string of
// this content must go out as a synchronising literal.
func mustBeLiteral(s string, c config) bool {
	if len(s) > 4096 {
		return true
	}
	for i := 0; i < len(s); i++ {
		if s[i] == 0 || s[i] == '\r' || s[i] == '\n' {
			return true
		}
		if s[i] >= 0x80 && !c.quotedUTF8 {
			return true
		}
	}
	return false
}

func syncRequired(n int, c config) bool {
	if !c.clientToServer {
		return false
	}
	if c.literalPlus {
		return false
	}
	if c.literalMinus && n <= 4096 {
		return false
	}
	return true
}

// collectStrings lists the strings that go through Encoder.String/Mailbox.
func walk(v val, f func(val)) {
	f(v)
	for _, k := range v.kids {
		walk(k, f)
	}
}

// checkWire judges the emitted bytes with the independent tokenizer.
func checkWire(t fataler, out []byte, c config, vals []val) {
	lines, rest, err := tok.All(out, false)
	if err != nil || len(rest) != 0 || len(lines) != 1 {
		t.Fatalf("[%s] emitted bytes are not exactly one well-framed line (err=%v, lines=%d, rest=%d bytes): %q", c, err, len(lines), len(rest), clip(string(out)))
	}
	if err := lines[0].WellFormed(); err != nil {
		t.Fatalf("[%s] emitted line is malformed (%v): %q", c, err, clip(string(out)))
	}
	syncLits := 0
	for _, tk := range lines[0].Toks {
		if tk.Kind == tok.Literal && !tk.NonSync && c.clientToServer {
			syncLits++
		}
	}
	if c.clientToServer && syncLits != contRequests {
		t.Fatalf("[%s] %d synchronising literal(s) on the wire but the encoder asked for %d continuation request(s): payload sent without waiting; wire %q", c, syncLits, contRequests, clip(string(out)))
	}
	for _, tk := range lines[0].Toks {
		switch tk.Kind {
		case tok.Quoted:
			if tk.RawCtl {
				t.Fatalf("[%s] CR, LF or NUL inside a quoted string: %q", c, clip(string(out)))
			}
			if tk.Raw8bit && !c.quotedUTF8 {
				t.Fatalf("[%s] 8-bit byte inside a quoted string without UTF-8 quoting: %q", c, clip(string(out)))
			}
			if len(tk.S) > 4096 {
				ev.Class("quoted>4096 (explicit Quoted call)")
			}
		case tok.Literal:
			if int64(len(tk.S)) != tk.N {
				t.Fatalf("[%s] literal announces %d octets, carries %d", c, tk.N, len(tk.S))
			}
			if tk.NonSync {
				if !c.clientToServer {
					t.Fatalf("[%s] server emitted a non-synchronising literal {%d+}", c, tk.N)
				}
				if !(c.literalPlus || (c.literalMinus && tk.N <= 4096)) {
					t.Fatalf("[%s] non-synchronising literal {%d+} is not allowed in this mode", c, tk.N)
				}
			}
		}
	}
}

// roundTrip encodes vals SP-separated in one line and decodes them on the
// peer side. It returns the emitted bytes.
func roundTrip(t fataler, c config, vals []val) []byte {
	var buf bytes.Buffer
	e, _ := newEncoder(&buf, c)
	for i, v := range vals {
		if i > 0 {
			e.SP()
		}
		encode(e, v)
	}
	err := e.CRLF()
	// does any value require a synchronising literal that cannot be sent?
	syncNeeded := false
	for _, v := range vals {
		walk(v, func(x val) {
			switch x.kind {
			case "string":
				if mustBeLiteral(x.s, c) && syncRequired(len(x.s), c) {
					syncNeeded = true
				}
			case "mailbox":
				// mailbox names travel in modified UTF-7 (printable ASCII)
				if !strings.EqualFold(x.s, "INBOX") {
					if enc := refutf7.Encode(x.s); len(enc) > 4096 && syncRequired(len(enc), c) {
						syncNeeded = true
					}
				}
			}
		})
	}
	if syncNeeded && c.cont != "grant" {
		if err == nil {
			t.Fatalf("[%s] a synchronising literal was required but no continuation was granted, yet CRLF() returned nil; emitted %q", c, clip(buf.String()))
		}
		ev.Class("refusal:sync-literal-without-continuation")
		return nil
	}
	if err != nil {
		t.Fatalf("[%s] encoder refused representable values %v: %v", c, vals, err)
	}
	out := append([]byte(nil), buf.Bytes()...)
	checkWire(t, out, c, vals)

	rd := bytes.NewReader(out)
	br := bufio.NewReader(rd)
	side := imapwire.ConnSideClient
	if c.clientToServer {
		side = imapwire.ConnSideServer
	}
	d := imapwire.NewDecoder(br, side)
	var litSeen []int64
	d.CheckBufferedLiteralFunc = func(size int64, nonSync bool) error {
		litSeen = append(litSeen, size)
		return nil
	}
	for i, v := range vals {
		if i > 0 && !d.ExpectSP() {
			t.Fatalf("[%s] decoder did not find SP before item %d of %v: %v; wire %q", c, i, vals, d.Err(), clip(string(out)))
		}
		if m := decode(d, v, c); m != "" {
			t.Fatalf("[%s] round-trip mismatch on %s: %s; wire %q", c, clip(v.String()), m, clip(string(out)))
		}
	}
	if !d.ExpectCRLF() {
		t.Fatalf("[%s] decoder did not find CRLF after %v: %v; wire %q", c, vals, d.Err(), clip(string(out)))
	}
	if d.Err() != nil {
		t.Fatalf("[%s] decoder error after a successful round trip: %v", c, d.Err())
	}
	if br.Buffered() != 0 || rd.Len() != 0 {
		t.Fatalf("[%s] %d bytes left unread after decoding %v", c, br.Buffered()+rd.Len(), vals)
	}
	return out
}

// mustRefuse encodes a line containing bad and requires an error from CRLF
// and no syntactically complete line containing the bad token.
func mustRefuse(t fataler, c config, before []val, bad val, what string) {
	var buf bytes.Buffer
	e, bw := newEncoder(&buf, c)
	for _, v := range before {
		encode(e, v)
		e.SP()
	}
	encode(e, bad)
	err := e.CRLF()
	bw.Flush()
	if err == nil {
		t.Fatalf("[%s] encoder accepted unrepresentable %s (%s) and emitted %q", c, what, bad, clip(buf.String()))
	}
	if bytes.HasSuffix(buf.Bytes(), []byte("\r\n")) {
		lines, rest, lerr := tok.All(buf.Bytes(), false)
		if lerr == nil && len(rest) == 0 && len(lines) > 0 {
			// a complete line went out; it must not be the refused one, i.e.
			// it can only be the header line of a sync literal
			last := lines[len(lines)-1]
			_ = last
			t.Fatalf("[%s] encoder reported %v for %s but still emitted a complete line %q", c, err, what, clip(buf.String()))
		}
	}
}

// ---------------------------------------------------------------- generators

func genConfig(t *rapid.T) config {
	c := config{
		clientToServer: rapid.Bool().Draw(t, "clientToServer"),
		quotedUTF8:     rapid.Bool().Draw(t, "quotedUTF8"),
	}
	if c.clientToServer {
		c.literalMinus = rapid.Bool().Draw(t, "literalMinus")
		c.literalPlus = rapid.Bool().Draw(t, "literalPlus")
		c.cont = rapid.SampledFrom([]string{"grant", "grant", "grant", "cancel", "none"}).Draw(t, "cont")
	} else {
		c.cont = "none"
	}
	return c
}

func quotable(s string, c config) bool {
	for i := 0; i < len(s); i++ {
		if s[i] == 0 || s[i] == '\r' || s[i] == '\n' || (s[i] >= 0x80 && !c.quotedUTF8) {
			return false
		}
	}
	return true
}

var setTexts = []string{"1", "*", "1:*", "5:1", "1,3,5", "1:3,2:5", "4294967295", "4294967294:4294967295,*", "10:20,30:*", "7,9:12,100", "*:4"}

func genSetText(t *rapid.T) string {
	if rapid.Bool().Draw(t, "setpool") {
		return rapid.SampledFrom(setTexts).Draw(t, "settext")
	}
	n := rapid.IntRange(1, 5).Draw(t, "setn")
	var parts []string
	for i := 0; i < n; i++ {
		a := gen.U32(t, "seta")
		if a == 0 {
			parts = append(parts, "*")
			continue
		}
		if rapid.Bool().Draw(t, "setr") {
			b := gen.U32(t, "setb")
			if b == 0 {
				parts = append(parts, fmt.Sprintf("%d:*", a))
			} else {
				parts = append(parts, fmt.Sprintf("%d:%d", a, b))
			}
		} else {
			parts = append(parts, fmt.Sprintf("%d", a))
		}
	}
	return strings.Join(parts, ",")
}

func genVal(t *rapid.T, c config, depth int) val {
	kinds := []string{"string", "string", "string", "quoted", "atom", "mailbox", "mailbox", "flag", "attr", "num", "num64", "modseq", "seqset", "uidset", "searchres", "nil"}
	if depth > 0 {
		kinds = append(kinds, "list", "list", "list")
	}
	if !c.clientToServer {
		kinds = append(kinds, "literal")
	}
	k := rapid.SampledFrom(kinds).Draw(t, "kind")
	switch k {
	case "string":
		s := gen.Bytes(t, "str", true)
		return val{kind: k, s: s.S, class: s.Class, dec: rapid.SampledFrom([]string{"string", "astring", "nstring", "reader"}).Draw(t, "decfn")}
	case "quoted":
		s := gen.Bytes(t, "q", false)
		if !quotable(s.S, c) {
			s.S = strings.Map(func(r rune) rune {
				if r == 0 || r == '\r' || r == '\n' || (r >= 0x80 && !c.quotedUTF8) || r == utf8.RuneError {
					return 'q'
				}
				return r
			}, s.S)
		}
		return val{kind: k, s: s.S, class: "explicit-quoted", dec: rapid.SampledFrom([]string{"string", "astring", "nstring"}).Draw(t, "decfn")}
	case "atom":
		return val{kind: k, s: rapid.StringMatching(`[A-Za-z0-9.$_+-]{1,12}`).Draw(t, "atom")}
	case "mailbox":
		m := gen.Mailbox(t, "mbox")
		return val{kind: k, s: m.S, class: m.Class}
	case "flag":
		if rapid.IntRange(0, 9).Draw(t, "permflag") == 4 {
			return val{kind: k, s: "\\*"}
		}
		return val{kind: k, s: gen.ValidFlag(t, "flag")}
	case "attr":
		return val{kind: k, s: gen.ValidAttr(t, "attr")}
	case "num":
		return val{kind: k, n: gen.U32(t, "num")}
	case "num64":
		return val{kind: k, n64: gen.I64(t, "num64")}
	case "modseq":
		return val{kind: k, u64: rapid.SampledFrom([]uint64{0, 1, 1 << 32, 1<<63 - 1, 1 << 63, 1<<64 - 1}).Draw(t, "modseq")}
	case "seqset", "uidset":
		return val{kind: k, s: genSetText(t)}
	case "list":
		n := rapid.IntRange(0, 4).Draw(t, "listn")
		v := val{kind: k}
		for i := 0; i < n; i++ {
			v.kids = append(v.kids, genVal(t, c, depth-1))
		}
		return v
	case "literal":
		s := gen.Bytes(t, "lit", true)
		return val{kind: k, s: s.S, class: s.Class, dec: "reader"}
	}
	return val{kind: k}
}

func nontrivial(vals []val) bool {
	nt := false
	for _, v := range vals {
		walk(v, func(x val) {
			switch x.kind {
			case "string", "quoted", "mailbox", "literal":
				plain := x.s != ""
				for i := 0; i < len(x.s); i++ {
					ch := x.s[i]
					if !(ch >= 'a' && ch <= 'z' || ch >= 'A' && ch <= 'Z' || ch >= '0' && ch <= '9') {
						plain = false
					}
				}
				if !plain {
					nt = true
				}
			case "list", "seqset", "uidset", "flag", "attr":
				nt = true
			}
		})
	}
	return nt
}

func classify(vals []val, c config, out []byte) {
	ev.Class("cfg:" + c.String())
	for _, v := range vals {
		walk(v, func(x val) {
			ev.Class("kind:" + x.kind)
			if x.class != "" {
				ev.Class("class:" + x.kind + ":" + x.class)
			}
		})
	}
	if lines, _, err := tok.All(out, false); err == nil && len(lines) == 1 {
		for _, tk := range lines[0].Toks {
			switch tk.Kind {
			case tok.Literal:
				if tk.NonSync {
					ev.Class("wire:literal-nonsync")
				} else if c.clientToServer {
					ev.Class("wire:literal-sync")
				} else {
					ev.Class("wire:literal-server")
				}
				switch tk.N {
				case 4095, 4096, 4097:
					ev.Class(fmt.Sprintf("wire:literal-len-%d", tk.N))
				}
			case tok.Quoted:
				if strings.ContainsAny(tk.S, "\"\\") {
					ev.Class("wire:quoted-with-escape")
				}
				if tk.Raw8bit {
					ev.Class("wire:quoted-8bit")
				}
				switch len(tk.S) {
				case 4095, 4096:
					ev.Class(fmt.Sprintf("wire:quoted-len-%d", len(tk.S)))
				}
			}
		}
	}
}

func TestPropRoundTrip(t *testing.T) { rapid.Check(t, propRoundTrip) }

// FuzzRoundTrip drives the same property with Go's coverage-guided fuzzer
// (thorough tier): the byte input is rapid's choice sequence.
func FuzzRoundTrip(f *testing.F) {
	f.Add([]byte{0})
	f.Add([]byte("\x01\x00\x01\x03\x07\x02\x09\x05\x04\x08\x0a\x01\x01\x06"))
	f.Fuzz(rapid.MakeFuzz(propRoundTrip))
}

func propRoundTrip(t *rapid.T) {
	{
		c := genConfig(t)
		n := rapid.IntRange(1, 5).Draw(t, "nvals")
		var vals []val
		for i := 0; i < n; i++ {
			vals = append(vals, genVal(t, c, 3))
		}
		out := roundTrip(t, c, vals)
		ev.Eval()
		if nontrivial(vals) {
			ev.NonTrivial(c.String() + fmt.Sprint(vals))
		}
		classify(vals, c, out)
		ev.Sample(fmt.Sprintf("[%s] %v => %q", c, vals, clip(string(out))))
	}
}

func TestPropRefusal(t *testing.T) {
	rapid.Check(t, func(t *rapid.T) {
		c := genConfig(t)
		c.cont = "grant"
		var before []val
		for i, n := 0, rapid.IntRange(0, 2).Draw(t, "nbefore"); i < n; i++ {
			before = append(before, val{kind: "atom", s: "x"})
		}
		var bad val
		what := rapid.SampledFrom([]string{"empty seq set", "empty uid set", "invalid flag", "invalid attr", "negative number64"}).Draw(t, "what")
		switch what {
		case "empty seq set":
			bad = val{kind: "emptyseqset"}
		case "empty uid set":
			bad = val{kind: "emptyuidset"}
		case "invalid flag":
			bad = val{kind: "flag", s: rapid.SampledFrom(gen.InvalidFlags).Draw(t, "badflag")}
		case "invalid attr":
			s := rapid.SampledFrom(append(append([]string{}, gen.InvalidFlags...), "Seen", "$Junk", "noslash", "\\*")).Draw(t, "badattr")
			bad = val{kind: "attr", s: s}
		case "negative number64":
			bad = val{kind: "num64", n64: rapid.SampledFrom([]int64{-1, -5, -4096, -1 << 63}).Draw(t, "neg")}
		}
		mustRefuse(t, c, before, bad, what)
		ev.Eval()
		ev.NonTrivial("refuse:" + c.String() + what + bad.String())
		ev.Class("refusal:" + what)
		ev.Sample(fmt.Sprintf("[%s] refuse %s %s", c, what, bad))
	})
}

// nested builds d levels of lists around a number.
func nested(d int) val {
	v := val{kind: "num", n: 7}
	for i := 0; i < d; i++ {
		v = val{kind: "list", kids: []val{v}}
	}
	return v
}

// TestReplayDepth: nesting below the decoder cap round-trips; at and above
// the cap the decoder reports an error (no crash, no silent truncation).
func TestReplayDepth(t *testing.T) {
	for _, c := range []config{{clientToServer: true, cont: "grant"}, {clientToServer: false, cont: "none"}} {
		for _, d := range []int{1, 2, 500, 990, 998, 999} {
			roundTrip(t, c, []val{nested(d)})
			ev.Eval()
			ev.NonTrivial(fmt.Sprint("depth", c, d))
			ev.Class("depth<cap")
		}
		for _, d := range []int{1000, 1001, 1005, 5000} {
			var buf bytes.Buffer
			e, _ := newEncoder(&buf, c)
			encode(e, nested(d))
			if err := e.CRLF(); err != nil {
				t.Fatalf("encoder refused depth %d: %v", d, err)
			}
			side := imapwire.ConnSideClient
			if c.clientToServer {
				side = imapwire.ConnSideServer
			}
			dec := imapwire.NewDecoder(bufio.NewReader(bytes.NewReader(buf.Bytes())), side)
			if m := decode(dec, nested(d), c); m == "" {
				t.Fatalf("decoder accepted list nesting depth %d (cap is 1000 levels)", d)
			}
			ev.Eval()
			ev.NonTrivial(fmt.Sprint("depth", c, d))
			ev.Class("depth>=cap rejected")
		}
	}
}

func TestReplayRegressions(t *testing.T) {
	cs := []config{
		{clientToServer: true, cont: "grant"}, {clientToServer: true, literalMinus: true, cont: "grant"}, {clientToServer: true, literalPlus: true, cont: "none"},
		{clientToServer: true, quotedUTF8: true, cont: "grant"}, {clientToServer: false, cont: "none"}, {clientToServer: false, quotedUTF8: true, cont: "none"},
	}
	strs := []string{"", "a", "a b", "a\"b\\c", "\r\n", "\x00", "é", "\xff\xfe", strings.Repeat("a", 4095), strings.Repeat("a", 4096), strings.Repeat("a", 4097),
		strings.Repeat("é", 2048), strings.Repeat("é", 2049), "NIL", "{5}", "a\r\nzz1 DELETE canary\r\n", "(", "%*", "]"}
	for _, c := range cs {
		for _, s := range strs {
			for _, fn := range []string{"string", "astring", "nstring", "reader"} {
				roundTrip(t, c, []val{{kind: "atom", s: "x"}, {kind: "string", s: s, dec: fn}, {kind: "num", n: 1}})
				ev.Eval()
			}
		}
		for _, m := range []string{"INBOX", "inbox", "Inbox/x", "a&b", "é", "台北/日本語", "a b", "\"q\"", "&", strings.Repeat("台", 2000), "\x00", "x\r\ny"} {
			roundTrip(t, c, []val{{kind: "mailbox", s: m}, {kind: "mailbox", s: m}})
			ev.Eval()
		}
		for _, f := range []string{"\\Seen", "\\SEEN", "\\seen", "$forwarded", "$MDNSENT", "custom", "\\Custom", "\\*", "$NotJunk"} {
			roundTrip(t, c, []val{{kind: "flag", s: f}})
			ev.Eval()
		}
		for _, a := range []string{"\\Noselect", "\\NOSELECT", "\\hasnochildren", "\\Custom", "\\SEEN", "\\flagged"} {
			roundTrip(t, c, []val{{kind: "attr", s: a}})
			ev.Eval()
		}
		for _, bad := range []val{{kind: "flag", s: "\\"}, {kind: "attr", s: "\\"}, {kind: "flag", s: ""}, {kind: "flag", s: "a b"}, {kind: "attr", s: "Seen"},
			{kind: "emptyseqset"}, {kind: "emptyuidset"}, {kind: "num64", n64: -5}} {
			mustRefuse(t, c, nil, bad, "regression")
			ev.Eval()
		}
	}
	// sync literal without a continuation source must be refused
	for _, cont := range []string{"none", "cancel"} {
		c := config{clientToServer: true, cont: cont}
		roundTrip(t, c, []val{{kind: "string", s: "a\r\nb", dec: "string"}})
		roundTrip(t, c, []val{{kind: "string", s: strings.Repeat("x", 5000), dec: "string"}})
		c.literalMinus = true
		roundTrip(t, c, []val{{kind: "string", s: strings.Repeat("x", 5000), dec: "string"}})
		roundTrip(t, c, []val{{kind: "string", s: "a\r\nb", dec: "string"}}) // non-sync allowed: must succeed
		ev.EvalN(4)
	}
}

// ---------------------------------------------------------------- foreign wire forms

func isAtomSafe(s string) bool {
	if s == "" || strings.EqualFold(s, "NIL") {
		return false
	}
	for i := 0; i < len(s); i++ {
		ch := s[i]
		if ch <= 0x20 || ch >= 0x7f || strings.IndexByte("(){%*\"\\]", ch) >= 0 {
			return false
		}
	}
	return true
}

// renderForm writes s in one legal wire form chosen by form; ok=false when
// the form cannot represent s.
func renderForm(s, form string, c config) (string, bool) {
	switch form {
	case "atom":
		if !isAtomSafe(s) {
			return "", false
		}
		return s, true
	case "quoted":
		if !quotable(s, c) {
			return "", false
		}
		return "\"" + strings.NewReplacer("\\", "\\\\", "\"", "\\\"").Replace(s) + "\"", true
	case "literal":
		return fmt.Sprintf("{%d}\r\n%s", len(s), s), true
	case "literal+":
		if !c.clientToServer {
			return "", false
		}
		return fmt.Sprintf("{%d+}\r\n%s", len(s), s), true
	}
	return "", false
}

// TestPropForeignForms: the decoder must accept every legal wire form of an
// astring / mailbox produced by a peer that is not this library's encoder
// (atom, quoted with escapes, synchronising and non-synchronising literal),
// with the documented canonicalisations (INBOX in any case and any form).
func TestPropForeignForms(t *testing.T) {
	rapid.Check(t, func(t *rapid.T) {
		c := genConfig(t)
		isMbox := rapid.Bool().Draw(t, "mailbox")
		var value string
		if isMbox {
			value = gen.Mailbox(t, "m").S
		} else {
			value = gen.Bytes(t, "s", true).S
		}
		form := rapid.SampledFrom([]string{"atom", "quoted", "literal", "literal+"}).Draw(t, "form")
		wireVal := value
		if isMbox && !strings.EqualFold(value, "INBOX") {
			wireVal = refutf7.Encode(value)
		}
		text, ok := renderForm(wireVal, form, c)
		if !ok {
			form = "literal"
			text, _ = renderForm(wireVal, form, c)
		}
		wire := "x " + text + " y\r\n"
		rd := bytes.NewReader([]byte(wire))
		br := bufio.NewReader(rd)
		side := imapwire.ConnSideClient
		if c.clientToServer {
			side = imapwire.ConnSideServer
		}
		d := imapwire.NewDecoder(br, side)
		var a, got, b string
		if !d.ExpectAtom(&a) || !d.ExpectSP() {
			t.Fatalf("prefix: %v", d.Err())
		}
		want := value
		if isMbox {
			if strings.EqualFold(value, "INBOX") {
				want = "INBOX"
			}
			if !d.ExpectMailbox(&got) {
				t.Fatalf("[%s] decoder rejected mailbox %q sent as %s (%q): %v", c, clip(value), form, clip(text), d.Err())
			}
		} else if !d.ExpectAString(&got) {
			t.Fatalf("[%s] decoder rejected astring %q sent as %s (%q): %v", c, clip(value), form, clip(text), d.Err())
		}
		if got != want {
			t.Fatalf("[%s] %s form %q decoded to %q, want %q", c, form, clip(text), clip(got), clip(want))
		}
		if !d.ExpectSP() || !d.ExpectAtom(&b) || b != "y" || !d.ExpectCRLF() || br.Buffered() != 0 || rd.Len() != 0 {
			t.Fatalf("[%s] bytes after the %s form %q were not consumed exactly: err=%v", c, form, clip(text), d.Err())
		}
		ev.Eval()
		ev.NonTrivial("foreign:" + c.String() + form + value)
		ev.Class("foreign-form:" + form)
		if isMbox && strings.EqualFold(value, "INBOX") {
			ev.Class("foreign-form:inbox-casing:" + form)
		}
	})
}

// TestPropLongStream: a connection's decoder lives for thousands of commands
// or responses. The same few generated values are sent again and again through
// ONE encoder and decoded by ONE decoder: whatever state either accumulates
// (depth counters, literal flags, sticky errors) must not change the outcome
// of later lines.
func TestPropLongStream(t *testing.T) {
	rapid.Check(t, func(t *rapid.T) {
		c := genConfig(t)
		if c.clientToServer {
			c.cont = "grant"
		}
		n := rapid.IntRange(1, 4).Draw(t, "nvals")
		var vals []val
		for i := 0; i < n; i++ {
			if rapid.IntRange(0, 2).Draw(t, "emptylist") == 0 {
				vals = append(vals, val{kind: "list"})
			} else {
				vals = append(vals, genVal(t, c, 2))
			}
		}
		for _, v := range vals {
			big := false
			walk(v, func(x val) { big = big || len(x.s) > 600 })
			if big {
				return // keep the stream small: sizes are TestPropRoundTrip's business
			}
		}
		lines := rapid.SampledFrom([]int{50, 400, 1100, 2300}).Draw(t, "lines")
		var buf bytes.Buffer
		e, _ := newEncoder(&buf, c)
		for l := 0; l < lines; l++ {
			for i, v := range vals {
				if i > 0 {
					e.SP()
				}
				encode(e, v)
			}
			if err := e.CRLF(); err != nil {
				t.Fatalf("[%s] line %d of a stream repeating %v: encoder error %v", c, l+1, vals, err)
			}
		}
		br := bufio.NewReader(bytes.NewReader(buf.Bytes()))
		side := imapwire.ConnSideClient
		if c.clientToServer {
			side = imapwire.ConnSideServer
		}
		d := imapwire.NewDecoder(br, side)
		d.CheckBufferedLiteralFunc = func(int64, bool) error { return nil }
		for l := 0; l < lines; l++ {
			for i, v := range vals {
				if i > 0 && !d.ExpectSP() {
					t.Fatalf("[%s] line %d of a stream repeating %v: no SP before item %d: %v", c, l+1, vals, i, d.Err())
				}
				if m := decode(d, v, c); m != "" {
					t.Fatalf("[%s] line %d of a stream repeating %v: %s decoded differently than on line 1: %s", c, l+1, vals, clip(v.String()), m)
				}
			}
			if !d.ExpectCRLF() {
				t.Fatalf("[%s] line %d of a stream repeating %v: no CRLF: %v", c, l+1, vals, d.Err())
			}
		}
		ev.Eval()
		if lines >= 1100 {
			ev.NonTrivial(fmt.Sprintf("stream:%s:%d:%v", c, lines, vals))
		}
		ev.Class(fmt.Sprintf("long-stream-lines=%d", lines))
	})
}
