// Package c04 decides property C04: server command framing - literal payloads
// are never parsed as commands. A generated client (conforming about literal
// synchronisation, hostile about payload contents and sizes) drives a real
// imapserver with a recording stub session over a raw connection.
// Oracle: the harness knows the framing of what it sent (cross-checked by the
// independent framer kit/tok); on the server's output, framed by kit/tok:
// whole well-formed lines only, tagged completions are exactly the sent
// commands' tags in order (each once; a suffix may be missing only if the
// server closed the connection), '+' only when a synchronising literal,
// AUTHENTICATE or IDLE is pending, no canary tag answered, no backend call
// whose arguments stem from a refused literal's payload.
package c04

import (
	"encoding/base64"
	"fmt"
	"io"
	"os"
	"strings"
	"testing"
	"time"

	imap "github.com/emersion/go-imap/v2"
	"github.com/emersion/go-imap/v2/imapserver"
	"github.com/emersion/go-imap/v2/verifh/kit/ev"
	"github.com/emersion/go-imap/v2/verifh/kit/refutf7"
	"github.com/emersion/go-imap/v2/verifh/kit/srv"
	"github.com/emersion/go-imap/v2/verifh/kit/stub"
	"github.com/emersion/go-imap/v2/verifh/kit/tok"
	"pgregory.net/rapid"
)

func TestMain(m *testing.M) { ev.Main(m) }

const appendLimit = 100 * 1024 * 1024

// maxSend bounds how many payload octets are really written for a literal
// whose announced size is huge (the announcement is what matters).
const maxSend = 16 * 1024

type config struct {
	literalPlus bool
	rev2only    bool
	state       string // notauth, auth, selected
	copyData    *imap.CopyData
	utf8        bool // ENABLE UTF8=ACCEPT (IMAP4rev2 when rev2only) before the history: responses may quote 8-bit strings
}

func (c config) String() string {
	return fmt.Sprintf("literal+=%v rev2only=%v state=%s utf8=%v", c.literalPlus, c.rev2only, c.state, c.utf8)
}

// arg is one string argument and how it is rendered.
type arg struct {
	val       string
	form      string // atom quoted sync nonsync
	announced int64  // announced literal size (== len(val) unless oversize)
}

func (a arg) honest() bool { return a.announced == int64(len(a.val)) }

// command is one generated command.
type command struct {
	tag    string
	kind   string   // LOGIN SELECT CREATE STATUS LIST SEARCH APPEND FETCH NOOP AUTHENTICATE IDLE ENABLE
	pre    string   // text after the tag up to the first argument
	args   []arg    // string arguments, space separated
	post   string   // text after the last argument (before CRLF)
	method string   // backend method reached when executed ("" = none)
	stream bool     // last arg is a streamed (APPEND) literal, limit appendLimit
	argKey []string // names under which the stub records the args (for comparison)
	// mustFail: grammatically complete but malformed: any tagged completion except OK
	mustFail bool
}

func (c command) String() string {
	var parts []string
	for _, a := range c.args {
		v := a.val
		if len(v) > 24 {
			v = fmt.Sprintf("%q…(%d)", v[:16], len(v))
		} else {
			v = fmt.Sprintf("%q", v)
		}
		parts = append(parts, fmt.Sprintf("%s/%s/%d", v, a.form, a.announced))
	}
	return fmt.Sprintf("%s %s[%s]", c.tag, c.kind, strings.Join(parts, " "))
}

type fataler interface {
	Fatalf(format string, args ...any)
}

type run struct {
	cfg      config
	env      *srv.Env
	core     *stub.Core
	raw      *srv.Raw
	hist     []string
	sent     []byte
	answered []string // tags answered, in order
	closed   bool
	expCalls []expCall
	accepted map[string]bool // payloads of accepted literals
	honest   bool
	copyData *imap.CopyData // what the stub returns for COPY/MOVE
}

type expCall struct {
	tag    string
	method string
	args   map[string]string
}

func (r *run) fail(t fataler, f string, a ...any) {
	t.Fatalf("[%s] %s\nhistory:\n  %s\nserver log: %v", r.cfg, fmt.Sprintf(f, a...), strings.Join(r.hist, "\n  "), r.env.Log.Lines())
}

func (r *run) log(f string, a ...any) { r.hist = append(r.hist, fmt.Sprintf(f, a...)) }

func start(t fataler, cfg config) *run {
	r := &run{cfg: cfg, core: stub.NewCore(), accepted: map[string]bool{}, honest: true, copyData: cfg.copyData}
	caps := imap.CapSet{imap.CapIMAP4rev1: {}}
	if cfg.rev2only {
		caps = imap.CapSet{imap.CapIMAP4rev2: {}}
	}
	if cfg.literalPlus {
		caps[imap.CapLiteralPlus] = struct{}{}
	}
	r.core.OnCopy = func(imap.NumSet, string) (*imap.CopyData, error) { return r.copyData, nil }
	r.core.OnMove = func(w *imapserver.MoveWriter, _ imap.NumSet, _ string) error {
		if err := w.WriteCopyData(r.copyData); err != nil {
			return err
		}
		return w.WriteExpunge(1)
	}
	// the responses echo the (arbitrary) strings the commands carried, so that
	// the well-formedness of the server's output is judged on hostile data too
	r.core.OnList = func(w *imapserver.ListWriter, ref string, patterns []string, _ *imap.ListOptions) error {
		for _, p := range patterns {
			if err := w.WriteList(&imap.ListData{Mailbox: ref + p, Delim: '/'}); err != nil {
				return err
			}
		}
		return nil
	}
	r.core.OnFetch = func(w *imapserver.FetchWriter, _ imap.NumSet, o *imap.FetchOptions) error {
		rw := w.CreateMessage(1)
		for _, bs := range o.BodySection { // echoes the header field names the command carried
			wc := rw.WriteBodySection(bs, 2)
			wc.Write([]byte("ok"))
			wc.Close()
		}
		return rw.Close()
	}
	r.env = srv.Start(imapserver.Options{
		NewSession: func(*imapserver.Conn) (imapserver.Session, *imapserver.GreetingData, error) {
			return stub.Session(r.core, stub.FMove|stub.FNamespace|stub.FUnauth), nil, nil
		},
		InsecureAuth: true,
		Caps:         caps,
	})
	r.raw = r.env.Dial()
	r.raw.Timeout = 5 * time.Second
	if _, err := r.raw.Greeting(); err != nil {
		r.fail(t, "no greeting: %v", err)
	}
	if cfg.state != "notauth" {
		if _, st, err := r.raw.Cmd("pre1", "LOGIN setupuser setuppass"); err != nil || st.Status != "OK" {
			r.fail(t, "setup login: %v %v", st, err)
		}
	}
	if cfg.utf8 && cfg.state != "notauth" {
		capName := "UTF8=ACCEPT"
		if cfg.rev2only {
			capName = "IMAP4rev2"
		}
		if _, st, err := r.raw.Cmd("pre0", "ENABLE "+capName); err != nil || st.Status != "OK" {
			r.fail(t, "setup enable: %v %v", st, err)
		}
	}
	if cfg.state == "selected" {
		if _, st, err := r.raw.Cmd("pre2", "SELECT setupbox"); err != nil || st.Status != "OK" {
			r.fail(t, "setup select: %v %v", st, err)
		}
	}
	r.core.Reset()
	return r
}

func (r *run) stop() {
	r.raw.Close()
	r.env.Stop()
}

func (r *run) write(s string) {
	r.sent = append(r.sent, s...)
	r.raw.Send(s)
}

func isAtomSafe(s string) bool {
	if s == "" || strings.EqualFold(s, "NIL") {
		return false
	}
	for i := 0; i < len(s); i++ {
		ch := s[i]
		if ch <= 0x20 || ch >= 0x7f || strings.IndexByte("(){%*\"\\]+", ch) >= 0 {
			return false
		}
	}
	return true
}

func quotable(s string) bool {
	for i := 0; i < len(s); i++ {
		if s[i] == 0 || s[i] == '\r' || s[i] == '\n' || s[i] >= 0x80 {
			return false
		}
	}
	return true
}

// outcome of waiting for the server after a synchronising literal header.
type waitResult int

const (
	gotCont waitResult = iota
	gotTagged
	gotEOF
)

// readUntil reads response lines until a continuation request, the tagged
// response for tag, or EOF. Every line is validated.
func (r *run) readUntil(t fataler, tag string, contAllowed bool, what string) (waitResult, *tok.Line) {
	for {
		l, err := r.raw.ReadLine()
		if err != nil {
			if err == io.EOF {
				r.closed = true
				r.log("  <- EOF")
				return gotEOF, nil
			}
			if _, ok := err.(*tok.SyntaxError); ok {
				r.fail(t, "server output is not a sequence of well-formed lines (%v) while %s; unframed bytes: %q", err, what, clip(string(r.raw.R.Rest())))
			}
			if err == srv.ErrTimeout {
				r.fail(t, "no response from the server while %s (sent so far: %q); the server is waiting for more input although a complete %s was sent", what, clip(string(r.sent)), what)
			}
			r.fail(t, "reading while %s: %v", what, err)
		}
		if err := l.WellFormed(); err != nil {
			r.fail(t, "malformed response line %q: %v", clip(string(l.Raw)), err)
		}
		for _, tk := range l.Toks {
			if tk.Kind == tok.Quoted && tk.RawCtl {
				r.fail(t, "response line %q holds a quoted string with a raw CR, LF or NUL: the output is not a sequence of whole lines", clip(string(l.Raw)))
			}
		}
		r.log("  <- %s", clip(strings.TrimRight(string(l.Raw), "\r\n")))
		if l.IsCont {
			if !contAllowed {
				r.fail(t, "continuation request %q sent although no synchronising literal, AUTHENTICATE or IDLE is pending (%s)", l.Raw, what)
			}
			return gotCont, l
		}
		if l.Status != "" && l.Tag != "*" {
			r.answered = append(r.answered, l.Tag)
			if strings.HasPrefix(l.Tag, "zz") {
				r.fail(t, "the server answered tag %q, which only occurs inside literal payloads: %q", l.Tag, l.Raw)
			}
			if l.Tag != tag {
				r.fail(t, "tagged response %q while %s (expected tag %s)", clip(string(l.Raw)), what, tag)
			}
			return gotTagged, l
		}
	}
}

func clip(s string) string {
	if len(s) > 300 {
		return s[:200] + "…" + s[len(s)-80:]
	}
	return s
}

// exec sends one command the way a conforming client would and reads its
// completion. It returns the tagged response (nil if the connection closed).
func (r *run) exec(t fataler, c command) *tok.Line {
	r.log("%s", c.String())
	r.write(c.tag + " " + c.pre)
	refusedNonSync := false
	for i, a := range c.args {
		if i > 0 || !strings.HasSuffix(c.pre, "(") {
			if i > 0 {
				r.write(" ")
			}
		}
		switch a.form {
		case "atom":
			r.write(a.val)
		case "quoted":
			r.write(`"` + strings.NewReplacer(`\`, `\\`, `"`, `\"`).Replace(a.val) + `"`)
		case "sync":
			r.write(fmt.Sprintf("{%d}\r\n", a.announced))
			limit := int64(4096)
			if c.stream && i == len(c.args)-1 {
				limit = appendLimit
			}
			res, line := r.readUntil(t, c.tag, true, fmt.Sprintf("waiting for the answer to the synchronising literal header {%d} of %s", a.announced, c.tag))
			switch res {
			case gotEOF:
				return nil
			case gotTagged:
				if a.announced <= limit && line.Status == "OK" {
					r.fail(t, "%s: tagged OK before the literal payload was sent", c.tag)
				}
				r.honest = false // the announced octets are never sent: the stream is not self-framing
				return line      // refused: a conforming client abandons the command
			case gotCont:
				if a.announced > limit {
					r.fail(t, "%s: the server accepted a %d-octet literal (limit %d) with a continuation request", c.tag, a.announced, limit)
				}
			}
			r.accepted[a.val] = true
			r.write(a.val)
		case "nonsync":
			r.write(fmt.Sprintf("{%d+}\r\n", a.announced))
			send := a.val
			if !a.honest() {
				r.honest = false
			}
			r.write(send)
			limit := int64(4096)
			if c.stream && i == len(c.args)-1 {
				limit = appendLimit
			}
			if a.announced > limit || (a.announced > 4096 && !r.cfg.literalPlus) {
				refusedNonSync = true
			} else {
				r.accepted[a.val] = true
			}
			if !a.honest() {
				// the announced octets are not all sent: by framing the literal
				// is still open, so nothing more can be sent on this connection
				return r.afterOpenLiteral(t, c, a)
			}
		}
	}
	r.write(c.post + "\r\n")
	cont := c.kind == "AUTHENTICATE" || c.kind == "IDLE"
	for {
		res, line := r.readUntil(t, c.tag, cont, "waiting for the completion of "+c.tag)
		switch res {
		case gotEOF:
			// the statement lets the server close the connection at any point
			if !refusedNonSync {
				ev.Class("server-closed-without-refused-nonsync-literal")
			}
			return nil
		case gotCont:
			if c.kind == "IDLE" {
				r.write("DONE\r\n")
			} else {
				r.write(base64.StdEncoding.EncodeToString([]byte("\x00authuser\x00authpass")) + "\r\n")
			}
			cont = false
			continue
		}
		if c.mustFail && line.Status == "OK" {
			r.fail(t, "%s is malformed (text %q after the message literal) but was answered OK", c.String(), c.post)
		}
		if refusedNonSync && line.Status == "OK" {
			r.fail(t, "%s carried a non-synchronising literal the server must refuse, but was answered OK", c.String())
		}
		return line
	}
}

// afterOpenLiteral handles a literal whose announced size exceeds what was
// sent: the server must refuse it (it can neither buffer nor store it) and may
// then only drain or close; nothing in the payload may be answered or executed.
func (r *run) afterOpenLiteral(t fataler, c command, a arg) *tok.Line {
	var final *tok.Line
	deadline := time.Now().Add(500 * time.Millisecond)
	r.raw.Timeout = 250 * time.Millisecond
	defer func() { r.raw.Timeout = 5 * time.Second }()
	for time.Now().Before(deadline) {
		l, err := r.raw.ReadLine()
		if err == io.EOF {
			r.closed = true
			break
		}
		if err == srv.ErrTimeout {
			if final != nil {
				break
			}
			continue
		}
		if final != nil {
			r.raw.Timeout = 150 * time.Millisecond // only a short quiet period after the completion
		}
		if err != nil {
			r.fail(t, "server output after an oversized literal header is malformed: %v", err)
		}
		r.log("  <- %s", clip(strings.TrimRight(string(l.Raw), "\r\n")))
		if l.IsCont {
			r.fail(t, "continuation request after the non-synchronising literal header {%d+}", a.announced)
		}
		if l.Status != "" && l.Tag != "*" {
			r.answered = append(r.answered, l.Tag)
			if l.Tag != c.tag {
				r.fail(t, "after %s the server answered tag %q, which is literal payload: %q", c.String(), l.Tag, l.Raw)
			}
			if l.Status == "OK" {
				r.fail(t, "%s announced %d octets (more than the server may accept or than were sent) and was answered OK", c.String(), a.announced)
			}
			final = l
			r.raw.Timeout = 150 * time.Millisecond
		}
	}
	r.closed = true // nothing more can be framed on this connection
	return final
}

// ---------------------------------------------------------------- generators

var canaries = []string{"zz1 DELETE canarybox\r\n", "zz2 LOGIN canaryuser canarypass\r\n", "\r\nzz3 CREATE canarybox\r\n", "zz4 NOOP\r\n", "zz5 LOGOUT\r\n"}

func genPayload(t *rapid.T, label string, size int) string {
	var sb strings.Builder
	for sb.Len() < size {
		switch rapid.IntRange(0, 5).Draw(t, label+".pk") {
		case 0, 1:
			sb.WriteString(rapid.SampledFrom(canaries).Draw(t, label+".canary"))
		case 2:
			sb.WriteString(rapid.SampledFrom([]string{"\"", "{5}", "{3+}\r\nabc", "(", ")", "\\", " ", "\r\n", "]", "&AA0ACg-"}).Draw(t, label+".junk"))
		default:
			sb.WriteString(rapid.SampledFrom([]string{"hello", "user", "Subject: x\r\n", "a b c", "payload", "h\u00e9llo", "\u53f0"}).Draw(t, label+".txt"))
		}
	}
	s := sb.String()
	if size >= 0 && len(s) > size {
		s = s[:size]
	}
	return s
}

func genArg(t *rapid.T, label string, stream bool) arg {
	form := rapid.SampledFrom([]string{"atom", "quoted", "sync", "sync", "nonsync", "nonsync"}).Draw(t, label+".form")
	if stream {
		form = rapid.SampledFrom([]string{"sync", "nonsync"}).Draw(t, label+".form")
	}
	switch form {
	case "atom":
		return arg{val: rapid.StringMatching(`[a-z][a-z0-9]{0,8}`).Draw(t, label+".atom"), form: form}
	case "quoted":
		// (the last two are modified UTF-7: they decode to names containing CR LF,
		// which the responses echoing them must not carry in the clear)
		v := rapid.SampledFrom([]string{"", "a b", "x\"y", "back\\slash", "plain", "zz1 DELETE canarybox", "{5}", "evil&AA0ACg-zz4 NOOP", "&AAo-zz1 DELETE canarybox&AA0ACg-x"}).Draw(t, label+".q")
		return arg{val: v, form: form}
	}
	sizes := []int{0, 1, 20, 60, 300, 4095, 4096, 4097, 5000}
	size := rapid.SampledFrom(sizes).Draw(t, label+".size")
	a := arg{val: genPayload(t, label, size), form: form}
	a.announced = int64(len(a.val))
	// oversize announcements (more than is sent)
	if rapid.IntRange(0, 7).Draw(t, label+".over") == 5 {
		over := []int64{appendLimit + 1, 1 << 31, 1<<63 - 1}
		if !stream {
			over = append(over, 4097, 5000, 70000)
		}
		a.announced = rapid.SampledFrom(over).Draw(t, label+".announced")
		if int64(len(a.val)) >= a.announced {
			a.val = a.val[:a.announced-1]
		}
		if len(a.val) > maxSend {
			a.val = a.val[:maxSend]
		}
	}
	return a
}

// genCommand draws a command; with a small probability command-like text is
// glued to its end on the same line (no CRLF in between): the line is then one
// malformed command, which must be answered once (not OK) and whose tail must
// not be executed.
func genCommand(t *rapid.T, i int) command {
	c := genCommand1(t, i)
	last := byte(0)
	if c.post != "" {
		last = c.post[len(c.post)-1]
	} else if len(c.args) > 0 {
		switch c.args[len(c.args)-1].form {
		case "quoted":
			last = '"'
		case "sync", "nonsync":
			last = '}'
		}
	}
	if (last == ')' || last == ']' || last == '"' || last == '}') && !c.mustFail && rapid.IntRange(0, 5).Draw(t, "sameline") == 3 {
		c.post += rapid.SampledFrom([]string{"zz1 DELETE canarybox", "zz4 NOOP", "zz2 LOGIN canaryuser canarypass"}).Draw(t, "tail")
		c.mustFail = true
	}
	return c
}

// genMisplaced: a literal where the grammar has no string (a date, a number, a
// sequence set, a flag, a status item), often of size 0. The command is
// malformed and must fail, but it is still framed by the literal: its data and
// the rest of its line belong to it and are never commands of their own.
func genMisplaced(t *rapid.T, tag string) command {
	form := rapid.SampledFrom([]string{"sync", "nonsync", "nonsync"}).Draw(t, "mis.form")
	val := rapid.SampledFrom([]string{"", "", "", "x", "zz4 NOOP\r\n", "zz1 DELETE canarybox\r\n"}).Draw(t, "mis.val")
	a := arg{val: val, form: form, announced: int64(len(val))}
	post := rapid.SampledFrom([]string{"", " UNSEEN", "zz4 NOOP", " zz1 DELETE canarybox", "zz2 LOGIN canaryuser canarypass"}).Draw(t, "mis.post")
	switch rapid.SampledFrom([]string{"date", "date", "number", "set", "flag", "item"}).Draw(t, "mis.pos") {
	case "date":
		key := rapid.SampledFrom([]string{"SINCE", "BEFORE", "ON", "SENTSINCE", "SENTBEFORE", "SENTON"}).Draw(t, "mis.key")
		return command{tag: tag, kind: "SEARCH", pre: "SEARCH " + key + " ", args: []arg{a}, post: post, method: "Search", mustFail: true}
	case "number":
		return command{tag: tag, kind: "SEARCH", pre: "SEARCH LARGER ", args: []arg{a}, post: post, method: "Search", mustFail: true}
	case "set":
		return command{tag: tag, kind: "FETCH", pre: "FETCH ", args: []arg{a}, post: " FLAGS" + post, method: "Fetch", mustFail: true}
	case "flag":
		return command{tag: tag, kind: "STORE", pre: "STORE 1 +FLAGS ", args: []arg{a}, post: post, method: "Store", mustFail: true}
	}
	return command{tag: tag, kind: "STATUS", pre: "STATUS box (", args: []arg{a}, post: ")" + post, method: "Status", mustFail: true}
}

// genFailsEarly: a command that is rejected before the server has looked at
// its last argument, a non-synchronising literal, on a line that holds an
// earlier '{' (inside a quoted string). The literal still frames the command.
func genFailsEarly(t *rapid.T, tag string) command {
	val := rapid.SampledFrom([]string{"zz1 DELETE canarybox\r\n", "zz4 NOOP\r\n", "hello", "zz3 CREATE canarybox\r\nzz4 NOOP\r\n"}).Draw(t, "early.val")
	a := arg{val: val, form: "nonsync", announced: int64(len(val))}
	pre := rapid.SampledFrom([]string{
		"SEARCH CHARSET X-NO-SUCH-CHARSET SUBJECT \"{x\" BODY ",
		"SEARCH CHARSET ISO-8859-15 HEADER \"{5}\" \"{\" TEXT ",
		"NOOP \"{1\" ",
		"XNOSUCHCOMMAND \"a{b\" {2} ",
		"CHECK \"{\" ",
		"FETCH 1 (BODY[HEADER.FIELDS (\"{x\")] BOGUS) ",
	}).Draw(t, "early.pre")
	return command{tag: tag, kind: "EARLYFAIL", pre: pre, args: []arg{a}, mustFail: true}
}

func genCommand1(t *rapid.T, i int) command {
	tag := fmt.Sprintf("c%d", i)
	if rapid.IntRange(0, 7).Draw(t, "misplaced-literal") == 0 {
		return genMisplaced(t, tag)
	}
	if rapid.IntRange(0, 11).Draw(t, "fails-early") == 0 {
		return genFailsEarly(t, tag)
	}
	switch rapid.SampledFrom([]string{"LOGIN", "SELECT", "CREATE", "STATUS", "LIST", "SEARCH", "SEARCH2", "APPEND", "APPEND", "FETCH", "NOOP", "AUTHENTICATE", "IDLE", "RENAME", "COPY"}).Draw(t, "cmd") {
	case "LOGIN":
		return command{tag: tag, kind: "LOGIN", pre: "LOGIN ", args: []arg{genArg(t, "user", false), genArg(t, "pass", false)}, method: "Login", argKey: []string{"username", "password"}}
	case "SELECT":
		return command{tag: tag, kind: "SELECT", pre: "SELECT ", args: []arg{genArg(t, "mbox", false)}, method: "Select", argKey: []string{"mailbox"}}
	case "CREATE":
		return command{tag: tag, kind: "CREATE", pre: "CREATE ", args: []arg{genArg(t, "mbox", false)}, method: "Create", argKey: []string{"mailbox"}}
	case "RENAME":
		return command{tag: tag, kind: "RENAME", pre: "RENAME ", args: []arg{genArg(t, "old", false), genArg(t, "new", false)}, method: "Rename", argKey: []string{"mailbox", "newName"}}
	case "STATUS":
		return command{tag: tag, kind: "STATUS", pre: "STATUS ", args: []arg{genArg(t, "mbox", false)}, post: " (MESSAGES)", method: "Status", argKey: []string{"mailbox"}}
	case "LIST":
		return command{tag: tag, kind: "LIST", pre: "LIST ", args: []arg{genArg(t, "ref", false), genArg(t, "pat", false)}, method: "List"}
	case "SEARCH":
		return command{tag: tag, kind: "SEARCH", pre: "SEARCH SUBJECT ", args: []arg{genArg(t, "subj", false)}, method: "Search"}
	case "SEARCH2":
		return command{tag: tag, kind: "SEARCH", pre: "SEARCH HEADER ", args: []arg{genArg(t, "hk", false), genArg(t, "hv", false)}, post: " UNSEEN", method: "Search"}
	case "APPEND":
		mb := genArg(t, "mbox", false)
		c := command{tag: tag, kind: "APPEND", pre: "APPEND ", args: []arg{mb, genArg(t, "msg", true)}, stream: true, method: "Append", argKey: []string{"mailbox", "payload"}}
		if rapid.IntRange(0, 3).Draw(t, "trailing") == 2 {
			// bytes after the message literal: the command is complete at the next
			// CRLF and must still get exactly one tagged (non-OK) completion
			c.post = rapid.SampledFrom([]string{" junk", " (x)", "junk", " \"q\""}).Draw(t, "junk")
			c.mustFail = true
		}
		return c
	case "COPY":
		verb := rapid.SampledFrom([]string{"COPY", "UID COPY", "MOVE", "UID MOVE"}).Draw(t, "copyverb")
		m := "Copy"
		if strings.HasSuffix(verb, "MOVE") {
			m = "Move"
		}
		return command{tag: tag, kind: "COPY", pre: verb + " 1:3 ", args: []arg{genArg(t, "dest", false)}, method: m, argKey: []string{"dest"}}
	case "FETCH":
		return command{tag: tag, kind: "FETCH", pre: "FETCH 1 BODY[HEADER.FIELDS (", args: []arg{genArg(t, "h1", false), genArg(t, "h2", false)}, post: ")]", method: "Fetch"}
	case "AUTHENTICATE":
		return command{tag: tag, kind: "AUTHENTICATE", pre: "AUTHENTICATE PLAIN", method: "Login"}
	case "IDLE":
		return command{tag: tag, kind: "IDLE", pre: "IDLE", method: "Idle"}
	}
	return command{tag: tag, kind: "NOOP", pre: "NOOP"}
}

// sameArg: the backend value is the sent value, possibly after modified UTF-7
// decoding (mailbox names, LIST references and patterns).
func sameArg(sent, got string) bool {
	if sent == got {
		return true
	}
	dec, why := refutf7.Decode(sent)
	return why == "" && dec == got
}

func callArgString(v any) (string, bool) {
	switch x := v.(type) {
	case string:
		return x, true
	case []byte:
		return string(x), true
	}
	return "", false
}

// checkCalls: every recorded backend call must belong to a sent command, in
// order, and no argument may stem from literal payload that was not accepted
// as that very argument.
func (r *run) checkCalls(t fataler, cmds []command, status map[string]string) {
	calls := r.core.Calls()
	ci := 0
	for _, call := range calls {
		if call.Method == "Unselect" {
			continue // SELECT from selected state
		}
		// find the next command (in order) that can own this call: same method,
		// answered OK (or unanswered, or a streamed APPEND with trailing junk),
		// and carrying exactly these arguments
		argsMatch := func(c command) bool {
			for i, k := range c.argKey {
				got, ok := callArgString(call.Args[k])
				if !ok {
					continue
				}
				want := c.args[i].val
				if k == "mailbox" || k == "newName" || k == "dest" {
					// mailbox arguments travel in modified UTF-7
					if dec, why := refutf7.Decode(want); why == "" {
						want = dec
					}
					if strings.EqualFold(want, "INBOX") {
						want = "INBOX"
					}
				}
				if got != want {
					return false
				}
			}
			if len(c.argKey) == 0 {
				// no keyed comparison for this command kind (LIST, SEARCH, FETCH):
				// a string argument of the call that looks like payload must at
				// least be one of the arguments this command carried, otherwise a
				// later command of the same kind is the owner
				for _, v := range call.Args {
					if s, ok := callArgString(v); ok && strings.Contains(s, "canary") {
						carried := false
						for _, a := range c.args {
							carried = carried || sameArg(a.val, s)
						}
						if !carried {
							return false
						}
					}
				}
			}
			return true
		}
		found := -1
		for j := ci; j < len(cmds); j++ {
			st, answered := status[cmds[j].tag]
			if cmds[j].method == call.Method && (!answered || st == "OK" || cmds[j].mustFail) && argsMatch(cmds[j]) {
				found = j
				break
			}
		}
		if found < 0 {
			r.fail(t, "backend call %s matches no command that was sent and answered OK (searching from command index %d): literal payload or misframed input was executed, or an argument was altered", clip(call.String()), ci)
		}
		c := cmds[found]
		ci = found + 1
		for k, v := range call.Args {
			s, ok := callArgString(v)
			if ok && strings.Contains(s, "canary") && !r.accepted[s] {
				quotedArg := false
				for _, a := range c.args {
					if sameArg(a.val, s) {
						quotedArg = true
					}
				}
				if !quotedArg {
					r.fail(t, "backend call %s: argument %s = %q contains literal payload text that was not accepted as this argument", call.Method, k, clip(s))
				}
			}
		}
	}
	// every command answered OK that reaches the backend must have its call
	for _, c := range cmds {
		if status[c.tag] == "OK" && c.method != "" {
			n := 0
			for _, call := range calls {
				if call.Method == c.method {
					n++
				}
			}
			if n == 0 {
				r.fail(t, "%s was answered OK but the backend never saw %s", c.String(), c.method)
			}
		}
	}
}

func runStream(t fataler, cfg config, cmds []command, batch bool) (r *run, status map[string]string) {
	r = start(t, cfg)
	defer r.stop()
	status = map[string]string{}
	var sentCmds []command
	if batch {
		// all commands in one write (no synchronising literal, all honest)
		var sb strings.Builder
		for _, c := range cmds {
			sb.WriteString(c.tag + " " + c.pre)
			for i, a := range c.args {
				if i > 0 {
					sb.WriteString(" ")
				}
				switch a.form {
				case "atom":
					sb.WriteString(a.val)
				case "quoted":
					sb.WriteString(`"` + strings.NewReplacer(`\`, `\\`, `"`, `\"`).Replace(a.val) + `"`)
				case "nonsync":
					fmt.Fprintf(&sb, "{%d+}\r\n%s", len(a.val), a.val)
					if len(a.val) <= 4096 || (cfg.literalPlus && (!c.stream || i != len(c.args)-1 || len(a.val) <= appendLimit)) {
						r.accepted[a.val] = true
					}
				}
			}
			sb.WriteString(c.post + "\r\n")
		}
		r.log("batch of %d commands in one write", len(cmds))
		for _, c := range cmds {
			r.log("%s", c.String())
		}
		r.write(sb.String())
		for _, c := range cmds {
			if r.closed {
				break
			}
			sentCmds = append(sentCmds, c)
			res, line := r.readUntil(t, c.tag, false, "waiting for the completion of "+c.tag+" (batch)")
			if res == gotTagged {
				status[c.tag] = line.Status
			} else {
				legit := false
				for _, a := range c.args {
					if a.form == "nonsync" && len(a.val) > 4096 && !cfg.literalPlus {
						legit = true
					}
				}
				if !legit {
					ev.Class("server-closed-without-refused-nonsync-literal")
				}
			}
		}
	} else {
		for _, c := range cmds {
			if r.closed {
				break
			}
			sentCmds = append(sentCmds, c)
			line := r.exec(t, c)
			if line != nil {
				status[c.tag] = line.Status
			}
		}
	}
	// sentinel: framing must still be in sync
	if !r.closed {
		r.log("zend NOOP (sentinel)")
		r.write("zend NOOP\r\n")
		for {
			l, err := r.raw.ReadLine()
			if err == io.EOF {
				// closing the connection is always permitted by the statement
				r.closed = true
				ev.Class("server-closed-before-sentinel")
				break
			}
			if err != nil {
				r.fail(t, "the sentinel command after the stream was not answered: %v", err)
			}
			if l.Status != "" && l.Tag != "*" {
				if l.Tag != "zend" || l.Status != "OK" {
					r.fail(t, "the sentinel NOOP was answered %q: the server lost command framing", clip(string(l.Raw)))
				}
				break
			}
			if l.IsCont {
				r.fail(t, "continuation request %q while only the sentinel NOOP was pending", l.Raw)
			}
		}
	}
	r.raw.Close()
	// reference framer cross-check (only meaningful when every literal is honest)
	if r.honest {
		lines, rest, err := tok.All(r.sent, false)
		if err == nil && len(rest) == 0 {
			var tags []string
			for _, l := range lines {
				if len(l.Toks) > 0 && l.Toks[0].Kind == tok.Atom && l.Toks[0].S != "DONE" && !isBase64Line(l) {
					tags = append(tags, l.Toks[0].S)
				}
			}
			for _, a := range r.answered {
				ok := false
				for _, tg := range tags {
					if tg == a {
						ok = true
					}
				}
				if !ok {
					r.fail(t, "answered tag %q is not a command tag according to the reference framer (tags: %v)", a, tags)
				}
			}
		}
	}
	// order/uniqueness of tagged completions
	seen := map[string]bool{}
	idx := 0
	for _, a := range r.answered {
		if seen[a] {
			r.fail(t, "tag %q was answered twice", a)
		}
		seen[a] = true
		for idx < len(sentCmds) && sentCmds[idx].tag != a {
			idx++
		}
		if idx == len(sentCmds) {
			r.fail(t, "tagged completions %v are not in the order the commands were sent", r.answered)
		}
	}
	r.checkCalls(t, sentCmds, status)
	if p := r.env.Log.Panics(); len(p) > 0 {
		r.fail(t, "server panicked: %v", p)
	}
	return r, status
}

func isBase64Line(l *tok.Line) bool {
	return len(l.Toks) == 1 && strings.HasPrefix(l.Toks[0].S, "AGF1dGh1c2Vy")
}

func genConfig(t *rapid.T) config {
	c := config{
		literalPlus: rapid.Bool().Draw(t, "literalPlus"),
		rev2only:    rapid.IntRange(0, 3).Draw(t, "rev2only") == 2,
		state:       rapid.SampledFrom([]string{"notauth", "auth", "selected", "selected"}).Draw(t, "state"),
		utf8:        rapid.Bool().Draw(t, "utf8"),
	}
	// what the backend reports for COPY/MOVE: nothing, copied messages, or no
	// message matched (empty sets, as the in-memory backend does)
	switch rapid.IntRange(0, 2).Draw(t, "copydata") {
	case 0:
		c.copyData = nil
	case 1:
		c.copyData = &imap.CopyData{UIDValidity: 7, SourceUIDs: imap.UIDSetNum(1, 2), DestUIDs: imap.UIDSetNum(8, 9)}
	default:
		c.copyData = &imap.CopyData{UIDValidity: 7}
	}
	return c
}

func TestPropFraming(t *testing.T) {
	rapid.Check(t, func(t *rapid.T) {
		cfg := genConfig(t)
		n := rapid.IntRange(1, 6).Draw(t, "ncmds")
		var cmds []command
		canBatch := true
		for i := 0; i < n; i++ {
			c := genCommand(t, i)
			cmds = append(cmds, c)
			if c.kind == "AUTHENTICATE" || c.kind == "IDLE" {
				canBatch = false
			}
			for _, a := range c.args {
				if a.form == "sync" || !a.honest() {
					canBatch = false
				}
			}
		}
		batch := canBatch && rapid.Bool().Draw(t, "batch")
		t0 := time.Now()
		r, status := runStream(t, cfg, cmds, batch)
		if d := time.Since(t0); d > 400*time.Millisecond && os.Getenv("VERIF_SLOW") != "" {
			fmt.Fprintf(os.Stderr, "SLOW %v: %s\n", d, strings.Join(r.hist, " | "))
		}
		ev.Eval()
		nt := false
		for _, c := range cmds {
			ev.Class("cmd:" + c.kind)
			for _, a := range c.args {
				if a.form == "sync" || a.form == "nonsync" {
					refused := a.announced > 4096 && !(c.stream && a.announced <= appendLimit && (a.form == "sync" || cfg.literalPlus))
					cl := "accepted"
					if refused {
						cl = "refused"
						nt = true
					}
					if strings.Contains(a.val, "\r\n") || strings.Contains(a.val, "canary") {
						nt = true
					}
					ev.Class(fmt.Sprintf("literal:%s:%s", a.form, cl))
					if !a.honest() {
						ev.Class("literal:announced>sent")
					}
				}
			}
		}
		if batch {
			ev.Class("batch")
		}
		ev.Class("state:" + cfg.state)
		if nt {
			ev.NonTrivial(cfg.String() + fmt.Sprint(cmds))
		}
		_ = status
		ev.Sample(cfg.String() + " :: " + strings.Join(r.hist, " | "))
	})
}

// TestReplayFindings: the shrunk reproducers of the fixed findings F-C04a-e.
func TestReplayFindings(t *testing.T) {
	big := strings.Repeat("user pass\r\nzz1 DELETE canarybox\r\nzz2 LOGIN canaryuser canarypass\r\n", 90)[:5000]
	lit := func(v, form string) arg { return arg{val: v, form: form, announced: int64(len(v))} }
	atom := func(v string) arg { return arg{val: v, form: "atom"} }
	cases := []struct {
		name string
		cfg  config
		cmds []command
	}{
		{"F-C04a refused non-sync literal: payload must not become arguments or commands", config{state: "notauth"}, []command{
			{tag: "c0", kind: "LOGIN", pre: "LOGIN ", args: []arg{lit(big, "nonsync"), atom("x")}, method: "Login", argKey: []string{"username", "password"}},
			{tag: "c1", kind: "NOOP", pre: "NOOP"}}},
		{"F-C04b refused sync literal: tagged reply without waiting, next command intact", config{state: "notauth"}, []command{
			{tag: "c0", kind: "LOGIN", pre: "LOGIN ", args: []arg{lit(big, "sync"), atom("x")}, method: "Login", argKey: []string{"username", "password"}},
			{tag: "c1", kind: "LOGIN", pre: "LOGIN ", args: []arg{atom("realuser"), atom("realpass")}, method: "Login", argKey: []string{"username", "password"}}}},
		{"F-C04c APPEND non-sync literal over 4096 without LITERAL+", config{state: "auth"}, []command{
			{tag: "c0", kind: "APPEND", pre: "APPEND ", args: []arg{atom("box"), lit(big, "nonsync")}, stream: true, method: "Append", argKey: []string{"mailbox", "payload"}},
			{tag: "c1", kind: "NOOP", pre: "NOOP"}}},
		{"F-C04c APPEND over the append limit, non-sync", config{state: "auth", literalPlus: true}, []command{
			{tag: "c0", kind: "APPEND", pre: "APPEND ", args: []arg{atom("box"), {val: big, form: "nonsync", announced: appendLimit + 1}}, stream: true, method: "Append", argKey: []string{"mailbox", "payload"}}}},
		{"F-C04d APPEND literal followed by garbage", config{state: "auth"}, []command{
			{tag: "c0", kind: "APPEND", pre: "APPEND ", args: []arg{atom("box"), lit("hello", "nonsync")}, post: " junk", mustFail: true, stream: true, method: "Append", argKey: []string{"mailbox", "payload"}},
			{tag: "c1", kind: "NOOP", pre: "NOOP"}}},
		{"F-C04f error on a literal argument: the same-line tail must be discarded", config{state: "auth"}, []command{
			{tag: "c0", kind: "SELECT", pre: "SELECT ", args: []arg{lit("bad&utf7\r\nname", "sync")}, post: "zz1 DELETE canarybox", mustFail: true, method: "Select", argKey: []string{"mailbox"}},
			{tag: "c1", kind: "NOOP", pre: "NOOP"}}},
		{"F-C04g failure before a later non-sync literal: its data must not be executed", config{state: "auth"}, []command{
			{tag: "c0", kind: "APPEND", pre: "APPEND ", args: []arg{lit("bad&utf7\r\nname", "nonsync"), lit("hello\r\nzz1 DELETE canarybox\r\nzz3 CREATE canarybox\r\n", "nonsync")}, stream: true, method: "Append", argKey: []string{"mailbox", "payload"}},
			{tag: "c1", kind: "NOOP", pre: "NOOP"}}},
		{"F-C04e COPY with no message copied", config{state: "selected", copyData: &imap.CopyData{UIDValidity: 7}}, []command{
			{tag: "c0", kind: "COPY", pre: "COPY 1:3 ", args: []arg{atom("dest")}, method: "Copy", argKey: []string{"dest"}},
			{tag: "c1", kind: "COPY", pre: "UID MOVE 1:3 ", args: []arg{atom("dest")}, method: "Move", argKey: []string{"dest"}},
			{tag: "c2", kind: "NOOP", pre: "NOOP"}}},
	}
	for _, c := range cases {
		for _, batch := range []bool{false, true} {
			ok := true
			for _, cmd := range c.cmds {
				for _, a := range cmd.args {
					if a.form == "sync" || !a.honest() {
						ok = false
					}
				}
			}
			if batch && !ok {
				continue
			}
			func() {
				defer func() {
					if r := recover(); r != nil {
						t.Fatalf("%s: %v", c.name, r)
					}
				}()
				runStream(prefixFataler{t, c.name}, c.cfg, c.cmds, batch)
			}()
			ev.Eval()
			ev.NonTrivial(fmt.Sprint(c.name, batch))
		}
	}
}

type prefixFataler struct {
	t    *testing.T
	name string
}

func (p prefixFataler) Fatalf(f string, a ...any) { p.t.Fatalf(p.name+": "+f, a...) }
