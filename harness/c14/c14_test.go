// Package c14 checks C14: sessions operating concurrently on one user's
// mailboxes through the real server and the in-memory backend never block each
// other for ever and never race. Build with -race.
//
// A trial runs 2..8 sessions, each in its own goroutine with its own raw
// connection, each executing a generated list of commands over 3 shared
// mailboxes (pairs of sessions copy and move in opposite directions, expunge
// during fetches, list during create/rename/delete, idle). Oracles: every
// command gets its tagged completion within the watchdog (otherwise the
// goroutine dump of the server is the report), the server log holds no panic,
// no connection is dropped, and the race detector stays silent.
package c14

import (
	"fmt"
	"os"
	"runtime"
	"strings"
	"sync"
	"testing"
	"time"

	"github.com/emersion/go-imap/v2/verifh/kit/ev"
	"github.com/emersion/go-imap/v2/verifh/kit/mem"
	"pgregory.net/rapid"
)

func TestMain(m *testing.M) { ev.Main(m) }

var boxes = []string{"A", "B", "C"}

type fataler interface {
	Fatalf(string, ...any)
}

// op is one step of a session program.
type op struct {
	kind string // select, copy, move, fetch, store, expunge, append, list, status, create, delete, rename, idle, noop, search, close
	box  string
	arg  string
}

func (o op) String() string { return strings.TrimSpace(o.kind + " " + o.box + " " + o.arg) }

type trial struct {
	progs  [][]op
	procs  int
	preload int
}

func (tr trial) String() string {
	var p []string
	for i, prog := range tr.progs {
		var l []string
		for _, o := range prog {
			l = append(l, o.String())
		}
		p = append(p, fmt.Sprintf("S%d[%s]", i, strings.Join(l, "; ")))
	}
	return fmt.Sprintf("GOMAXPROCS=%d preload=%d %s", tr.procs, tr.preload, strings.Join(p, " "))
}

const watchdog = 20 * time.Second

func serverStacks() string {
	buf := make([]byte, 4<<20)
	buf = buf[:runtime.Stack(buf, true)]
	var keep []string
	for _, g := range strings.Split(string(buf), "\n\n") {
		if strings.Contains(g, "go-imap/v2/imapserver") {
			if len(g) > 2500 {
				g = g[:2500] + "\n\t…"
			}
			keep = append(keep, g)
		}
	}
	if len(keep) > 16 {
		keep = keep[:16]
	}
	return strings.Join(keep, "\n\n")
}

func persist(tr trial) {
	if path := os.Getenv("VERIF_INFLIGHT"); path != "" {
		os.WriteFile(path, []byte(fmt.Sprintf("{\"property\":\"C14\",\"what\":\"trial running when the process died\",\"trial\":%q}", tr.String())), 0o644)
	}
}

func unpersist() {
	if path := os.Getenv("VERIF_INFLIGHT"); path != "" {
		os.Remove(path)
	}
}

var msgText = []byte("From: a@example.org\r\nSubject: stress\r\n\r\n" + strings.Repeat("body line of the stress message\r\n", 6))

// runTrial returns the number of commands that completed.
func runTrial(t fataler, tr trial) int {
	persist(tr)
	defer unpersist()
	old := runtime.GOMAXPROCS(tr.procs)
	defer runtime.GOMAXPROCS(old)
	w := mem.Start(boxes...)
	stopped := false
	defer func() {
		if !stopped {
			go w.Stop() // after a deadlock Stop may never return
		}
	}()
	setup, err := w.Dial()
	if err != nil {
		t.Fatalf("dial: %v", err)
	}
	for _, b := range boxes {
		for i := 0; i < tr.preload; i++ {
			if _, st, err := setup.Append(b, `(\Deleted)`, msgText); err != nil || st.Status != "OK" {
				t.Fatalf("preload: %v %v", st, err)
			}
		}
	}
	setup.Close()
	conns := make([]*mem.Conn, len(tr.progs))
	for i := range tr.progs {
		c, err := w.Dial()
		if err != nil {
			t.Fatalf("dial: %v", err)
		}
		c.Raw.Timeout = watchdog
		conns[i] = c
	}
	var mu sync.Mutex
	var problems []string
	completed := 0
	var wg sync.WaitGroup
	start := make(chan struct{})
	for i, prog := range tr.progs {
		wg.Add(1)
		go func(i int, prog []op, c *mem.Conn) {
			defer wg.Done()
			<-start
			for _, o := range prog {
				var err error
				text := ""
				switch o.kind {
				case "append":
					text = "APPEND " + o.box
					_, _, err = c.Append(o.box, "", msgText)
				case "idle":
					text = "IDLE"
					if err = c.StartIdle(); err == nil {
						time.Sleep(200 * time.Microsecond)
						_, _, err = c.Done()
					}
				default:
					text = render(o)
					_, _, err = c.Do(strings.Fields(text)[0], false, text)
				}
				if err != nil {
					mu.Lock()
					problems = append(problems, fmt.Sprintf("session %d: %q did not complete: %v", i, text, err))
					mu.Unlock()
					return
				}
				mu.Lock()
				completed++
				mu.Unlock()
			}
		}(i, prog, conns[i])
	}
	close(start)
	done := make(chan struct{})
	go func() { wg.Wait(); close(done) }()
	select {
	case <-done:
	case <-time.After(watchdog + 10*time.Second):
		mu.Lock()
		problems = append(problems, "sessions still running after the watchdog")
		mu.Unlock()
	}
	mu.Lock()
	p := append([]string(nil), problems...)
	n := completed
	mu.Unlock()
	if len(p) > 0 {
		var tails []string
		for i, c := range conns {
			l := c.Log
			if len(l) > 6 {
				l = l[len(l)-6:]
			}
			tails = append(tails, fmt.Sprintf("-- session %d:\n   %s", i, strings.Join(l, "\n   ")))
		}
		t.Fatalf("%s\ntrial: %s\nserver log: %v\nlast lines per session:\n%s\nserver goroutines:\n%s", strings.Join(p, "\n"), tr, w.Env.Log.Lines(), strings.Join(tails, "\n"), serverStacks())
	}
	if ps := w.Env.Log.Panics(); len(ps) > 0 {
		t.Fatalf("server log reports a panic: %s\ntrial: %s", strings.Join(ps, " | "), tr)
	}
	for _, c := range conns {
		c.Close()
	}
	stopped = true
	w.Stop()
	return n
}

func render(o op) string {
	switch o.kind {
	case "select":
		return "SELECT " + o.box
	case "copy":
		return "COPY " + o.arg + " " + o.box
	case "move":
		return "MOVE " + o.arg + " " + o.box
	case "uidcopy":
		return "UID COPY " + o.arg + " " + o.box
	case "fetch":
		return "FETCH " + o.arg + " (UID FLAGS BODY.PEEK[])"
	case "fetchseen":
		return "FETCH " + o.arg + " (BODY[TEXT])"
	case "store":
		return "STORE " + o.arg + " +FLAGS (\\Deleted kw)"
	case "unstore":
		return "UID STORE " + o.arg + " -FLAGS (\\Deleted)"
	case "expunge":
		return "EXPUNGE"
	case "list":
		return `LIST "" "*" RETURN (STATUS (MESSAGES UNSEEN))`
	case "lsub":
		return `LIST (SUBSCRIBED) "" "*"`
	case "status":
		return "STATUS " + o.box + " (MESSAGES UIDNEXT UNSEEN SIZE)"
	case "create":
		return "CREATE " + o.arg
	case "delete":
		return "DELETE " + o.arg
	case "rename":
		return "RENAME " + o.box + " " + o.arg
	case "subscribe":
		return "SUBSCRIBE " + o.box
	case "noop":
		return "NOOP"
	case "search":
		return "SEARCH OR DELETED TEXT stress"
	case "uidsearch":
		return "UID SEARCH RETURN (ALL COUNT) UNDELETED " + o.arg
	case "close":
		return "CLOSE"
	case "unselect":
		return "UNSELECT"
	}
	panic("unknown op " + o.kind)
}

var sets = []string{"1:*", "1:*", "1", "*", "2:4", "1:3,5:*", "3:1"}
var extra = []string{"X", "Y", "X/sub"}

func genProg(t *rapid.T, home string) []op {
	prog := []op{{kind: "select", box: home}}
	n := rapid.IntRange(2, 9).Draw(t, "nops")
	kinds := []string{"copy", "copy", "move", "move", "uidcopy", "fetch", "fetch", "fetchseen", "store", "unstore", "expunge", "append", "append", "list", "lsub",
		"status", "create", "delete", "rename", "subscribe", "idle", "noop", "search", "uidsearch", "select", "close"}
	selected := true
	for i := 0; i < n; i++ {
		k := rapid.SampledFrom(kinds).Draw(t, "kind")
		o := op{kind: k, box: rapid.SampledFrom(boxes).Draw(t, "box"), arg: rapid.SampledFrom(sets).Draw(t, "set")}
		switch k {
		case "create", "delete":
			o.arg = rapid.SampledFrom(extra).Draw(t, "name")
		case "rename":
			o.box, o.arg = rapid.SampledFrom(extra).Draw(t, "from"), rapid.SampledFrom(extra).Draw(t, "to")
		case "select":
			selected = true
		case "close":
			if !selected {
				continue
			}
			selected = false
		case "copy", "move", "uidcopy", "fetch", "fetchseen", "store", "unstore", "expunge", "search", "uidsearch", "idle":
			if !selected {
				prog = append(prog, op{kind: "select", box: home})
				selected = true
			}
		}
		prog = append(prog, o)
	}
	return prog
}

func genTrial(t *rapid.T) trial {
	tr := trial{procs: rapid.SampledFrom([]int{2, 4, 8, 16}).Draw(t, "gomaxprocs"), preload: rapid.SampledFrom([]int{3, 12, 40}).Draw(t, "preload")}
	n := rapid.IntRange(2, 8).Draw(t, "sessions")
	for i := 0; i < n; i++ {
		tr.progs = append(tr.progs, genProg(t, boxes[i%len(boxes)]))
	}
	return tr
}

func opposite(tr trial) bool {
	// two sessions copying/moving between the same two mailboxes in opposite directions
	type edge struct{ from, to string }
	seen := map[edge]int{}
	for i, prog := range tr.progs {
		cur := ""
		for _, o := range prog {
			switch o.kind {
			case "select":
				cur = o.box
			case "close":
				cur = ""
			case "copy", "move", "uidcopy":
				if cur != "" && cur != o.box {
					if j, ok := seen[edge{o.box, cur}]; ok && j != i+1 {
						return true
					}
					seen[edge{cur, o.box}] = i + 1
				}
			}
		}
	}
	return false
}

func TestPropStress(t *testing.T) {
	rapid.Check(t, func(t *rapid.T) {
		tr := genTrial(t)
		n := runTrial(t, tr)
		ev.Eval()
		ev.ClassN("commands-completed", int64(n))
		ev.Class(fmt.Sprintf("sessions=%d", len(tr.progs)))
		if opposite(tr) {
			ev.NonTrivial(tr.String())
			ev.Class("opposite-direction-copy/move-pair")
		}
		ev.Sample(tr.String())
	})
}

// TestReplayScenarios: fixed programs for the interleavings the property
// names, repeated many times under varying GOMAXPROCS.
func TestReplayScenarios(t *testing.T) {
	reps := 40
	if ev.Thorough() {
		reps = 600
	}
	loop := func(k string, box, arg string, n int) []op {
		var l []op
		for i := 0; i < n; i++ {
			l = append(l, op{kind: k, box: box, arg: arg})
		}
		return l
	}
	sel := func(b string) []op { return []op{{kind: "select", box: b}} }
	for i := 0; i < reps; i++ {
		procs := []int{2, 4, 16}[i%3]
		// copies and moves in opposite directions
		runTrial(t, trial{procs: procs, preload: 40, progs: [][]op{
			append(sel("A"), loop("copy", "B", "1:*", 4)...),
			append(sel("B"), loop("copy", "A", "1:*", 4)...),
			append(sel("A"), loop("move", "B", "1:3", 4)...),
			append(sel("B"), loop("move", "A", "1:3", 4)...),
		}})
		// expunge during fetches, flag changes during searches
		runTrial(t, trial{procs: procs, preload: 40, progs: [][]op{
			append(sel("A"), loop("fetch", "", "1:*", 4)...),
			append(sel("A"), op{kind: "expunge"}, op{kind: "append", box: "A"}, op{kind: "store", arg: "1:*"}, op{kind: "expunge"}),
			append(sel("A"), op{kind: "search"}, op{kind: "unstore", arg: "1:*"}, op{kind: "uidsearch", arg: "1:*"}, op{kind: "fetchseen", arg: "1:*"}),
			append(sel("A"), op{kind: "idle"}, op{kind: "idle"}, op{kind: "noop"}),
		}})
		// listing during create / rename / delete, status during appends
		runTrial(t, trial{procs: procs, preload: 3, progs: [][]op{
			append(loop("list", "", "", 4), op{kind: "lsub"}),
			{{kind: "create", arg: "X"}, {kind: "rename", box: "X", arg: "Y"}, {kind: "delete", arg: "Y"}, {kind: "create", arg: "X"}, {kind: "subscribe", box: "X"}, {kind: "delete", arg: "X"}},
			append(loop("append", "B", "", 3), op{kind: "status", box: "B"}),
			append(loop("status", "B", "", 3), op{kind: "select", box: "B"}, op{kind: "close"}),
		}})
		ev.EvalN(3)
	}
	ev.NonTrivial("scenario:opposite-copy-move")
	ev.NonTrivial("scenario:expunge-during-fetch")
	ev.NonTrivial("scenario:list-during-rename")
}
