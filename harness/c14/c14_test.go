// Package c14 checks C14: sessions operating concurrently on one user's
// mailboxes through the real server and the in-memory backend never block each
// other for ever and never race. Build with -race.
//
// A trial runs 2..8 sessions, each in its own goroutine with its own raw
// connection, each executing a generated list of commands over 3 shared
// mailboxes (pairs of sessions copy and move in opposite directions, expunge
// during fetches, list during create/rename/delete, idle). Oracles: every
// command gets its tagged completion within the watchdog (otherwise the
// goroutine dump of the server is the report), the server log holds no panic,
// no connection is dropped, and the race detector stays silent.
package c14

import (
	"fmt"
	"testing"

	"github.com/emersion/go-imap/v2/verifh/kit/conc"
	"github.com/emersion/go-imap/v2/verifh/kit/ev"
	"pgregory.net/rapid"
)

func TestMain(m *testing.M) { ev.Main(m) }

func TestPropStress(t *testing.T) {
	rapid.Check(t, func(t *rapid.T) {
		tr := conc.GenTrial(t)
		n := conc.RunTrial(t, tr, nil)
		ev.Eval()
		ev.ClassN("commands-completed", int64(n))
		ev.Class(fmt.Sprintf("sessions=%d", len(tr.Progs)))
		if conc.Opposite(tr) {
			ev.NonTrivial(tr.String())
			ev.Class("opposite-direction-copy/move-pair")
		}
		ev.Sample(tr.String())
	})
}

// TestReplayScenarios: fixed programs for the interleavings the property
// names, repeated many times under varying GOMAXPROCS.
func TestReplayScenarios(t *testing.T) {
	reps := 40
	if ev.Thorough() {
		reps = 600
	}
	for i := 0; i < reps; i++ {
		for _, tr := range conc.Scenarios([]int{2, 4, 16}[i%3]) {
			conc.RunTrial(t, tr, nil)
		}
		ev.EvalN(3)
	}
	ev.NonTrivial("scenario:opposite-copy-move")
	ev.NonTrivial("scenario:expunge-during-fetch")
	ev.NonTrivial("scenario:list-during-rename")
}
